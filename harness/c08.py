"""C08 - algebraic tags are truthful.

T-tie: tools/translate/tags.py regenerates FuraxGen.TagTable from the imported package; Props/C08.v is
compiled against it on every run.

C-tie: every case is a JSON description of one operator instance.  `run_impl` builds the REAL furax
operator and observes: constructor outcome, the dense matrix built column by column from `mv` with an
independent flattening (and `as_matrix()`), declared/traced structures, `op.T is op`, the matrices of
`op.T` and `op.I`, the seven lineax predicates on the instance and the class's row computed by the
translator.  `model_term` is the term of Model/Tags.v (K := Q) giving (dense matrix, declared input
structure, structure of mv's result) for the same parameters.

Oracle (never uses the model): whatever the class declares - lineax predicate true, `transpose`
returning self, `inverse is transpose`, `out_structure is in_structure` - is checked on the instance
with NumPy: M = M^T, off-diagonal zeros, triangular zeros, x^T M x >= 0 on probe vectors,
M^T M = I = M M^T and matrix(op.I) = matrix(op.T) = M^-1, traced structure of mv = in_structure;
the instance-level predicates `lx.is_*(op)` must equal the class row.

Scope (maintainer round): (a) SymmetricBandToeplitzOperator is swept over every signal length n = 1..24 x every
band count K = 1..n+2 x every evaluation method (dense, direct, fft, overlap_save with the default and with
explicit fft sizes down to the minimal one), the matrix being read off `jit(vmap(mv))(I)`; the other tagged
classes get a range of sizes too.  (b) `derived` cases obtain the tagged operators through the PUBLIC
CONSTRUCTION PATHS: an expression (s * A, A * s, A / s, -A, A - B, .T, .I, A @ B, .reduce(), HWPOperator.create)
over base cases, with every scalar form (Python int/float/bool, NumPy generic / 0-d, JAX 0-d; size-1 and longer
arrays of rank 1-3 and lists, which are not scalars); EVERY tagged operator found in what comes out (the result
and, recursively, its operands) is observed and judged exactly like a directly constructed one, and the one the
case names is compared with the model (o_scale: scalar check + HomothetyOperator with the factor's shape).

(c) `prec` cases (maintainer round 3): every class with floating parameters (QU rotations and their transposed / lazy
inverse forms, HWPOperator.create / LinearPolarizerOperator.create composites, HomothetyOperator, DiagonalOperator and its
inverse, SymmetricBandToeplitzOperator with every method, ToastObservationMatrixOperator; the untagged
BroadcastDiagonalOperator and DenseBlockDiagonalOperator) x jax_enable_x64 on / off x the dtype the parameters are held in
(float32 / float64 JAX arrays, NumPy float64 arrays, Python floats) x the dtype of the data (float32 / float64), with
parameters of LARGE magnitude using the whole float64 mantissa (unwrapped angles up to 1e5 .. 1e6 rad, scalars and diagonal
values from 1e-5 to 1e6, bands of 1e5 .. 1e6).  The dense matrices of mv, op.T and (closed-form inverses) op.I are read off
basis vectors of the DATA dtype and judged by the oracle only (the model has no dtypes): matrix = float64 NumPy closed form
of the parameters the operator holds, every declared tag, dense(op.T) = M^T, dense(op.I) M = I, all at PREC_C = 64 rounding
units of the coarser of (precision the parameters are evaluated in, precision of the data) - i.e. the rounding level of the
data when the parameters are wider; the dtype of what mv returns is the data's (rotations, DESIGN 10.4) or the promoted one.

Floating point: all parameters [of the cases other than (c)] are small integers or dyadic rationals and x64 is enabled, so every
matrix is compared exactly; the only rounding is cos/sin of the rotation angles (k*pi/4 or
atan2(S, C)/2 of a Pythagorean pair) and `jnp.linalg.inv` in AbstractLazyInverseOperator.as_matrix:
those entries are snapped to the model's rational grid within 1e-9 (stated in the case: 'trig').
"""
from __future__ import annotations

import itertools
import math
import os
import sys
import tempfile
from fractions import Fraction
from pathlib import Path

import lib
from lib import PropertyCheck, clist, cq, cz

sys.path.insert(0, str(lib.VERIF / 'tools' / 'translate'))

TOL = 1e-9
TAGS = ['is_diagonal', 'is_lower_triangular', 'is_upper_triangular', 'is_tridiagonal', 'is_symmetric',
        'is_positive_semidefinite', 'is_negative_semidefinite']
QUERIES = TAGS + ['transpose_returns_self', 'inverse_is_transpose', 'out_structure_is_in_structure']
STOKES = {'I': 'SI', 'QU': 'SQU', 'IQU': 'SIQU', 'IQUV': 'SIQUV'}

_cache: dict = {}


def fx():
    if 'm' not in _cache:
        import jax

        jax.config.update('jax_enable_x64', True)
        jax.config.update('jax_traceback_filtering', 'off')
        import jax.numpy as jnp
        import lineax as lx
        import numpy as np

        import furax  # noqa: F401
        import tags as ttags
        from furax._base import axes, blocks, core, dense, diagonal, indices
        from furax.landscapes import StokesPyTree
        from furax.operators import hwp, polarizers, qu_rotations, toeplitz

        ttags.tables.import_all()
        _cache['m'] = dict(jax=jax, jnp=jnp, np=np, lx=lx, core=core, diagonal=diagonal, axes=axes, blocks=blocks,
                           dense=dense, indices=indices, hwp=hwp, pol=polarizers, qu=qu_rotations, toep=toeplitz,
                           Stokes=StokesPyTree, ttags=ttags)
    return _cache['m']


# ----------------------------------------------------------------------------------------------
# building the real operators


def struct_of(shapes, m):
    """One leaf -> a bare ShapeDtypeStruct, several -> a dict (leaf order = sorted keys)."""
    jax, jnp = m['jax'], m['jnp']
    leaves = [jax.ShapeDtypeStruct(tuple(s), jnp.float64) for s in shapes]
    return leaves[0] if len(leaves) == 1 else {chr(97 + i): l for i, l in enumerate(leaves)}


def stokes_struct(kind, shape, m):
    import numpy as np

    return m['Stokes'].class_for(kind).structure_for(tuple(shape), np.float64)


def fr(x) -> Fraction:
    return Fraction(x)


def angle_of(cs):
    """The angle a with (cos 2a, sin 2a) = (C, S)."""
    c, s = Fraction(cs[0]), Fraction(cs[1])
    return math.atan2(float(s), float(c)) / 2


def obs_npz(case):
    import numpy as np
    from scipy.sparse import csr_matrix

    d = Path(tempfile.gettempdir()) / 'C08' / 'npz'
    d.mkdir(parents=True, exist_ok=True)
    path = d / f'obs-{os.getpid()}-{lib.case_id(case)}.npz'
    a = csr_matrix(np.array(case['rows'], dtype=np.float64).reshape(case['r'], case['c']))
    np.savez(path, format='csr', data=a.data, indices=a.indices, indptr=a.indptr, shape=np.array(a.shape))
    return path


CASE_CLASS = {
    'identity': 'IdentityOperator', 'identity_stokes': 'IdentityOperator', 'homothety': 'HomothetyOperator',
    'diagonal': 'DiagonalOperator', 'diagonal_inverse': 'DiagonalInverseOperator', 'hwp': 'HWPOperator',
    'toeplitz': 'SymmetricBandToeplitzOperator', 'qurot': 'QURotationOperator', 'qurotT': 'QURotationTransposeOperator',
    'lazy_hwp': 'AbstractLazyInverseOrthogonalOperator', 'lazy_qurot': 'AbstractLazyInverseOrthogonalOperator',
    'moveaxis': 'MoveAxisOperator', 'obs_matrix': 'ToastObservationMatrixOperator', 'polarizer': 'LinearPolarizerOperator',
    'broadcast_diagonal': 'BroadcastDiagonalOperator', 'dense': 'DenseBlockDiagonalOperator', 'index': 'IndexOperator',
    'ravel': 'RavelOperator', 'reshape': 'ReshapeOperator',
}


def build(case, m):
    op = build0(case, m)
    if case.get('as_class'):
        # an operator class the model does not know (found by the failing-input search): an instance of it
        # with the fields of an instance of its known base class
        import dataclasses
        import importlib

        mod, name = case['as_class'].rsplit('.', 1)
        sub = getattr(importlib.import_module(mod), name)
        new = object.__new__(sub)
        for f in dataclasses.fields(op):
            object.__setattr__(new, f.name, getattr(op, f.name))
        return new
    return op


def build0(case, m):
    jnp, np = m['jnp'], m['np']
    k = case['cls']
    if k == 'identity':
        return m['core'].IdentityOperator(struct_of(case['shapes'], m))
    if k == 'identity_stokes':
        return m['core'].IdentityOperator(stokes_struct(case['stokes'], case['shape'], m))
    if k == 'homothety':
        return m['core'].HomothetyOperator(jnp.asarray(float(fr(case['k']))), struct_of(case['shapes'], m))
    if k in ('diagonal', 'diagonal_inverse'):
        vals = jnp.asarray(np.array([float(fr(v)) for v in case['values']]).reshape(case['dshape']))
        axis = case['axis'] if isinstance(case['axis'], int) else tuple(case['axis'])
        op = m['diagonal'].DiagonalOperator(vals, axis_destination=axis, in_structure=struct_of(case['shapes'], m))
        return op.I if k == 'diagonal_inverse' else op
    if k == 'hwp':
        return m['hwp'].HWPOperator(stokes_struct(case['stokes'], case['shape'], m))
    if k == 'toeplitz':
        band = jnp.asarray(np.array([float(fr(v)) for v in case['band']]).reshape(case['bshape']))
        jax = m['jax']
        return m['toep'].SymmetricBandToeplitzOperator(
            band, jax.ShapeDtypeStruct(tuple(case['xshape']), jnp.float64), method=case.get('method', 'dense'),
            fft_size=case.get('fft_size'))
    if k in ('qurot', 'qurotT', 'lazy_qurot'):
        ang = jnp.asarray(np.array([angle_of(cs) for cs in case['cs']]).reshape(case['ashape']))
        op = m['qu'].QURotationOperator(ang, stokes_struct(case['stokes'], case['shape'], m))
        if k == 'qurotT':
            return op.T
        if k == 'lazy_qurot':
            return m['core'].AbstractLazyInverseOrthogonalOperator(op)
        return op
    if k == 'lazy_hwp':
        return m['core'].AbstractLazyInverseOrthogonalOperator(m['hwp'].HWPOperator(stokes_struct(case['stokes'], case['shape'], m)))
    if k == 'moveaxis':
        return m['axes'].MoveAxisOperator(tuple(case['src']), tuple(case['dst']), in_structure=struct_of([case['shape']], m))
    if k == 'obs_matrix':
        from furax.toast.obs_matrix import ToastObservationMatrixOperator

        return ToastObservationMatrixOperator(obs_npz(case))
    # ---- classes that declare nothing (all rows false) ----
    if k == 'polarizer':
        return m['pol'].LinearPolarizerOperator(stokes_struct(case['stokes'], case['shape'], m))
    if k == 'broadcast_diagonal':
        vals = jnp.asarray(np.array([float(fr(v)) for v in case['values']]).reshape(case['dshape']))
        return m['diagonal'].BroadcastDiagonalOperator(vals, axis_destination=case['axis'], in_structure=struct_of(case['shapes'], m))
    if k == 'dense':
        blk = jnp.asarray(np.array(case['block'], dtype=np.float64))
        return m['dense'].DenseBlockDiagonalOperator(blk, struct_of([[blk.shape[1]]], m), 'ij,j->i')
    if k == 'index':
        return m['indices'].IndexOperator(jnp.asarray(case['idx']), in_structure=struct_of(case.get('shapes') or [case['shape']], m))
    if k == 'hwp_create':
        ang = jnp.asarray(np.array([angle_of(cs) for cs in case['cs']]).reshape(case['ashape']))
        return m['hwp'].HWPOperator.create(tuple(case['shape']), np.float64, case['stokes'], angles=ang)
    if k == 'ravel':
        return m['axes'].RavelOperator(in_structure=struct_of([case['shape']], m))
    if k == 'reshape':
        return m['axes'].ReshapeOperator(tuple(case['to']), in_structure=struct_of([case['shape']], m))
    if k == 'obs_matrix_T':
        from furax.toast.obs_matrix import ToastObservationMatrixOperator

        return ToastObservationMatrixOperator(obs_npz(case)).T
    if k in ('composition', 'addition', 'transpose', 'inverse', 'block_diag', 'block_row', 'block_col'):
        parts = [build(p, m) for p in case['parts']]
        if k == 'composition':
            return m['core'].CompositionOperator(parts)
        if k == 'addition':
            return m['core'].AdditionOperator(parts)
        if k == 'transpose':
            return m['core'].TransposeOperator(parts[0])
        if k == 'inverse':
            return m['core'].InverseOperator(parts[0])
        if k == 'block_diag':
            return m['blocks'].BlockDiagonalOperator(parts)
        if k == 'block_row':
            return m['blocks'].BlockRowOperator(parts)
        return m['blocks'].BlockColumnOperator(parts)
    if k == 'toy':
        return toy_classes(m)[case['decorator']](jnp.asarray(np.array(case['matrix'], dtype=np.float64)))
    raise ValueError(f'unknown case class {k}')


# ----------------------------------------------------------------------------------------------
# public construction paths: expressions over base cases

SCALAR_FORMS = ['py_int', 'py_float', 'py_bool', 'np_f64', 'np_i32', 'np0d', 'jax0d', 'jax0d_f32']  # 0-d: scalars
ARRAY_FORMS = {  # not scalars: shape of jnp.asarray(factor)
    'jax1': [1], 'jax11': [1, 1], 'jax111': [1, 1, 1], 'list1': [1], 'list11': [1, 1], 'jax2': [2], 'jax12': [1, 2],
    'np1': [1], 'np11': [1, 1], 'np2': [2],  # (NumPy arrays only as divisors: ndarray * A never reaches furax)
}


def scalar_of(spec, m):
    jnp, np = m['jnp'], m['np']
    v = Fraction(spec['v'])
    f = spec['form']
    if f == 'py_int':
        assert v.denominator == 1
        return int(v)
    if f == 'py_bool':
        assert v == 1
        return True
    x = float(v)
    if f == 'py_float':
        return x
    if f == 'np_f64':
        return np.float64(x)
    if f == 'np_i32':
        assert v.denominator == 1
        return np.int32(int(v))
    if f == 'np0d':
        return np.array(x)
    if f == 'jax0d':
        return jnp.asarray(x)
    if f == 'jax0d_f32':
        return jnp.asarray(x, dtype=jnp.float32)
    shape = ARRAY_FORMS[f]
    n = math.prod(shape)
    vals = np.array([x * (i + 1) for i in range(n)]).reshape(shape)
    if f.startswith('jax'):
        return jnp.asarray(vals)
    if f.startswith('list'):
        return vals.tolist()
    return vals


def scalar_shape(spec):
    return ARRAY_FORMS.get(spec['form'], [])


def build_expr(e, m):
    k = e['op']
    if k == 'case':
        return build(e['case'], m)
    if k in ('rmul', 'mul', 'div'):
        a, sc = build_expr(e['a'], m), scalar_of(e['s'], m)
        return sc * a if k == 'rmul' else a * sc if k == 'mul' else a / sc
    if k in ('neg', 'pos', 'T', 'I', 'reduce'):
        a = build_expr(e['a'], m)
        return -a if k == 'neg' else +a if k == 'pos' else a.T if k == 'T' else a.I if k == 'I' else a.reduce()
    if k in ('TA', 'AT', 'IA', 'AI'):  # products of ONE instance with its own transpose / inverse
        a = build_expr(e['a'], m)
        return a.T @ a if k == 'TA' else a @ a.T if k == 'AT' else a.I @ a if k == 'IA' else a @ a.I
    if k in ('matmul', 'add', 'sub'):
        a, b = build_expr(e['a'], m), build_expr(e['b'], m)
        return a @ b if k == 'matmul' else a + b if k == 'add' else a - b
    if k == 'block_diag':
        return m['blocks'].BlockDiagonalOperator([build_expr(x, m) for x in e['parts']])
    raise ValueError(f'unknown expression {k}')


def expr_str(e):
    k = e['op']
    if k == 'case':
        return e['case']['cls']
    if k in ('rmul', 'mul', 'div'):
        sc = f"{e['s']['form']}({e['s']['v']})"
        a = expr_str(e['a'])
        return f'{sc} * {a}' if k == 'rmul' else f'{a} * {sc}' if k == 'mul' else f'{a} / {sc}'
    if k in ('neg', 'pos'):
        return ('-' if k == 'neg' else '+') + expr_str(e['a'])
    if k in ('T', 'I'):
        return f"{expr_str(e['a'])}.{k}"
    if k == 'reduce':
        return f"({expr_str(e['a'])}).reduce()"
    if k in ('TA', 'AT', 'IA', 'AI'):
        a = expr_str(e['a'])
        return f'({a}.T @ {a})' if k == 'TA' else f'({a} @ {a}.T)' if k == 'AT' else f'({a}.I @ {a})' if k == 'IA' else f'({a} @ {a}.I)'
    if k == 'block_diag':
        return 'BlockDiag[' + ', '.join(expr_str(x) for x in e['parts']) + ']'
    return f"({expr_str(e['a'])} {dict(matmul='@', add='+', sub='-')[k]} {expr_str(e['b'])})"


def nodes_of(op, m):
    """The operator and, recursively, every operator stored in its fields (operands, wrapped operator, blocks)."""
    import dataclasses

    jax, lx = m['jax'], m['lx']
    out, seen = [], set()

    def rec(o):
        if id(o) in seen:
            return
        seen.add(id(o))
        out.append(o)
        if not dataclasses.is_dataclass(o):
            return
        for f in dataclasses.fields(o):
            v = getattr(o, f.name, None)
            for leaf in jax.tree.leaves(v, is_leaf=lambda x: isinstance(x, lx.AbstractLinearOperator)):
                if isinstance(leaf, lx.AbstractLinearOperator):
                    rec(leaf)

    rec(op)
    return out


TOYS = {  # decorator -> a matrix with exactly the property the decorator's name declares
    'diagonal': [[2, 0], [0, -4]],
    'lower_triangular': [[1, 0], [2, 4]],
    'upper_triangular': [[1, 2], [0, 4]],
    'symmetric': [[1, 2], [2, -4]],
    'positive_semidefinite': [[2, 1], [1, 2]],
    'negative_semidefinite': [[-2, 1], [1, -2]],
    'square': [[1, 2], [4, 8]],
    'orthogonal': [[0, -1], [1, 0]],
}


def toy_classes(m):
    """One dense operator class per decorator of furax._base.core, decorated with it: what the decorator
    does to a class (tags, transpose, inverse, out_structure) is then observed like for any other class."""
    if 'toys' in _cache:
        return _cache['toys']
    jax, core = m['jax'], m['core']

    class ToyDense(core.AbstractLinearOperator):
        matrix: jax.Array

        def mv(self, x):
            return self.matrix @ x

        def in_structure(self):
            return jax.ShapeDtypeStruct((self.matrix.shape[1],), self.matrix.dtype)

    class ToyDenseWithTranspose(ToyDense):
        def transpose(self):
            return type(self)(self.matrix.T)

    toys = {}
    for name in TOYS:
        base = ToyDenseWithTranspose if name == 'orthogonal' else ToyDense
        cls = type(f'Toy_{name}', (base,), {'__module__': __name__})
        toys[name] = getattr(core, name)(cls)
    _cache['toys'] = toys
    return toys


# ----------------------------------------------------------------------------------------------
# observing them


def shapes_of(tree, m):
    return [list(l.shape) for l in m['jax'].tree.leaves(tree)]


def columns(op, m):
    """Dense matrix column by column from op.mv, with an own flattening (leaves in pytree order, each
    leaf row-major) - the definition of the operator's dense matrix, not furax's as_matrix."""
    jax, jnp, np = m['jax'], m['jnp'], m['np']
    leaves, treedef = jax.tree.flatten(op.in_structure())
    sizes = [int(np.prod(l.shape, dtype=int)) for l in leaves]
    cols = []
    for li, leaf in enumerate(leaves):
        for j in range(sizes[li]):
            xs = [np.zeros(l.shape, dtype=np.float64) for l in leaves]
            xs[li].reshape(-1)[j] = 1.0
            x = jax.tree.unflatten(treedef, [jnp.asarray(a) for a in xs])
            y = op.mv(x)
            cols.append(np.concatenate([np.asarray(l, dtype=np.float64).ravel() for l in jax.tree.leaves(y)]))
    nout = sum(int(np.prod(l.shape, dtype=int)) for l in jax.tree.leaves(jax.eval_shape(op.mv, op.in_structure())))
    if not cols:
        return np.zeros((nout, 0))
    return np.stack(cols, axis=1)


def columns_vmap(op, m):
    """The same matrix for an operator over ONE 1-d leaf, from a single jitted call: row j of
    vmap(mv)(I) is mv(e_j), i.e. column j."""
    jax, jnp, np = m['jax'], m['jnp'], m['np']
    st = op.in_structure()
    Y = jax.jit(jax.vmap(op.mv))(jnp.eye(st.shape[0], dtype=st.dtype))
    return np.asarray(Y, dtype=np.float64).reshape(st.shape[0], -1).T


def exact(a):
    """Matrix of floats -> rows of exact values (ints / 'n/d' strings after lib.canon)."""
    if getattr(a, 'ndim', 2) != 2:
        return {'not_a_matrix': list(a.shape)}
    return [[Fraction(float(v)) for v in row] for row in a.tolist()]


def attempt(f):
    try:
        return f()
    except Exception as e:  # noqa: BLE001 - the kind of the exception is the observation
        return {'error': type(e).__name__}


def observe(case):
    m = fx()
    if case['cls'] == 'derived':
        return observe_derived(case, m)
    if case['cls'] == 'prec':
        with m['jax'].enable_x64(bool(case['x64'])):  # (the process default, x64 on, is restored on exit)
            return observe_prec(case, m)
    try:
        op = build(case, m)
    except Exception as e:  # noqa: BLE001
        return {'ctor': type(e).__name__}
    return observe_op(op, case, m)


def observe_derived(case, m):
    """What an expression over base cases returns: the result (lightly) and every TAGGED operator in it."""
    lx, ttags = m['lx'], m['ttags']
    try:
        op = build_expr(case['expr'], m)
    except Exception as e:  # noqa: BLE001
        return {'ctor': type(e).__name__}
    if not isinstance(op, lx.AbstractLinearOperator):
        return {'ctor': 'not-an-operator:' + type(op).__name__}
    obs = {'ctor': 'ok', 'class': type(op).__name__}
    light = dict(case)
    light['nomatrix'] = True
    obs['result'] = observe_op(op, light, m)
    obs['nodes'] = []
    for node in nodes_of(op, m):
        if any(ttags.class_row(type(node))):
            obs['nodes'].append(observe_op(node, {'cls': 'node', 'with_inverse': False}, m))
    return obs


def observe_op(op, case, m):
    jax, np, lx, ttags = m['jax'], m['np'], m['lx'], m['ttags']
    cls = type(op)
    obs = {'ctor': 'ok', 'class': cls.__name__}
    obs['row'] = ttags.class_row(cls)
    obs['lx'] = [attempt(lambda t=t: bool(getattr(lx, t)(op))) for t in TAGS]
    obs['in'] = shapes_of(op.in_structure(), m)
    obs['out_declared'] = attempt(lambda: shapes_of(op.out_structure(), m))
    obs['out_traced'] = attempt(lambda: shapes_of(jax.eval_shape(op.mv, op.in_structure()), m))
    T = attempt(lambda: op.T)
    obs['T_is_self'] = T is op
    if case.get('boundary') or case.get('nomatrix') or isinstance(obs['out_traced'], dict):
        return obs  # (when mv cannot even be traced on in_structure there is no matrix to look at)
    M = attempt(lambda: columns_vmap(op, m) if case.get('sweep') else columns(op, m))
    if isinstance(M, dict):
        obs['matrix_error'] = M
        return obs
    obs['matrix'] = exact(M)
    if isinstance(obs['matrix'], dict):
        obs['matrix_error'] = {'error': f'a result of shape {obs.pop("matrix")["not_a_matrix"]}'}
        return obs
    # as_matrix() is looked at when the class overrides it (the generic one is the same column
    # construction as `columns`, property C04)
    if case.get('no_as_matrix'):
        obs['as_matrix'] = {'skipped': True}  # (method-independent: looked at once per parameter set)
    elif cls.as_matrix is not m['core'].AbstractLinearOperator.as_matrix:
        # (sweep: traced once under jit instead of one XLA program per scatter of the dense construction)
        A = attempt(lambda: np.asarray(jax.jit(lambda: op.as_matrix())() if case.get('sweep') else op.as_matrix(), dtype=np.float64))
        obs['as_matrix'] = A if isinstance(A, dict) else exact(A)
    else:
        obs['as_matrix'] = {'generic': True}
    row = obs['row']
    if row[8] or case.get('with_inverse'):  # inverse is transpose: look at what .I and .T really are
        inv = attempt(lambda: op.I)
        obs['I_class'] = inv if isinstance(inv, dict) else type(inv).__name__
        obs['T_class'] = T if isinstance(T, dict) else type(T).__name__
        obs['I_matrix'] = inv if isinstance(inv, dict) else attempt(lambda: exact(columns(inv, m)))
        obs['T_matrix'] = T if isinstance(T, dict) else attempt(lambda: exact(columns(T, m)))
    return obs


# ----------------------------------------------------------------------------------------------
# (c) precision cases: x64 on/off x parameter dtype x data dtype x parameters of large magnitude
#
# A case {'cls': 'prec', 'op': ..., 'x64': bool, 'pdt': 'float32' | 'float64' | 'np64' | 'py', 'ddt': 'float32' |
# 'float64', 'params': [float64 values], 'pshape': [...], ...} describes ONE operator whose floating parameters are
# held in `pdt` (a JAX array of that dtype, a NumPy float64 array, a Python float) and whose input structure has
# dtype `ddt`, built and applied with jax_enable_x64 = `x64`.  The observation is the dense matrix of mv, of op.T and
# (closed-form inverses) of op.I, column by column on basis vectors of the DATA dtype, and the dtypes that come out.
# The model cannot express dtypes: these cases are judged by the oracle only, against a float64 NumPy closed form.

PREC_EPS = {'float32': 2.0**-23, 'float64': 2.0**-52}
PREC_C = 64  # tolerated error, in units of the rounding level (measured on the pinned tree: < 1, see stats.prec_max_ulps)
PREC_ROT = ('qurot', 'qurotT', 'lazy_qurot')
PREC_MIXING = PREC_ROT + ('hwp_create', 'polarizer_create')  # (+ Toeplitz by FFT): every entry carries rounding


def prec_eff(case):
    """(dtype the parameters are evaluated in, dtype of the data) after JAX's canonicalisation."""
    if not case['x64']:
        return 'float32', 'float32'
    return ('float32' if case['pdt'] == 'float32' else 'float64'), case['ddt']


def prec_values(case):
    """The parameter values the operator holds, exactly, as float64."""
    import numpy as np

    v = np.array(case['params'], dtype=np.float64).reshape(case['pshape'])
    return v.astype(prec_eff(case)[0]).astype(np.float64)


def prec_param(case, m):
    jnp, np = m['jnp'], m['np']
    v = np.array(case['params'], dtype=np.float64).reshape(case['pshape'])
    if case['pdt'] == 'py':
        return float(v.reshape(()))
    if case['pdt'] == 'np64':
        return v
    return jnp.asarray(v, dtype=getattr(jnp, case['pdt']))


def build_prec(case, m):
    jax, np = m['jax'], m['np']
    ddt = np.dtype(case['ddt'])
    k = case['op']

    def tree(shapes):
        leaves = [jax.ShapeDtypeStruct(tuple(s), ddt) for s in shapes]
        return leaves[0] if len(leaves) == 1 else {chr(97 + i): l for i, l in enumerate(leaves)}

    def stokes():
        return m['Stokes'].class_for(case['stokes']).structure_for(tuple(case['shape']), ddt)

    if k in PREC_ROT:
        op = m['qu'].QURotationOperator(prec_param(case, m), stokes())
        return op if k == 'qurot' else op.T if k == 'qurotT' else m['core'].AbstractLazyInverseOrthogonalOperator(op)
    if k == 'hwp_create':
        return m['hwp'].HWPOperator.create(tuple(case['shape']), ddt, case['stokes'], angles=prec_param(case, m))
    if k == 'polarizer_create':
        return m['pol'].LinearPolarizerOperator.create(tuple(case['shape']), ddt, case['stokes'], angles=prec_param(case, m))
    if k == 'hwp':
        return m['hwp'].HWPOperator(stokes())
    if k == 'identity':
        return m['core'].IdentityOperator(tree(case['shapes']))
    if k == 'homothety':
        return m['core'].HomothetyOperator(prec_param(case, m), tree(case['shapes']))
    if k in ('diagonal', 'diagonal_inverse'):
        op = m['diagonal'].DiagonalOperator(prec_param(case, m), axis_destination=-1, in_structure=tree(case['shapes']))
        return op.I if k == 'diagonal_inverse' else op
    if k == 'broadcast_diagonal':
        return m['diagonal'].BroadcastDiagonalOperator(prec_param(case, m), axis_destination=-1, in_structure=tree(case['shapes']))
    if k == 'dense':
        return m['dense'].DenseBlockDiagonalOperator(prec_param(case, m), tree([[case['pshape'][1]]]), 'ij,j->i')
    if k == 'toeplitz':
        return m['toep'].SymmetricBandToeplitzOperator(prec_param(case, m), tree([case['shape']]), method=case['method'])
    if k == 'obs_matrix':
        from scipy.sparse import csr_matrix

        from furax.toast.obs_matrix import ToastObservationMatrixOperator

        d = Path(tempfile.gettempdir()) / 'C08' / 'npz'
        d.mkdir(parents=True, exist_ok=True)
        path = d / f'prec-{os.getpid()}-{lib.case_id(case)}.npz'
        a = csr_matrix(np.array(case['params'], dtype=np.float64).reshape(case['pshape']).astype(np.dtype(case['pdt'])))
        np.savez(path, format='csr', data=a.data, indices=a.indices, indptr=a.indptr, shape=np.array(a.shape))
        try:
            return ToastObservationMatrixOperator(path)
        finally:
            path.unlink()
    raise ValueError(f'unknown precision case {k}')


def prec_rotation(case, np):
    """[[cos 2a, -sin 2a], [sin 2a, cos 2a]] on the (Q, U) pair of every sample, the identity on I and V."""
    kind, shape = case['stokes'], tuple(case['shape'])
    N, L = math.prod(shape), len(kind)
    R = np.eye(L * N)
    ql = kind.find('Q')
    if ql < 0:
        return R
    a = np.broadcast_to(prec_values(case), shape).ravel()
    c, s = np.cos(2 * a), np.sin(2 * a)
    for t in range(N):
        q, u = ql * N + t, (ql + 1) * N + t
        R[q, q], R[q, u], R[u, q], R[u, u] = c[t], -s[t], s[t], c[t]
    return R


def prec_hwp(case, np):
    N = math.prod(case['shape'])
    sign = {'I': [1], 'QU': [1, -1], 'IQU': [1, 1, -1], 'IQUV': [1, 1, -1, -1]}[case['stokes']]
    return np.diag(np.repeat(np.array(sign, dtype=np.float64), N))


def prec_reference(case, cls_name=None):
    """The matrix of the described operator (of its node of class `cls_name`), float64 NumPy closed form."""
    import numpy as np

    k = case['op']
    if cls_name is not None:  # a tagged operator inside a composite
        k = {'QURotationOperator': 'qurot', 'QURotationTransposeOperator': 'qurotT', 'HWPOperator': 'hwp'}.get(cls_name)
        if k is None:
            return None
    if k == 'qurot':
        return prec_rotation(case, np)
    if k in ('qurotT', 'lazy_qurot'):
        return prec_rotation(case, np).T
    if k == 'hwp':
        return prec_hwp(case, np)
    if k == 'hwp_create':
        R = prec_rotation(case, np)
        return R.T @ prec_hwp(case, np) @ R
    if k == 'polarizer_create':
        kind, N = case['stokes'], math.prod(case['shape'])
        P = np.zeros((N, len(kind) * N))
        for t in range(N):
            for l, s in enumerate(kind):
                if s in 'IQ':
                    P[t, l * N + t] = 0.5
        return P @ prec_rotation(case, np)
    v = prec_values(case)
    if k == 'identity':
        return np.eye(sum(math.prod(s) for s in case['shapes']))
    if k == 'homothety':
        return float(v.reshape(())) * np.eye(sum(math.prod(s) for s in case['shapes']))
    if k in ('diagonal', 'diagonal_inverse'):
        d = np.concatenate([np.broadcast_to(v, s).ravel() for s in case['shapes']])
        return np.diag(1 / d if k == 'diagonal_inverse' else d)
    if k == 'broadcast_diagonal':  # values (r, n) on a leaf (n,): y[a, i] = v[a, i] x[i]
        return np.concatenate([np.diag(row) for row in v], axis=0)
    if k in ('dense', 'obs_matrix'):
        return v
    if k == 'toeplitz':
        n = case['shape'][-1]
        i, j = np.indices((n, n))
        d = np.abs(i - j)
        return np.where(d < len(v), v[np.minimum(d, len(v) - 1)], 0.0)
    raise ValueError(k)


def columns_dt(op, m):
    """`columns` with basis vectors of the dtype the operator declares for its input; the dtypes of what comes out."""
    jax, jnp, np = m['jax'], m['jnp'], m['np']
    leaves, treedef = jax.tree.flatten(op.in_structure())
    cols, dts = [], set()
    for li, leaf in enumerate(leaves):
        for j in range(int(np.prod(leaf.shape, dtype=int))):
            xs = [np.zeros(l.shape, dtype=l.dtype) for l in leaves]
            xs[li].reshape(-1)[j] = 1
            y = op.mv(jax.tree.unflatten(treedef, [jnp.asarray(a) for a in xs]))
            dts |= {str(l.dtype) for l in jax.tree.leaves(y)}
            cols.append(np.concatenate([np.asarray(l, dtype=np.float64).ravel() for l in jax.tree.leaves(y)]))
    M = np.stack(cols, axis=1)
    if not np.isfinite(M).all():
        raise FloatingPointError('non-finite entries')
    return exact(M), sorted(dts)


def dtypes_of(tree, m):
    return sorted({str(l.dtype) for l in m['jax'].tree.leaves(tree)})


def observe_prec(case, m):
    lx, ttags = m['lx'], m['ttags']
    try:
        op = build_prec(case, m)
    except Exception as e:  # noqa: BLE001
        return {'ctor': type(e).__name__, 'detail': str(e)[:300]}
    obs = observe_prec_op(op, case, m)
    if case['op'] in ('hwp_create', 'polarizer_create'):  # composites: every tagged operator in them
        obs['nodes'] = [observe_prec_op(n, case, m) for n in nodes_of(op, m)
                        if n is not op and isinstance(n, lx.AbstractLinearOperator) and any(ttags.class_row(type(n)))]
    return obs


def observe_prec_op(op, case, m):
    jax, np, lx, ttags = m['jax'], m['np'], m['lx'], m['ttags']
    cls = type(op)
    obs = {'ctor': 'ok', 'class': cls.__name__, 'row': ttags.class_row(cls)}
    obs['lx'] = [attempt(lambda t=t: bool(getattr(lx, t)(op))) for t in TAGS]
    obs['in'], obs['in_dtypes'] = shapes_of(op.in_structure(), m), dtypes_of(op.in_structure(), m)
    obs['out_declared'] = attempt(lambda: shapes_of(op.out_structure(), m))
    traced = attempt(lambda: jax.eval_shape(op.mv, op.in_structure()))
    failed = isinstance(traced, dict) and set(traced) == {'error'}  # (a dict may also be the pytree of the result)
    obs['out_traced'] = traced if failed else shapes_of(traced, m)
    obs['out_dtypes'] = traced if failed else dtypes_of(traced, m)
    T = attempt(lambda: op.T)
    obs['T_is_self'] = T is op
    if failed:
        return obs

    def mat(o):
        r = attempt(lambda: columns_dt(o, m))
        return (r, None) if isinstance(r, dict) else r

    obs['matrix'], obs['mv_dtypes'] = mat(op)
    obs['T_matrix'] = T if isinstance(T, dict) else mat(T)[0]
    if obs['row'][8] or cls.__name__ in ('HomothetyOperator', 'DiagonalOperator', 'DiagonalInverseOperator'):
        inv = attempt(lambda: op.I)  # (closed-form inverses only: the generic one is a solver, property C06)
        obs['I_class'] = inv if isinstance(inv, dict) else type(inv).__name__
        obs['I_matrix'] = inv if isinstance(inv, dict) else mat(inv)[0]
    if 'as_matrix' in vars(cls):  # (the class's own closed form; the generic and the lazy-inverse ones: C04, and (a) above)
        A = attempt(lambda: np.asarray(op.as_matrix(), dtype=np.float64))
        obs['as_matrix'] = A if isinstance(A, dict) else exact(A) if np.isfinite(A).all() else {'error': 'non-finite entries'}
    return obs


# ----------------------------------------------------------------------------------------------
# the oracle: NumPy predicates on the observed matrices


def tofloat(rows):
    import numpy as np

    def f(v):
        if isinstance(v, str):
            n, d = v.split('/')
            return int(n) / int(d)
        return float(v)

    return np.array([[f(v) for v in r] for r in rows], dtype=float).reshape(len(rows), len(rows[0]) if rows else 0)


def check_matrix(name, M, row, tol):
    """Messages for every declared query that the matrix M does not satisfy."""
    import numpy as np

    out = []
    n, k = M.shape
    declared = [q for q, b in zip(QUERIES, row) if b]
    if declared and n != k:
        return [f'{name}: declared {declared} but the matrix is {n}x{k}']
    if not declared:
        return out
    i, j = np.indices((n, n))

    def zero(mask, what, q):
        bad = np.argwhere(mask & (np.abs(M) > tol))
        if len(bad):
            a, b = bad[0]
            out.append(f'{name}: declared {q} but entry ({a},{b}) = {M[a, b]!r} {what}')

    if row[0]:
        zero(i != j, 'is off the diagonal', QUERIES[0])
    if row[1]:
        zero(i < j, 'is above the diagonal', QUERIES[1])
    if row[2]:
        zero(i > j, 'is below the diagonal', QUERIES[2])
    if row[3]:
        zero(np.abs(i - j) > 1, 'is outside the three central diagonals', QUERIES[3])
    for qi in (4, 7):
        if row[qi]:
            bad = np.argwhere(np.abs(M - M.T) > tol)
            if len(bad):
                a, b = bad[0]
                out.append(f'{name}: declared {QUERIES[qi]} but M[{a},{b}] = {M[a, b]!r} != M[{b},{a}] = {M[b, a]!r}')
    for qi, sign in ((5, 1.0), (6, -1.0)):
        if row[qi]:
            if np.abs(M - M.T).max(initial=0) > tol:
                out.append(f'{name}: declared {QUERIES[qi]} but the matrix is not symmetric')
            else:
                w = np.linalg.eigvalsh((M + M.T) / 2) if n else np.zeros(0)
                if len(w) and (sign * w).min() < -1e-9:
                    out.append(f'{name}: declared {QUERIES[qi]} but an eigenvalue is {w[np.argmin(sign * w)]!r}')
    if row[8]:
        for what, G in (('M^T M', M.T @ M), ('M M^T', M @ M.T)):
            bad = np.argwhere(np.abs(G - np.eye(n)) > max(tol, 1e-12))
            if len(bad):
                a, b = bad[0]
                out.append(f'{name}: declared {QUERIES[8]} but ({what})[{a},{b}] = {G[a, b]!r}')
                break
    return out


class Check(PropertyCheck):
    id = 'C08'
    workers = 6  # one XLA program per case dominates (0.1-0.5 s each); 6 processes
    props = ['C08.v']
    static_targets = ['theories/Lemmas/TagsL.vo']
    coq_header = (
        'From Coq Require Import ZArith QArith List String.\nFrom Furax Require Import Model.Tags.\n'
        'Import ListNotations.\nImport TagsQ.\nOpen Scope Z_scope.'
    )
    trusted = [
        'T-tie translator tools/translate/tags.py: functools.singledispatch `dispatch(cls)` gives the function a '
        'lineax predicate runs for instances of cls; the two constant lambdas are recognised by bytecode; '
        '`cls.inverse is cls.transpose` / `cls.out_structure is cls.in_structure` are Python identity of the '
        'resolved class attributes; the decorators of core.py are read with ast (statement forms fail closed)',
        'the dense matrix of an operator is the matrix of columns mv(e_j), leaves concatenated in pytree order, each '
        'leaf row-major (property C04); floating point modelled by an exact commutative ring',
        'parameter layout is abstracted: the diagonal values / cos, sin of the angles / band rows enter the model '
        'already broadcast to the input (how they are laid out along axes is C11/C09/C15); jnp.moveaxis is a '
        'relabelling given by the permutation the harness reads off numpy.moveaxis (that it is one: C13)',
        'T-tie of the scalar paths: tools/translate/tags.py reads AbstractLinearOperator.__rmul__/__truediv__ with ast '
        '(asarray / `if <guard>: raise <Exception>` / `return HomothetyOperator(<value>, <structure>) @ self`, and that '
        '__mul__, __neg__, __sub__ go through __rmul__) and fails closed on any other statement form; the guard text '
        '`other.shape != ()` is modelled as scale_ctor (factor shape = [] or ValueError)',
        'guard of HomothetyOperator (value is 0-d): not checked by its dataclass constructor; enforced by the scalar '
        'check of the public paths (theorem scaling_builds_legal_homothety) and observed on everything those paths, '
        '.I/.T, `@` and reduce() return (derived cases); a HomothetyOperator built directly with an array value is '
        'outside the guard (the annotation says Scalar)',
        'Toeplitz sweep cases read the matrix off ONE jitted call jit(vmap(op.mv))(I) (row j = mv(e_j)) and as_matrix() '
        'under jit, instead of n eager calls; FFT-based methods are compared with the model after snapping to the '
        'grid of the band values (multiples of 1/8) within 1e-9',
        'guard of the theorems (cm_legal): what the constructor checks (DiagonalOperator._check_leaf_shapes, '
        'observation matrix squareness); for SymmetricBandToeplitzOperator and QURotationOperator, whose '
        'constructors check nothing, that the band values / angles broadcast INTO the input shape (same guard '
        'params_not_wider as C05; wider parameters are observed and reported under stats.boundary, not as '
        'violations); for AbstractLazyInverseOrthogonalOperator that the wrapped operator is orthogonal',
        'jax.linear_transpose returns the transposed matrix (AbstractLazyInverseOrthogonalOperator.mv); '
        'jnp.linalg.inv and cos/sin are compared within 1e-9 under x64',
        'correspondence harness harness/c08.py: real furax operators built from the same JSON description as the '
        'model term; oracle with NumPy on the observed matrices',
        'precision (`prec`) cases - mixed parameter / data dtypes, x64 off, parameters of large magnitude - are outside the '
        'model (an exact ring has no dtypes): they are judged by the implementation-side oracle alone, against float64 NumPy '
        'closed forms ([[cos 2a, -sin 2a], [sin 2a, cos 2a]], v I, diag(v), diag(1/v), band[|i-j|], the stored matrix) of the '
        'parameter values the operator holds, at 64 rounding units of the coarser of the two precisions involved (measured '
        'on the pinned tree: below 1 unit, stats.prec_max_ulps); `jax.enable_x64(False)` scopes the x64-off cases',
    ]

    # ---------------------------------------------------------------------------------- translate
    def translate(self):
        import tags as ttags

        info = ttags.generate(self.gen_dir)
        self.stats['table_true'] = {k: [q for q, b in zip(QUERIES, v) if b] for k, v in info['rows'].items() if any(v)}
        self.stats['decorators'] = sorted(info['decorators'])

    def gen_files(self):
        return ['TagTable.v']

    # --------------------------------------------------------------------------------------- cases
    def cases(self):
        quick = self.tier == 'quick'
        rng = self.rng
        cs = []
        structs = [[[3]], [[2, 2]], [[2], [3]], [[1]], [[2, 1, 2]]] + ([] if quick else [[[4]], [[2, 3], [3], [1]], [[0]], [[5]]])
        for st in structs:
            cs.append({'cls': 'identity', 'shapes': st})
            for k in (['2', '-1', '1/2'] if quick else ['2', '-1', '1/2', '0', '-3/4', '1']):
                cs.append({'cls': 'homothety', 'k': k, 'shapes': st})
        for kind in STOKES:
            for shape in ([[1], [2], [2, 2]] if quick else [[1], [2], [3], [2, 2], [1, 3], [2, 1, 2]]):
                cs.append({'cls': 'hwp', 'stokes': kind, 'shape': shape})
                cs.append({'cls': 'identity_stokes', 'stokes': kind, 'shape': shape})
                cs.append({'cls': 'lazy_hwp', 'stokes': kind, 'shape': shape})
        # diagonal operators: (shape of the values, axis_destination, leaf shapes)
        dspecs = [
            ([3], -1, [[3]]), ([3], 0, [[3]]), ([2, 3], -1, [[2, 3]]), ([3], -1, [[2, 3]]), ([2], 0, [[2, 3]]),
            ([3], -1, [[2, 3], [3]]), ([2], 0, [[2, 3], [2]]), ([1], -1, [[4]]), ([2, 2], [0, 2], [[2, 3, 2]]),
            ([2, 3], [1, 0], [[3, 2]]), ([3], 1, [[2, 3]]), ([1, 3], -1, [[2, 3]]),
        ]
        if not quick:
            dspecs += [([2, 3], 0, [[2, 3, 2]]), ([3, 2], -1, [[2, 3, 2]]), ([2], -2, [[2, 3], [2, 1]]), ([4], 0, [[4, 1]]),
                       ([2, 1], 0, [[2, 3]]), ([1, 1], 0, [[2, 3]])]
        pool = ['2', '-1', '1/2', '0', '-2', '-1/4', '4', '1']
        for dshape, axis, leaves in dspecs:
            n = math.prod(dshape)
            for rep in range(2 if quick else 4):
                vals = [pool[(i * 3 + rep * 5 + len(leaves)) % len(pool)] for i in range(n)] if rep else [pool[i % len(pool)] for i in range(n)]
                for k in ('diagonal', 'diagonal_inverse'):
                    cs.append({'cls': k, 'values': vals, 'dshape': dshape, 'axis': axis, 'shapes': leaves})
        # malformed: values wider than the input (the constructor must reject)
        for dshape, axis, leaves in [([2, 3], -1, [[3]]), ([2], 0, [[1, 3]]), ([2, 3], 0, [[2, 1]]), ([3], -1, [[2, 3], [1]]),
                                     ([2], 1, [[3]])]:
            cs.append({'cls': 'diagonal', 'values': ['1'] * math.prod(dshape), 'dshape': dshape, 'axis': axis,
                       'shapes': leaves, 'malformed': True})
        # Toeplitz: band shapes against input shapes
        tspecs = []
        for n in ([1, 2, 4] if quick else [1, 2, 3, 4, 5]):
            for K in ([1, 2, 3] if quick else [1, 2, 3, 4, 6]):
                tspecs.append(([n], [K]))
        tspecs += [([2, 3], [2]), ([2, 3], [2, 2]), ([2, 3], [1, 2]), ([2, 2, 2], [2, 3]), ([2, 2, 2], [2, 1, 1]), ([3, 1], [2])]
        if not quick:
            tspecs += [([3, 4], [3, 5]), ([2, 1, 3], [2, 1, 2]), ([2, 2, 3], [2])]
        bpool = ['1', '1/2', '-1/4', '2', '0', '3', '-1', '1/8']
        for xshape, bshape in tspecs:
            nb = math.prod(bshape)
            band = [bpool[(i + len(xshape) + xshape[-1]) % len(bpool)] for i in range(nb)]
            for method in (['dense', 'direct'] if quick else ['dense', 'direct']):
                cs.append({'cls': 'toeplitz', 'xshape': xshape, 'bshape': bshape, 'band': band, 'method': method})
            cs.append({'cls': 'toeplitz', 'xshape': xshape, 'bshape': bshape, 'band': band, 'method': 'overlap_save', 'fft': True})
        for xshape, bshape in [([3], [2, 2]), ([2, 3], [2, 1, 2]), ([1, 3], [2, 2])]:  # band values wider than the input
            cs.append({'cls': 'toeplitz', 'xshape': xshape, 'bshape': bshape, 'band': ['1'] * math.prod(bshape), 'boundary': True})
        # QU rotations: (cos 2a, sin 2a) exact on the axes (a = k pi/4) and Pythagorean pairs
        axis_pts = [['1', '0'], ['0', '1'], ['-1', '0'], ['0', '-1']]
        pyth = [['3/5', '4/5'], ['-4/5', '3/5'], ['5/13', '-12/13'], ['-3/5', '-4/5'], ['12/13', '5/13']]
        rspecs = [([1], [1]), ([2], [2]), ([3], [3]), ([2, 2], [2, 2]), ([2], [1]), ([2, 2], [2]), ([2, 3], [1, 3])]
        if not quick:
            rspecs += [([4], [4]), ([2, 2], [2, 1]), ([1, 3], [3]), ([2, 1, 2], [2])]
        for kind in STOKES:
            for shape, ashape in rspecs:
                na = math.prod(ashape)
                for rep in range(2 if quick else 5):
                    if rep == 0:
                        pts = [axis_pts[(i + len(shape)) % 4] for i in range(na)]
                    else:
                        pts = [rng.choice(axis_pts + pyth) for _ in range(na)]
                    trig = any('/' in c or '/' in s for c, s in pts)
                    for k in ('qurot', 'qurotT'):
                        cs.append({'cls': k, 'stokes': kind, 'shape': shape, 'ashape': ashape, 'cs': pts, 'trig': trig})
                    if rep == 0:
                        cs.append({'cls': 'lazy_qurot', 'stokes': kind, 'shape': shape, 'ashape': ashape, 'cs': pts, 'trig': False})
        for kind in ('QU', 'IQU'):  # angles wider than the input
            for shape, ashape in [([3], [2, 3]), ([1], [2]), ([2, 1], [2, 3])]:
                for k in ('qurot', 'qurotT'):
                    cs.append({'cls': k, 'stokes': kind, 'shape': shape, 'ashape': ashape,
                               'cs': [['1', '0']] * math.prod(ashape), 'boundary': True})
        # relabellings
        for shape, src, dst in [([2, 3], [0], [1]), ([2, 3, 2], [0], [2]), ([2, 3, 2], [0, 1], [1, 2]), ([3], [0], [0]),
                                ([2, 2, 3], [2], [0]), ([1, 3], [0], [-1])] + ([] if quick else [([2, 3, 2], [2, 0], [0, 1]), ([2, 3, 4], [1], [-1])]):
            cs.append({'cls': 'moveaxis', 'shape': shape, 'src': src, 'dst': dst})
        # observation matrices: the stored matrix is arbitrary; only its squareness is checked
        cs.append({'cls': 'obs_matrix', 'r': 3, 'c': 3, 'rows': [1, 0, 2, 0, 0, 3, 4, 0, 5]})
        cs.append({'cls': 'obs_matrix', 'r': 2, 'c': 2, 'rows': [0, 1, -1, 0]})
        cs.append({'cls': 'obs_matrix', 'r': 1, 'c': 1, 'rows': [7]})
        for r, c in [(2, 3), (3, 2), (1, 2)]:
            cs.append({'cls': 'obs_matrix', 'r': r, 'c': c, 'rows': list(range(1, r * c + 1)), 'malformed': True})
        # classes that declare nothing: the predicates must all be false, nothing may return itself
        rot = {'cls': 'qurot', 'stokes': 'IQU', 'shape': [2], 'ashape': [2], 'cs': [['0', '1'], ['3/5', '4/5']], 'trig': True}
        dg = {'cls': 'diagonal', 'values': ['2', '4'], 'dshape': [2], 'axis': -1, 'shapes': [[2]]}
        hw = {'cls': 'hwp', 'stokes': 'IQU', 'shape': [2]}
        idn = {'cls': 'identity', 'shapes': [[2]]}
        un = [
            {'cls': 'polarizer', 'stokes': 'IQU', 'shape': [2]}, {'cls': 'polarizer', 'stokes': 'QU', 'shape': [1]},
            {'cls': 'polarizer', 'stokes': 'I', 'shape': [2]},
            {'cls': 'broadcast_diagonal', 'values': ['1', '2', '3', '4'], 'dshape': [2, 2], 'axis': -1, 'shapes': [[2]]},
            {'cls': 'broadcast_diagonal', 'values': ['1', '2'], 'dshape': [2], 'axis': -1, 'shapes': [[2]]},
            {'cls': 'dense', 'block': [[1, 2], [3, 4]]}, {'cls': 'dense', 'block': [[1, 2], [2, 1]]},
            {'cls': 'index', 'idx': [1, 0], 'shape': [2]}, {'cls': 'index', 'idx': [0, 1], 'shape': [2]},
            {'cls': 'ravel', 'shape': [2, 2]}, {'cls': 'reshape', 'shape': [2, 2], 'to': [4]},
            {'cls': 'obs_matrix_T', 'r': 2, 'c': 2, 'rows': [0, 1, -1, 0]},
            {'cls': 'composition', 'parts': [dg, dg]}, {'cls': 'composition', 'parts': [hw, rot]},
            {'cls': 'addition', 'parts': [dg, idn]}, {'cls': 'addition', 'parts': [hw, hw]},
            {'cls': 'transpose', 'parts': [{'cls': 'dense', 'block': [[1, 2], [3, 4]]}]},
            {'cls': 'inverse', 'parts': [dg], 'nomatrix': True},
            {'cls': 'block_diag', 'parts': [dg, idn]}, {'cls': 'block_row', 'parts': [dg, idn]},
            {'cls': 'block_col', 'parts': [dg, idn]},
        ]
        for c in un:
            c = dict(c)
            c['untagged'] = True
            cs.append(c)
        # the decorators themselves, each on a toy dense operator that has the declared property only
        for name, mat in TOYS.items():
            cs.append({'cls': 'toy', 'decorator': name, 'matrix': mat, 'with_inverse': name == 'orthogonal'})
        cs += self._toeplitz_sweep(quick)
        cs += self._size_sweeps(quick)
        cs += self._derived_cases(quick)
        cs += self._prec_cases(quick)
        for c in cs:
            c.setdefault('kind', c['cls'] + ('-malformed' if c.get('malformed') else '-boundary' if c.get('boundary') else ''))
        self.exhaustive = False
        return cs

    # ---- (a) every evaluation method of the Toeplitz operator over a range of sizes ----
    @staticmethod
    def _fft_sizes(K):
        bn = 2 * K - 1
        default = int(2 ** (1 + math.ceil(math.log2(bn))))  # _get_default_fft_size (only used to avoid duplicates)
        cands = [bn, bn + 1, bn + 2, bn + 4, default // 2, 2 * default, default + 3]
        out = []
        for f in cands:
            if f >= bn and f != default and f not in out:
                out.append(f)
        return out

    def _toeplitz_sweep(self, quick):
        nz = ['1', '1/2', '-1/4', '2', '3', '-1', '1/8', '-2', '3/2', '-1/2', '4', '1/4']  # no zero: nothing hides
        cs = []
        for n in range(1, 25):
            for K in range(1, n + 3):
                band = [nz[(5 * i + n + K) % len(nz)] for i in range(K)]
                sizes = self._fft_sizes(K)
                if quick:
                    # XLA compiles one program per case (0.1-0.5 s): the quick tier takes, for EVERY (n, K), the default
                    # method with the default fft size and with one explicit size (rotating through the candidates), and
                    # one of dense / direct / fft (rotating); the thorough tier takes the full product
                    sizes = [sizes[(n + 3 * K) % len(sizes)]]
                    first = ('dense', 'direct', 'fft')[(n + K) % 3]
                    if first == 'dense' and K > 9 and (n + K) % 9:
                        first = 'direct'  # (tracing dense + as_matrix() costs ~0.1 s per band: most wide bands in thorough)
                    runs = [(first, None)]
                else:
                    runs = [('dense', None), ('direct', None), ('fft', None)]
                runs += [('overlap_save', None)] + [('overlap_save', f) for f in sizes]
                for method, f in runs:
                    c = {'cls': 'toeplitz', 'xshape': [n], 'bshape': [K], 'band': band, 'method': method, 'sweep': True,
                         'kind': 'toeplitz-sweep-' + method + ('-fft_size' if f else '')}
                    if f:
                        c['fft_size'] = f
                    if method in ('fft', 'overlap_save'):
                        c['fft'] = True
                    if method != 'dense':
                        c['no_as_matrix'] = True  # as_matrix() (method-independent, expensive to trace): next to `dense` only
                    cs.append(c)
        return cs

    # ---- (a) a range of sizes for the other tagged classes ----
    def _size_sweeps(self, quick):
        cs = []
        pool = ['2', '-1', '1/2', '-2', '-1/4', '4', '1', '0', '8', '-1/2']  # (+- powers of two: 1/d is exact)
        for n in ([6, 9, 16] if quick else [5, 6, 7, 9, 12, 16, 24]):
            cs.append({'cls': 'identity', 'shapes': [[n]]})
            cs.append({'cls': 'homothety', 'k': pool[n % 7], 'shapes': [[n]]})
        for n in (range(4, 13) if quick else range(4, 25)):
            vals = [pool[(3 * i + n) % len(pool)] for i in range(n)]
            for k in ('diagonal', 'diagonal_inverse'):
                cs.append({'cls': k, 'values': vals, 'dshape': [n], 'axis': -1 if n % 2 else 0, 'shapes': [[n]]})
        axis_pts = [['1', '0'], ['0', '1'], ['-1', '0'], ['0', '-1']]
        pyth = [['3/5', '4/5'], ['-4/5', '3/5'], ['5/13', '-12/13'], ['-3/5', '-4/5'], ['12/13', '5/13']]
        for kind in STOKES:
            for n in ([5, 8] if quick else [5, 6, 7, 8, 12]):
                cs.append({'cls': 'hwp', 'stokes': kind, 'shape': [n]})
                pts = [(axis_pts + pyth)[(2 * i + n + len(kind)) % 9] for i in range(n)]
                for k in ('qurot', 'qurotT'):
                    cs.append({'cls': k, 'stokes': kind, 'shape': [n], 'ashape': [n], 'cs': pts, 'trig': True})
        for r in ([5, 8] if quick else [4, 5, 6, 8, 12]):
            cs.append({'cls': 'obs_matrix', 'r': r, 'c': r, 'rows': [((i * 7 + 3) % 11) - 5 for i in range(r * r)]})
        cs.append({'cls': 'moveaxis', 'shape': [3, 4, 2], 'src': [0, 2], 'dst': [1, 0]})
        for c in cs:
            c['kind'] = c['cls'] + '-sizes'
        return cs

    # ---- (c) x64 on/off x parameter dtype x data dtype x large magnitudes, for every class with floating parameters ----
    def _prec_cases(self, quick):
        import random

        rng = random.Random(1000 * self.seed + 8)  # (an own stream: the cases above are not disturbed)
        on = [(True, p, d) for p in ('float64', 'float32', 'np64', 'py') for d in ('float32', 'float64')]
        off = [(False, p, 'float32') for p in ('np64', 'float32', 'py')]
        combos = on + off
        cs = []

        def add(op, x64, pdt, ddt, params, pshape, **kw):
            c = {'cls': 'prec', 'op': op, 'x64': x64, 'pdt': pdt, 'ddt': ddt, 'params': params, 'pshape': pshape}
            c.update(kw)
            c['kind'] = f'prec-{op}'
            c['what'] = (f'{op}{"[" + kw["method"] + "]" if "method" in kw else ""} under jax_enable_x64={x64}, parameters held as {pdt}, '
                         f'data {ddt}')
            cs.append(c)

        def draw(n, mag, lo=0.3):
            """n values of magnitude lo*mag..mag with all 53 bits of the mantissa in use, signs alternating from a random one."""
            s = rng.choice((-1, 1))
            return [s * (-1) ** i * mag * rng.uniform(lo, 1.0) for i in range(n)]

        # rotations: unwrapped angles (continuously rotating HWP, accumulated position angles) up to 1e5 .. 1e6 rad
        rshapes = [([3], [3]), ([2, 2], [2]), ([4], [1]), ([3], []), ([2, 3], [2, 1])]
        k = 0
        for op in PREC_ROT + ('hwp_create', 'polarizer_create'):
            for x64, pdt, ddt in combos:
                for mag in ((1e5, 1e6) if quick or op not in PREC_ROT else (1e5, 1e6, 3e4, 2.0)):
                    if quick and op not in PREC_ROT and (k := k + 1) % 2:
                        continue
                    shape, ashape = ([3], []) if pdt == 'py' else rshapes[rng.randrange(len(rshapes))]
                    stokes = ('QU', 'IQU', 'IQUV')[rng.randrange(3)] if op != 'polarizer_create' else ('QU', 'IQU')[rng.randrange(2)]
                    add(op, x64, pdt, ddt, draw(math.prod(ashape), mag), ashape, stokes=stokes, shape=shape)
        for x64, pdt, ddt in combos:
            # scalars and diagonals: large and small magnitudes together (1e-6 .. 1e6)
            for v in draw(2, 1e6, 0.1) + draw(1, 1e-5):
                if not quick or rng.random() < 0.5:
                    add('homothety', x64, pdt, ddt, [v], [], shapes=[[2], [3]] if rng.random() < 0.5 else [[2, 2]])
            if pdt == 'py':
                continue
            n = rng.choice((3, 4, 5))
            vals = draw(n - 2, 1e6) + draw(1, 1e-5) + draw(1, 1.0)
            rng.shuffle(vals)
            for op in ('diagonal', 'diagonal_inverse'):
                add(op, x64, pdt, ddt, vals, [n], shapes=[[n]] if rng.random() < 0.5 else [[2, n], [n]])
            add('broadcast_diagonal', x64, pdt, ddt, draw(2 * n, 1e5), [2, n], shapes=[[n]])
            add('dense', x64, pdt, ddt, draw(6, 1e5), [2, 3] if rng.random() < 0.5 else [3, 2])
            # Toeplitz: a large zero-lag value and a decaying band, every evaluation method
            for method in ('dense', 'direct', 'fft', 'overlap_save'):
                n, K = rng.choice(((6, 3), (5, 2), (8, 4), (4, 1)))
                band = [abs(draw(1, 1e6)[0])] + [b / (i + 2) for i, b in enumerate(draw(K - 1, 1e5))]
                add('toeplitz', x64, pdt, ddt, band, [K], shape=[n], method=method)
        for x64 in (True, False):
            for dt in ('float32', 'float64'):
                add('obs_matrix', x64, dt, dt, draw(9, 1e5), [3, 3])
                if x64 or dt == 'float32':  # classes without parameters: the data dtype alone
                    add('identity', x64, dt, dt, [], [0], shapes=[[2], [3]])
                    for stokes in STOKES:
                        add('hwp', x64, dt, dt, [], [0], stokes=stokes, shape=[2])
        return cs

    # ---- (b) tagged operators obtained through the public construction paths ----
    def _derived_cases(self, quick):
        C = lambda c: {'op': 'case', 'case': c}  # noqa: E731
        U = lambda k, a: {'op': k, 'a': a}  # noqa: E731
        B = lambda k, a, b: {'op': k, 'a': a, 'b': b}  # noqa: E731
        cs = []

        def add(expr, node=None, model=None, **kw):
            c = {'cls': 'derived', 'expr': expr, 'what': expr_str(expr)}
            if node:
                c['node'], c['model'] = node, model
            c.update(kw)
            c['kind'] = 'derived-' + expr['op']
            cs.append(c)

        # bases: leaves of rank 0, 1, 2, several leaves of different ranks; tagged and untagged classes
        ident = lambda st: {'cls': 'identity', 'shapes': st}  # noqa: E731
        dg3 = {'cls': 'diagonal', 'values': ['2', '4', '-1'], 'dshape': [3], 'axis': -1, 'shapes': [[3]]}
        dg23 = {'cls': 'diagonal', 'values': ['2', '-4', '1/2'], 'dshape': [3], 'axis': -1, 'shapes': [[2, 3], [3]]}
        hw0 = {'cls': 'hwp', 'stokes': 'IQU', 'shape': []}
        hw2 = {'cls': 'hwp', 'stokes': 'QU', 'shape': [2]}
        rot = {'cls': 'qurot', 'stokes': 'IQU', 'shape': [2], 'ashape': [2], 'cs': [['0', '1'], ['3/5', '4/5']], 'trig': True}
        rot0 = {'cls': 'qurot', 'stokes': 'QU', 'shape': [], 'ashape': [], 'cs': [['-4/5', '3/5']], 'trig': True}
        tp = {'cls': 'toeplitz', 'xshape': [3], 'bshape': [2], 'band': ['2', '1/2'], 'method': 'direct'}
        hm = {'cls': 'homothety', 'k': '4', 'shapes': [[3]]}
        hm0 = {'cls': 'homothety', 'k': '-1/2', 'shapes': [[], [2]]}
        dense = {'cls': 'dense', 'block': [[1, 2], [3, 4]]}
        ma = {'cls': 'moveaxis', 'shape': [2, 3], 'src': [0], 'dst': [1]}
        idx = {'cls': 'index', 'idx': [1, 0, 1], 'shape': [2]}
        bases = [
            (ident([[]]), [[]]), (ident([[3]]), [[3]]), (ident([[2, 2]]), [[2, 2]]), (ident([[2, 3], []]), [[2, 3], []]),
            (hw0, [[], [], []]), (hw2, [[2], [2]]), (dg3, [[3]]), (dg23, [[2, 3], [3]]), (rot, [[2], [2], [2]]),
            (rot0, [[], []]), (tp, [[3]]), (dense, [[2]]), (ma, [[3, 2]]), (idx, [[3]]),
        ]
        H = 'HomothetyOperator'

        def scale_model(path, spec, st):
            return {'kind': 'scale', 'path': path, 's': spec['v'], 'fshape': scalar_shape(spec), 'st': st}

        # every scalar form x every path on a few bases; what is not a scalar on ALL bases (rejection is cheap,
        # and each base has leaves of another rank for the factor to broadcast against)
        vals = {'py_int': '2', 'py_float': '-1/2', 'py_bool': '1', 'np_f64': '4', 'np_i32': '-2', 'np0d': '1/4',
                'jax0d': '-4', 'jax0d_f32': '2'}
        for bi, (b, st) in enumerate(bases):
            trig = bool(b.get('trig'))
            for fi, form in enumerate(SCALAR_FORMS):
                for pi, path in enumerate(('rmul', 'mul', 'div')):
                    if quick and bi >= 4 and (bi + fi + pi) % 3:
                        continue
                    spec = {'form': form, 'v': vals[form]}
                    add({'op': path, 's': spec, 'a': C(b)}, H, scale_model('SDiv' if path == 'div' else 'SMul', spec, st), trig=trig)
            for form in ARRAY_FORMS:
                for path in ('rmul', 'mul', 'div'):
                    if form.startswith('np') and path != 'div':
                        continue
                    spec = {'form': form, 'v': '2'}
                    add({'op': path, 's': spec, 'a': C(b)}, H, scale_model('SDiv' if path == 'div' else 'SMul', spec, st),
                        trig=trig, not_scalar=True)
            add(U('neg', C(b)), H, {'kind': 'scale', 'path': 'SNeg', 's': '1', 'fshape': [], 'st': st}, trig=trig)
            add(U('pos', C(b)), trig=trig)
        # differences, sums, negated sums
        add(B('sub', C(dg3), C(ident([[3]]))), H, {'kind': 'scale', 'path': 'SNeg', 's': '1', 'fshape': [], 'st': [[3]]})
        add(B('sub', C(hw0), C({'cls': 'identity_stokes', 'stokes': 'IQU', 'shape': []})))
        add(U('neg', B('add', C(dg3), C(tp))), H, {'kind': 'scale', 'path': 'SNeg', 's': '1', 'fshape': [], 'st': [[3]]})
        # merged scalars: at construction (HomothetyOperator.__matmul__) and by reduce() (HomothetyRule)
        s2, s3 = {'form': 'py_int', 'v': '2'}, {'form': 'jax0d', 'v': '-1/2'}
        for b, st, k in ((hm, [[3]], '4'), (hm0, [[], [2]], '-1/2')):
            add({'op': 'rmul', 's': s2, 'a': C(b)}, H, {'kind': 'merged', 's': '2', 't': k, 'st': st})
            add({'op': 'div', 's': s3, 'a': C(b)}, H, {'kind': 'merged', 's': '-2', 't': k, 'st': st})
            add(U('I', {'op': 'rmul', 's': s2, 'a': C(b)}), H, {'kind': 'hinv', 's': str(2 * Fraction(k)), 'st': st})
            add(U('I', C(b)), H, {'kind': 'hinv', 's': k, 'st': st})
            add(U('I', U('I', C(b))), H, {'kind': 'merged', 's': '1', 't': k, 'st': st})
            add(U('T', C(b)), H, {'kind': 'merged', 's': '1', 't': k, 'st': st})
            add(B('matmul', C(b), C(b)), H, {'kind': 'merged', 's': k, 't': k, 'st': st})
        for b, st in ((dense, [[2]]), (dg3, [[3]]), (hw0, [[], [], []]), (ident([[2, 3], []]), [[2, 3], []])):
            inner = {'op': 'rmul', 's': s3, 'a': C(b)}
            outer = {'op': 'mul', 's': s2, 'a': inner}
            add(U('reduce', outer), H, {'kind': 'merged', 's': '2', 't': '-1/2', 'st': st})
            add(U('reduce', B('matmul', outer, inner)), H, {'kind': 'merged', 's': '-1', 't': '-1/2', 'st': st})
        # .T / .I (and twice) of every tagged class
        dgi = dict(dg23, cls='diagonal_inverse')
        rotT = dict(rot, cls='qurotT')
        maT = {'cls': 'moveaxis', 'shape': [3, 2], 'src': [1], 'dst': [0]}
        obs = {'cls': 'obs_matrix', 'r': 2, 'c': 2, 'rows': [0, 1, -1, 0]}
        lz = {'cls': 'lazy_hwp', 'stokes': 'IQU', 'shape': [2]}
        M = lambda c: {'kind': 'case', 'case': c}  # noqa: E731
        N = CASE_CLASS
        idm = ident([[2, 3], []])
        hwl = {'cls': 'hwp', 'stokes': 'IQU', 'shape': [2]}
        rot0T = dict(rot0, cls='qurotT')
        # base, then the tagged operator expected in b.T, b.I, b.T.T, b.I.I, b.T.I (None: nothing to compare)
        for b, t, i, tt, ii, ti in (
            (idm, idm, idm, idm, idm, idm), (dg23, dg23, dgi, dg23, dg23, dgi), (dgi, dgi, dg23, dgi, dgi, dg23),
            (hw2, hw2, hw2, hw2, hw2, hw2), (hw0, hw0, hw0, hw0, hw0, hw0), (tp, tp, tp, tp, tp, tp),
            (rot, rotT, rotT, rot, rot, rot), (rotT, rot, rot, rotT, rotT, rotT), (rot0, rot0T, rot0T, rot0, rot0, rot0),
            (ma, maT, maT, ma, ma, ma), (obs, None, obs, obs, obs, None), (lz, hwl, hwl, hwl, hwl, hwl),
        ):
            trig = bool(b.get('trig'))
            for e, x in ((U('T', C(b)), t), (U('I', C(b)), i), (U('T', U('T', C(b))), tt), (U('I', U('I', C(b))), ii),
                         (U('I', U('T', C(b))), ti)):
                add(e, x and N[x['cls']], x and M(x), trig=trig)
        add(U('I', {'op': 'block_diag', 'parts': [C(dg3), C(hm)]}), N['diagonal_inverse'], M(dict(dg3, cls='diagonal_inverse')))
        add(U('T', {'op': 'block_diag', 'parts': [C(rot), C(hw2)]}), N['qurotT'], M(rotT), trig=True)
        # reduce(): the multiplicity DiagonalOperator of P.T @ P, rotations, rotation @ HWP, inverses
        for ind, shapes, counts in (([1, 0, 1], [[2]], ['1', '2']), ([2, 2, 0, 2, -1], [[3]], ['1', '0', '4']),
                                    ([0, 3, 3], [[4, 2]], ['1', '0', '0', '2']), ([1, 1], [[2], [2]], ['0', '2'])):
            P = {'cls': 'index', 'idx': ind, 'shapes': shapes}
            add(U('reduce', U('TA', C(P))), N['diagonal'],
                M({'cls': 'diagonal', 'values': counts, 'dshape': [len(counts)], 'axis': 0, 'shapes': shapes}))
        ra = {'cls': 'qurot', 'stokes': 'IQU', 'shape': [2], 'ashape': [2], 'cs': [['3/5', '4/5'], ['0', '1']], 'trig': True}
        rb = {'cls': 'qurot', 'stokes': 'IQU', 'shape': [2], 'ashape': [1], 'cs': [['5/13', '-12/13']], 'trig': True}

        def compose(a, b, sa, sb):  # (cos, sin) of 2(sa*alpha + sb*beta) per pixel
            out = []
            for t in range(2):
                c1, s1 = Fraction(a['cs'][t][0]), sa * Fraction(a['cs'][t][1])
                c2, s2 = Fraction(b['cs'][0][0]), sb * Fraction(b['cs'][0][1])
                out.append([str(c1 * c2 - s1 * s2), str(s1 * c2 + c1 * s2)])
            return dict(a, cs=out, ashape=[2])

        add(U('reduce', B('matmul', C(ra), C(rb))), N['qurot'], M(compose(ra, rb, 1, 1)), trig=True)
        add(U('reduce', B('matmul', C(ra), U('T', C(rb)))), N['qurot'], M(compose(ra, rb, 1, -1)), trig=True)
        add(U('reduce', B('matmul', U('T', C(ra)), C(rb))), N['qurot'], M(compose(ra, rb, -1, 1)), trig=True)
        add(U('reduce', B('matmul', U('T', C(ra)), U('T', C(rb)))), N['qurot'], M(compose(ra, rb, -1, -1)), trig=True)
        hw = {'cls': 'hwp', 'stokes': 'IQU', 'shape': [2]}
        add(U('reduce', B('matmul', C(ra), C(hw))), N['qurotT'], M(dict(ra, cls='qurotT')), trig=True)
        add(U('reduce', B('matmul', U('T', C(ra)), C(hw))), N['qurot'], M(ra), trig=True)
        hc = {'cls': 'hwp_create', 'stokes': 'IQU', 'shape': [2], 'ashape': [2], 'cs': ra['cs']}
        add(C(hc), N['hwp'], M(hw), trig=True)
        add(U('reduce', C(hc)), N['hwp'], M(hw), trig=True)
        add(U('T', C(hc)), N['qurotT'], M(dict(ra, cls='qurotT')), trig=True)
        add(U('reduce', U('AI', C(dg3))), N['identity'], M(ident([[3]])))
        add(U('IA', C(dg3)), N['identity'], M(ident([[3]])))
        add(U('reduce', U('AT', C(ma))), N['identity'], M(ident([[3, 2]])))
        add(U('reduce', U('TA', C(ma))), N['identity'], M(ident([[2, 3]])))
        add(U('IA', C(tp)), N['identity'], M(ident([[3]])))
        add(U('reduce', U('AI', C(tp))), N['identity'], M(ident([[3]])))
        add(U('reduce', U('TA', C(rot))), N['identity'], M({'cls': 'identity_stokes', 'stokes': 'IQU', 'shape': [2]}), trig=True)
        return cs

    def rule(self):
        return (
            'one case per operator instance: every tagged class over small structures (single leaf, several leaves, '
            'Stokes I/QU/IQU/IQUV), values in {0, +-1, +-1/2, ...} (dyadic), rotation angles k*pi/4 and Pythagorean '
            'pairs (3/5,4/5)..., band/angle/diagonal arrays of every broadcastable shape, malformed (wider) diagonal '
            'values and non-square observation matrices, wider Toeplitz/rotation parameters (boundary), and one or '
            'more instances of every class that declares nothing; SymmetricBandToeplitzOperator for every n in 1..24 x '
            'K in 1..n+2 x method (dense on a third of them in the quick tier, direct, fft, overlap_save with the default '
            'and 2 [quick] / all of {2K-1, 2K, 2K+1, 2K+3, default/2, 2 default, default+3} explicit fft sizes); a range '
            'of sizes for the other tagged classes; derived: expressions over those bases through the public '
            'construction paths (s*A, A*s, A/s with 8 scalar and 10 non-scalar factor forms, -A, +A, A-B, -(A+B), .T, .I, '
            '.T.T, .I.I, .T.I, A@B, block diagonals, reduce() of P.T@P / scaled / rotation / HWP / inverse products, '
            'HWPOperator.create), every tagged operator in the result being observed; prec: every class with floating '
            'parameters x jax_enable_x64 on/off x parameters held as float32 / float64 JAX arrays, NumPy float64 arrays or '
            'Python floats x data float32 / float64, parameter values drawn (own seeded stream) with full float64 mantissas at '
            'large magnitudes (angles 3e4..1e6 rad, scalars/diagonals 1e-6..1e6, Toeplitz bands 1e5..1e6 with each of the 4 '
            'methods), shapes / Stokes kinds drawn per case; distinct by canonical JSON. Non-trivial: the '
            'class declares at least one query, or the instance belongs to an untagged class whose matrix has a '
            'property it could have been tagged with.'
        )

    def nontrivial(self, case, obs):
        if isinstance(obs, dict) and case['cls'] == 'derived':
            return obs.get('ctor') != 'ok' or bool(obs.get('nodes'))
        if isinstance(obs, dict) and case['cls'] == 'prec':
            return obs.get('ctor') != 'ok' or any(obs.get('row') or []) or bool(obs.get('nodes')) or bool(case['params'])
        return isinstance(obs, dict) and (any(obs.get('row') or []) or obs.get('ctor') not in (None, 'ok') or case.get('untagged'))

    # ------------------------------------------------------------------------------------ impl side
    def run_impl(self, case):
        return observe(case)

    def comparable(self, case, obs):
        if case['cls'] == 'derived':
            if obs.get('ctor') != 'ok':
                # (whatever refuses a factor that is not a scalar - furax's ValueError, Python's TypeError for a list)
                return {'ctor': 'ValueError' if case.get('not_scalar') and obs.get('ctor') in ('ValueError', 'TypeError') else obs.get('ctor')}
            node = next((n for n in obs['nodes'] if n.get('class') == case['node']), None)
            if node is None:
                return {'ctor': 'ok', 'missing': f'no {case["node"]} in the result', 'classes': [n.get('class') for n in obs['nodes']]}
            like = dict(case['model']['case']) if case['model']['kind'] == 'case' else {'cls': 'homothety'}
            if case.get('trig'):
                like['trig'] = True
            like['no_as_matrix'] = True
            return self.comparable(like, node)
        if obs.get('ctor') != 'ok':
            return {'ctor': obs.get('ctor')}
        out = {'ctor': 'ok', 'in': obs['in'], 'out': obs['out_traced'] if not isinstance(obs['out_traced'], dict) else None}
        if case['cls'] == 'moveaxis':  # not square: the model has no structures for it (C13)
            out = {'ctor': 'ok'}
        if 'matrix' in obs:
            # FFT-based Toeplitz methods round: entries snapped to the grid of the band values (eighths) within 1e-9
            out['matrix'] = self._snap(case, obs['matrix'])
            if case['cls'] == 'toeplitz' and not case.get('no_as_matrix') and not isinstance(obs.get('as_matrix'), dict):
                out['as_matrix'] = obs['as_matrix']
        return lib.canon(out)

    def _snap(self, case, rows):
        """Entries that went through cos/sin, an FFT or linalg.inv: snapped to the grid of the model's rationals."""
        if case.get('fft'):
            return [[self._snap1(v, 8) for v in r] for r in rows]
        if not case.get('trig'):
            if case['cls'] in ('qurot', 'qurotT', 'lazy_qurot'):
                return [[self._snap1(v, 1) for v in r] for r in rows]
            return rows
        return [[self._snap1(v, 65) for v in r] for r in rows]

    @staticmethod
    def _snap1(v, den):
        f = tofloat([[v]])[0, 0]
        g = round(f * den)
        return lib.canon(Fraction(g, den)) if abs(f * den - g) < TOL * den else v

    # ----------------------------------------------------------------------------------- model side
    def model_term(self, case):
        k = case['cls']
        if case.get('untagged') or case['cls'] == 'toy':
            return None
        if k == 'derived':
            mo = case.get('model')
            if not mo:
                return None
            Qd = lambda v: cq(Fraction(v))  # noqa: E731
            std = lambda ss: clist(ss, lambda x: clist(x, cz))  # noqa: E731
            if mo['kind'] == 'case':
                return self.model_term(mo['case'])
            if mo['kind'] == 'scale':
                return f'o_scale {mo["path"]} {Qd(mo["s"])} {clist(mo["fshape"], cz)} {std(mo["st"])}'
            if mo['kind'] == 'merged':
                return f'o_homothety_merged {Qd(mo["s"])} {Qd(mo["t"])} {std(mo["st"])}'
            if mo['kind'] == 'hinv':
                return f'o_homothety_inverse {Qd(mo["s"])} {std(mo["st"])}'
            raise ValueError(mo['kind'])
        Q = lambda v: cq(Fraction(v))  # noqa: E731
        sh = lambda s: clist(s, cz)  # noqa: E731
        st = lambda ss: clist(ss, sh)  # noqa: E731
        if k == 'identity':
            t = f'o_identity {st(case["shapes"])}'
        elif k == 'identity_stokes':
            t = f'o_identity {st([case["shape"]] * len(case["stokes"]))}'
        elif k == 'homothety':
            t = f'o_homothety {Q(case["k"])} [] {st(case["shapes"])}'
        elif k in ('diagonal', 'diagonal_inverse'):
            vals, leaves = self._diag_model(case)
            leaves_t = clist(leaves, lambda l: f'({sh(l[0])}, {sh(l[1])}, {sh(l[2])})')
            if case.get('malformed'):
                return f'o_diag_ctor {clist(vals, Q)} {leaves_t}'
            t = f'{"o_diagonal" if k == "diagonal" else "o_diagonal_inverse"} {clist(vals, Q)} {leaves_t}'
        elif k == 'hwp':
            t = f'o_hwp {STOKES[case["stokes"]]} {sh(case["shape"])}'
        elif k == 'lazy_hwp':
            L, N = len(case['stokes']), math.prod(case['shape'])
            sign = {'I': [1], 'QU': [1, -1], 'IQU': [1, 1, -1], 'IQUV': [1, 1, -1, -1]}[case['stokes']]
            rows = [[(sign[i // N] if i == j else 0) for j in range(L * N)] for i in range(L * N)]
            s = st([case['shape']] * L)
            t = f'o_lazy_inv_orth {clist(rows, lambda r: clist(r, Q))} {L * N} {s} {s}'
        elif k == 'toeplitz':
            xb, n = case['xshape'][:-1], case['xshape'][-1]
            bb, K = case['bshape'][:-1], case['bshape'][-1]
            bands = self._bcast_rows(case['band'], bb, K, xb)
            t = f'o_toeplitz {sh(xb)} {n} {sh(bb)} {clist(bands, lambda r: clist(r, Q))}'
        elif k in ('qurot', 'qurotT'):
            c, s = self._bcast_cs(case)
            t = f'{"o_qurot" if k == "qurot" else "o_qurotT"} {STOKES[case["stokes"]]} {sh(case["shape"])} {sh(case["ashape"])} {clist(c, Q)} {clist(s, Q)}'
        elif k == 'lazy_qurot':
            # the operand's matrix is a parameter of the class: the (exact, angles k pi/4) matrix of R
            rows = self._rot_rows(case)
            L, N = len(case['stokes']), math.prod(case['shape'])
            s = st([case['shape']] * L)
            t = f'o_lazy_inv_orth {clist(rows, lambda r: clist(r, Q))} {L * N} {s} {s}'
        elif k == 'moveaxis':
            import numpy as np

            n = math.prod(case['shape'])
            tau = np.moveaxis(np.arange(n).reshape(case['shape']), case['src'], case['dst']).ravel().tolist()
            sigma = np.argsort(np.array(tau)).tolist()
            t = f'o_moveaxis {clist(tau, cz)} {clist(sigma, cz)}'
            return f'(let \'(m, i, o) := {t} in (m, i))'
        elif k == 'obs_matrix':
            if case.get('malformed'):
                return f'o_obs_ctor {case["r"]} {case["c"]}'
            rows = [case['rows'][i * case['c'] : (i + 1) * case['c']] for i in range(case['r'])]
            t = f'o_obs_matrix {clist(rows, lambda r: clist(r, Q))} {case["r"]} {case["c"]}'
        else:
            return None
        if case.get('boundary'):
            return f'(let \'(m, i, o) := {t} in (i, o))'
        return t

    def _diag_model(self, case):
        """Broadcast values (flat, all leaves) and per leaf (reshaped diagonal, reshaped leaf, leaf) shapes,
        computed with NumPy from the documented meaning of axis_destination."""
        import numpy as np

        d = np.array(case['values'], dtype=object).reshape(case['dshape'])
        vals, leaves = [], []
        for leaf in case['shapes']:
            axis = case['axis']
            nd = d.ndim
            if isinstance(axis, int):
                axes = list(range(axis, axis + nd)) if axis >= 0 else list(range(axis - nd + 1, axis + 1))
            else:
                axes = list(axis)
            axes = [a if a >= 0 else len(leaf) + a for a in axes]
            left = -min(0, min(axes))
            right = max(0, max(axes) - len(leaf) + 1)
            rank = left + right + len(leaf)
            dsh = [1] * rank
            for kk, a in enumerate(axes):
                dsh[a + left] = d.shape[kk]
            lsh = list(leaf) + [1] * right
            leaves.append((dsh, lsh, list(leaf)))
            if not case.get('malformed'):
                src = list(range(nd))
                dd = np.moveaxis(d.reshape(list(d.shape) + [1] * (rank - nd)), src, [a + left for a in axes])
                vals += np.broadcast_to(dd, leaf).ravel().tolist()
        return vals, leaves

    @staticmethod
    def _bcast_rows(values, bshape, K, xbatch):
        """Row of the (batched) parameter array used for every row of the input batch."""
        import numpy as np

        b = np.array(values, dtype=object).reshape(list(bshape) + [K])
        try:
            out = np.broadcast_shapes(tuple(xbatch), tuple(bshape))
        except ValueError:
            return []
        bb = np.broadcast_to(b, list(out) + [K]).reshape(-1, K)
        return bb.tolist()

    @staticmethod
    def _bcast_cs(case):
        import numpy as np

        c = np.array([p[0] for p in case['cs']], dtype=object).reshape(case['ashape'])
        s = np.array([p[1] for p in case['cs']], dtype=object).reshape(case['ashape'])
        try:
            out = np.broadcast_shapes(tuple(case['shape']), tuple(case['ashape']))
        except ValueError:
            return [], []
        return np.broadcast_to(c, out).ravel().tolist(), np.broadcast_to(s, out).ravel().tolist()

    def _rot_rows(self, case):
        c, s = self._bcast_cs(case)
        kind, N = case['stokes'], math.prod(case['shape'])
        L = len(kind)
        ql = kind.find('Q')
        rows = [[Fraction(0)] * (L * N) for _ in range(L * N)]
        for t in range(N):
            for l in range(L):
                rows[l * N + t][l * N + t] = Fraction(1)
            if ql >= 0:
                q, u = ql * N + t, (ql + 1) * N + t
                rows[q][q], rows[q][u] = Fraction(c[t]), -Fraction(s[t])
                rows[u][q], rows[u][u] = Fraction(s[t]), Fraction(c[t])
        return rows

    def decode(self, case, v):
        def rows(m):
            return [[x for x in r] for r in m]

        def opt(o):
            if o is None:
                return None
            if isinstance(o, dict) and o.get('c') == 'Some':
                return o['a'][0]
            return o

        if case['cls'] == 'derived':
            mo = case['model']
            if mo['kind'] == 'case':
                like = dict(mo['case'])
                like['no_as_matrix'] = True
                return self.decode(like, v)
            if mo['kind'] == 'scale':
                if v is None or v == 'None' or (isinstance(v, dict) and v.get('c') == 'None'):
                    return {'ctor': 'ValueError'}
                v = opt(v)
            m, i, o = v
            return {'ctor': 'ok', 'in': i, 'out': opt(o), 'matrix': rows(m)}
        if case.get('malformed'):
            name = v['c'] if isinstance(v, dict) else str(v)
            return {'ctor': {'CtorOk': 'ok', 'CtorValueError': 'ValueError'}.get(name, name)}
        if case['cls'] == 'moveaxis':
            m, i = v
            return {'ctor': 'ok', 'matrix': rows(m)}
        if case.get('boundary'):
            i, o = v
            return {'ctor': 'ok', 'in': i, 'out': opt(o)}
        m, i, o = v
        out = {'ctor': 'ok', 'in': i, 'out': opt(o), 'matrix': rows(m)}
        if case['cls'] == 'toeplitz' and not case.get('no_as_matrix'):
            out['as_matrix'] = rows(m)
        return out

    # -------------------------------------------------------------------------------------- oracle
    def oracle(self, case, obs):
        if not isinstance(obs, dict):
            return f'unexpected observation {obs!r}'
        if case['cls'] == 'derived':
            return self._oracle_derived(case, obs)
        if case['cls'] == 'prec':
            return self._oracle_prec(case, obs)
        return self._oracle_op(case, obs)

    def _oracle_prec(self, case, obs):
        """Precision cases: the tags, op.T and op.I judged at the rounding level of the dtypes the case is evaluated in
        (parameters WIDER than the data: the rounding level of the data), against the float64 closed form."""
        if obs.get('ctor') != 'ok':
            return f'constructor raised {obs["ctor"]} on legal parameters ({obs.get("detail")})'
        msgs = self._oracle_prec_op(case, obs, prec_reference(case), obs['class'])
        for k, n in enumerate(obs.get('nodes', [])):
            msgs += [f'operator #{k} ({n["class"]}) of the composite: {s}'
                     for s in self._oracle_prec_op(case, n, prec_reference(case, n['class']), n['class'])]
        return f'{case["what"]}: ' + '; '.join(msgs) if msgs else None

    def _oracle_prec_op(self, case, obs, R, name):
        import numpy as np

        row = obs['row']
        msgs = []
        if obs['lx'] != row[:7]:
            msgs.append(f'lineax predicates on the instance {dict(zip(TAGS, obs["lx"]))} differ from the class row {row[:7]}')
        if row[4] and not obs['T_is_self']:
            msgs.append('declared symmetric but op.T is not op')
        if obs['T_is_self'] != row[7]:
            msgs.append(f'op.T is op = {obs["T_is_self"]} but transpose_returns_self of the class is {row[7]}')
        if isinstance(obs['out_traced'], dict):
            return msgs + [f'mv raises {obs["out_traced"]["error"]} on an input of structure in_structure() = {obs["in"]} {obs["in_dtypes"]}']
        peff, deff = prec_eff(case)
        rot = name in ('QURotationOperator', 'QURotationTransposeOperator') or case['op'] == 'lazy_qurot'
        if row[9]:
            if obs['out_declared'] != obs['in'] or obs['out_traced'] != obs['in']:
                msgs.append(f'declared square but out_structure() is {obs["out_declared"]} and mv returns {obs["out_traced"]} '
                            f'for in_structure() = {obs["in"]}')
            # dtypes: (DESIGN 10.4) parameters wider than the data widen what a @square class returns - counted, not a
            # finding - except for the rotations, whose angles no longer widen inexact data; nothing may NARROW the data
            wide = 'float64' if 'float64' in (peff, deff) else 'float32'
            allowed = [obs['in_dtypes']] if rot or case['pdt'] == 'py' else [obs['in_dtypes'], [wide]]
            for what, got in (('traced', obs['out_dtypes']), ('returned', obs['mv_dtypes'])):
                if got is not None and got not in allowed:
                    msgs.append(f'declared square but the {what} result of mv has dtype {got} for data of dtype {obs["in_dtypes"]} '
                                f'(parameters evaluated in {peff})')
                    break
            if obs['out_dtypes'] != obs['in_dtypes']:
                self.stats['boundary_wider_dtype'] = self.stats.get('boundary_wider_dtype', 0) + 1
        if isinstance(obs['matrix'], dict):
            return msgs + [f'mv raises {obs["matrix"]["error"]} on a basis vector of in_structure()']
        M = tofloat(obs['matrix'])
        if R is None or M.shape != R.shape:
            return msgs + [f'the matrix of mv is {M.shape[0]}x{M.shape[1]}, expected {None if R is None else R.shape}']
        # rounding level: the coarser of the precision the parameters are evaluated in and the precision of the data
        eps = max(PREC_EPS[peff], PREC_EPS[deff])
        mixing = case['op'] in PREC_MIXING or rot or case.get('method') in ('fft', 'overlap_save')
        scale = np.abs(R).max(initial=0.0)
        unit = eps * ((np.abs(R) + scale) if mixing else np.abs(R))  # (not mixing: structural zeros are exact zeros)
        worst = [0.0]

        def close(what, A, B, U, factor=1):
            if A.shape != B.shape:
                msgs.append(f'{what}: a {A.shape} matrix, expected {B.shape}')
                return
            err = np.abs(A - B)
            with np.errstate(divide='ignore', invalid='ignore'):
                ratio = np.where(err > 0, err / (factor * U), 0.0)
            worst[0] = max(worst[0], float(ratio.max(initial=0.0)))
            bad = np.argwhere(err > factor * PREC_C * U)
            if len(bad):
                a, b = bad[0]
                msgs.append(f'{what}: entry ({a},{b}) = {float(A[a, b])!r}, expected {float(B[a, b])!r} (rounding level {eps:.1e}; '
                            f'worst entry off by {err.max():.3g})')

        mode = f'{"x64" if case["x64"] else "x32"}, parameters {case["pdt"]}, data {deff}'
        close(f'matrix of mv differs from the closed form ({mode})', M, R, unit)
        msgs += check_matrix('matrix of mv', M, row, PREC_C * eps * max(scale, 1.0) if mixing else 0.0)
        if isinstance(obs['T_matrix'], dict):
            msgs.append(f'op.T cannot be applied: {obs["T_matrix"]}')
        else:
            MT = tofloat(obs['T_matrix'])
            if MT.shape != M.T.shape:
                msgs.append(f'op.T acts as a {MT.shape} matrix, the transposed matrix of mv is {M.T.shape}')
            else:
                bad = np.argwhere(np.abs(MT - M.T) > 2 * PREC_C * unit.T)
                if len(bad):
                    a, b = bad[0]
                    msgs.append(f'op.T does not act as the transposed matrix of mv ({mode}): dense(op.T)[{a},{b}] = {float(MT[a, b])!r} '
                                f'but M[{b},{a}] = {float(M[b, a])!r}')
                close(f'matrix of op.T differs from the transposed closed form ({mode})', MT, R.T, unit.T)
        if 'I_matrix' in obs:
            if isinstance(obs['I_matrix'], dict):
                msgs.append(f'op.I cannot be applied: {obs["I_matrix"]}')
            else:
                MI = tofloat(obs['I_matrix'])
                n = M.shape[0]
                G = MI @ M if MI.shape == M.T.shape else None
                if G is None:
                    msgs.append(f'op.I acts as a {MI.shape} matrix')
                else:
                    bad = np.argwhere(np.abs(G - np.eye(n)) > 4 * PREC_C * eps)
                    if len(bad):
                        a, b = bad[0]
                        msgs.append(f'dense(op.I) @ M is not the identity: entry ({a},{b}) = {float(G[a, b])!r} (rounding level {eps:.1e})')
                    if row[8] and not isinstance(obs['T_matrix'], dict) and np.abs(MI - tofloat(obs['T_matrix'])).max(initial=0) > 0:
                        msgs.append('op.I does not act as op.T')
        if 'as_matrix' in obs:
            if isinstance(obs['as_matrix'], dict):
                msgs.append(f'as_matrix() raises {obs["as_matrix"]}')
            else:
                close('as_matrix() differs from the closed form', tofloat(obs['as_matrix']), R, unit, 8 if 'Lazy' in name else 1)
        key = 'prec_max_ulps'
        self.stats[key] = max(self.stats.get(key, 0.0), round(worst[0], 2))
        return msgs

    def _oracle_derived(self, case, obs):
        """Everything tagged in what a public construction path returns is judged like a direct instance."""
        what = case.get('what', 'expression')
        if obs.get('ctor') != 'ok':
            if case.get('not_scalar'):
                return None  # a factor that is not a scalar was refused (the kind of refusal is compared with the model)
            return f'{what}: raised {obs["ctor"]} on legal operands'
        msgs = []
        res = obs['result']
        flags = {'cls': 'derived', 'trig': case.get('trig')}
        m0 = self._oracle_op(dict(flags, nomatrix=True), res)
        if m0:
            msgs.append(f'result {res.get("class")}: {m0}')
        if not isinstance(res.get('out_traced'), dict) and res.get('out_declared') != res.get('out_traced'):
            msgs.append(f'result {res.get("class")}: out_structure() is {res.get("out_declared")} but mv returns {res.get("out_traced")} '
                        f'for an input of structure in_structure() = {res.get("in")}')
        for k, n in enumerate(obs['nodes']):
            mk = self._oracle_op(flags, n)
            if mk:
                msgs.append(f'operator #{k} ({n.get("class")}) of the result: {mk}')
        return f'{what}: ' + '; '.join(msgs) if msgs else None

    def _oracle_op(self, case, obs):
        if obs.get('ctor') != 'ok':
            if case.get('malformed'):
                return None if obs['ctor'] == 'ValueError' else f'malformed parameters: constructor outcome {obs["ctor"]}, expected ValueError'
            return f'constructor raised {obs["ctor"]} on legal parameters'
        if case.get('malformed'):
            # accepted although wider than the input: the class is declared square, so this must not widen
            pass
        row = obs['row']
        msgs = []
        # instance-level predicates = class row
        if obs['lx'] != row[:7]:
            msgs.append(f'lineax predicates on the instance {dict(zip(TAGS, obs["lx"]))} differ from the class row {row[:7]}')
        if case.get('untagged') and any(row):
            msgs.append(f'class {obs["class"]} now declares {[q for q, b in zip(QUERIES, row) if b]}')
        if row[4] and not obs['T_is_self']:
            msgs.append('declared symmetric but op.T is not op')
        if obs['T_is_self'] != row[7]:
            msgs.append(f'op.T is op = {obs["T_is_self"]} but transpose_returns_self of the class is {row[7]}')
        # square: what mv returns has the declared input structure
        if row[9]:
            if obs['out_declared'] != obs['in']:
                msgs.append(f'declared square but out_structure() {obs["out_declared"]} != in_structure() {obs["in"]}')
            if isinstance(obs['out_traced'], dict):
                msgs.append(f'declared square but mv raises {obs["out_traced"]["error"]} on an input of structure in_structure() = {obs["in"]}')
            elif obs['out_traced'] != obs['in']:
                if case.get('boundary'):
                    self.stats['boundary_wider_parameters'] = self.stats.get('boundary_wider_parameters', 0) + 1
                    if len(self.stats.setdefault('boundary_samples', [])) < 3:
                        self.stats['boundary_samples'].append(
                            {'case': lib.pub(case), 'in_structure': obs['in'], 'mv_returns': obs['out_traced']})
                else:
                    msgs.append(f'declared square but mv returns structure {obs["out_traced"]} for an input of structure {obs["in"]}')
        if 'matrix_error' in obs:
            msgs.append(f'mv raises {obs["matrix_error"]["error"]} on a basis vector of in_structure()')
        if 'matrix' in obs:
            name = obs.get('class')
            rot = case['cls'] in ('qurot', 'qurotT', 'lazy_qurot') or name in ('QURotationOperator', 'QURotationTransposeOperator')
            tol = TOL if (case.get('trig') or case.get('fft') or rot) else 0.0
            lazy = 'lazy' in case['cls'] or case['cls'] == 'qurotT' or name in ('QURotationTransposeOperator', 'AbstractLazyInverseOrthogonalOperator')
            M = tofloat(obs['matrix'])
            msgs += check_matrix('matrix of mv', M, row, tol)
            if isinstance(obs['as_matrix'], dict) and 'not_a_matrix' in obs['as_matrix']:
                msgs.append(f'as_matrix() returns an array of shape {obs["as_matrix"]["not_a_matrix"]}')
            if not isinstance(obs['as_matrix'], dict):
                A = tofloat(obs['as_matrix'])
                msgs += check_matrix('as_matrix()', A, row, max(tol, TOL if lazy else 0.0))
            if row[8] and 'I_matrix' in obs:
                import numpy as np

                if isinstance(obs['I_matrix'], dict) or isinstance(obs['T_matrix'], dict):
                    msgs.append(f'declared inverse_is_transpose but op.I / op.T cannot be applied: {obs["I_matrix"] if isinstance(obs["I_matrix"], dict) else obs["T_matrix"]}')
                else:
                    MI, MT = tofloat(obs['I_matrix']), tofloat(obs['T_matrix'])
                    if MI.shape != MT.shape or np.abs(MI - MT).max(initial=0) > tol:
                        msgs.append('op.I does not act as op.T')
                    if MT.shape != M.T.shape or np.abs(MT - M.T).max(initial=0) > tol:
                        msgs.append('op.T does not act as the transposed matrix')
                    elif np.abs(MI @ M - np.eye(M.shape[0])).max(initial=0) > max(tol, 1e-12):
                        msgs.append('op.I @ op is not the identity')
        return '; '.join(msgs) if msgs else None

    def search_cases(self):
        """When a tie is broken: first instances of operator classes the model does not know (built from
        the parameters of their known base classes), then the thorough cases."""
        m = fx()
        tables = m['ttags'].tables
        known = set(tables.CLS.values())
        mine = type(self)('quick', self.seed).cases()
        for u in tables.all_operator_classes():
            if u.__name__ in known:
                continue
            bases = {b.__name__ for b in u.__mro__}
            for c in mine:
                if CASE_CLASS.get(c['cls']) in bases and not (c.get('malformed') or c.get('boundary')):
                    c = dict(c)
                    c['as_class'] = f'{u.__module__}.{u.__name__}'
                    c.pop('untagged', None)
                    yield c
        yield from super().search_cases()

    def distribution(self, cases):
        d: dict = {}
        for c in cases:
            d[c['kind']] = d.get(c['kind'], 0) + 1
        return d
