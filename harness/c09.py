"""C09 - all Toeplitz evaluation methods compute the same banded product.

Real code: furax.operators.toeplitz.SymmetricBandToeplitzOperator, run in worker processes (one per
64-bit mode, several in parallel).  Model: Furax.Model.Toeplitz over K := Z, with the integer arithmetic
regenerated from the source (FuraxGen.ToeplitzArith, tools/translate/toeplitz.py).  Oracle: NumPy dense
banded product, computed here independently of both.
"""
from __future__ import annotations

import itertools
import json
import os
import random
import subprocess
import sys
import tempfile
from pathlib import Path

import lib
from lib import PropertyCheck, Tie, cbool, clist, copt, cstr, cz

sys.path.insert(0, str(lib.VERIF / 'tools' / 'translate'))

DOC_METHODS = ('dense', 'direct', 'fft', 'overlap_save')  # the property text's four methods
FFT_METHODS = ('fft', 'overlap_save')
TOL = {'f32': 10**9, 'f64': 10**3}  # units of 1e-12: 1e-3 (float32), 1e-9 (float64)
NP_NAME = {'f32': 'float32', 'f64': 'float64'}
NWORKERS = int(os.environ.get('VERIF_C09_WORKERS', '10'))


# --------------------------------------------------------------------------------------------------
# the real code (executed in worker processes: `python c09.py --worker in.json out.json`)


def impl_one(case: dict) -> dict:
    import jax
    import jax.numpy as jnp
    import numpy as np
    from jax import lax

    dt = {'f32': jnp.float32, 'f64': jnp.float64}
    kind = case['kind']
    assert bool(jax.config.jax_enable_x64) == bool(case.get('x64', False)), 'worker in the wrong 64-bit mode'

    def rounded(a, n=None):
        a = np.asarray(a, dtype=np.float64)
        r = np.rint(a)
        err = float(np.max(np.abs(a - r))) if a.size else 0.0
        return r.astype(np.int64), int(np.ceil(err * 1e12))  # rounding error in units of 1e-12

    if kind == 'default':
        from furax.operators.toeplitz import SymmetricBandToeplitzOperator as T

        v = T._get_default_fft_size(case['b'])
        return {'outcome': 'ok', 'value': int(v), 'is_int': isinstance(v, int)}
    if kind.startswith('spec_'):
        d = dt[case.get('dtype', 'f64')]
        if kind == 'spec_fft':
            a = jnp.asarray(case['a'], dtype=d)
            b = jnp.asarray(case['b'], dtype=d)
            L = case['L']
            y, err = rounded(jnp.fft.ifft(jnp.fft.fft(a, L) * jnp.fft.fft(b, L)).real)
            return {'outcome': 'ok', 'y': y.tolist(), 'err': err}
        if kind == 'spec_conv':
            y = jnp.convolve(jnp.asarray(case['a'], dtype=d), jnp.asarray(case['v'], dtype=d), mode='valid')
            y, err = rounded(y)
            return {'outcome': 'ok', 'y': y.tolist(), 'err': err}
        if kind == 'spec_dslice':
            y, err = rounded(lax.dynamic_slice(jnp.asarray(case['a'], dtype=d), (case['start'],), (case['size'],)))
            return {'outcome': 'ok', 'y': y.tolist(), 'err': err}
        if kind == 'spec_dupdate':
            y = lax.dynamic_update_slice(jnp.asarray(case['a'], dtype=d), jnp.asarray(case['u'], dtype=d), (case['start'],))
            y, err = rounded(y)
            return {'outcome': 'ok', 'y': y.tolist(), 'err': err}
        if kind == 'spec_scatter':
            y = jnp.asarray(case['a'], dtype=d).at[jnp.asarray(case['idx'], dtype=jnp.int32)].set(d(case['v']))
            y, err = rounded(y)
            return {'outcome': 'ok', 'y': y.tolist(), 'err': err}
        raise ValueError(kind)

    from furax.operators.toeplitz import SymmetricBandToeplitzOperator as T

    n, K = case['n'], case['K']
    bshape = tuple(case['bbatch']) + (K,)
    xshape = tuple(case['xbatch']) + (n,)
    band = jnp.asarray(np.array(case['band'], dtype=np.float64).reshape(bshape), dtype=dt[case.get('bdtype', case['dtype'])])
    xdtype = jnp.zeros((), dtype=dt[case['dtype']]).dtype
    kw = {}
    if case.get('method') is not None:
        kw['method'] = case['method']
    if case.get('fft') is not None:
        kw['fft_size'] = case['fft']
    try:
        op = T(band, jax.ShapeDtypeStruct(xshape, xdtype), **kw)
    except Exception as e:
        return {'outcome': f'ctor:{type(e).__name__}', 'msg': str(e)[:200]}
    obs = {'outcome': 'ok', 'stored_fft': None if op.fft_size is None else int(op.fft_size)}
    if kind == 'ctor':
        obs['method'] = op.method
        return obs
    if kind == 'apply':
        x = jnp.asarray(np.array(case['x'], dtype=np.float64).reshape(xshape), dtype=dt[case['dtype']])
        try:
            y = op(x)
            y.block_until_ready()
        except Exception as e:
            return {'outcome': f'apply:{type(e).__name__}', 'msg': str(e)[:300], 'stored_fft': obs['stored_fft']}
        r, err = rounded(y)
        obs.update(
            shape=list(y.shape),
            dtype=str(y.dtype),
            y=r.reshape(-1, n).tolist() if r.ndim >= 1 and r.shape[-1] == n else r.reshape(-1).tolist(),
            err=err,
            in_shape=list(x.shape),
            in_dtype=str(x.dtype),
            band_dtype=str(band.dtype),
        )
        return obs
    if kind == 'matrix':
        try:
            M = op.as_matrix()
        except Exception as e:
            return {'outcome': f'apply:{type(e).__name__}', 'msg': str(e)[:300], 'stored_fft': obs['stored_fft']}
        r, err = rounded(M)
        obs.update(shape=list(M.shape), M=r.tolist(), err=err, transpose_is_self=bool(op.T is op))
        return obs
    raise ValueError(kind)


def worker_main(inp: str, out: str) -> None:
    import warnings

    warnings.simplefilter('ignore')
    import time

    t0 = time.time()
    cases = json.loads(Path(inp).read_text())
    res = []
    for c in cases:
        try:
            res.append(impl_one(c))
        except Exception as e:  # harness problem, reported as such by the driver
            import traceback

            res.append({'harness_error': f'{type(e).__name__}: {e}', 'tb': traceback.format_exc()[-1200:]})
    Path(out).write_text(json.dumps(res))
    print(f'worker {inp}: {len(cases)} cases in {time.time() - t0:.1f}s', file=sys.stderr)


def run_workers(cases: list[dict], nworkers: int = NWORKERS) -> list[dict]:
    """Run the real code on the cases in worker processes (grouped by 64-bit mode); results in order."""
    if not cases:
        return []
    groups: dict[bool, list[int]] = {False: [], True: []}
    for i, c in enumerate(cases):
        groups[bool(c.get('x64', False))].append(i)
    jobs = []
    tmp = Path(tempfile.mkdtemp(prefix='c09-', dir=str(lib.WORK) if lib.WORK.exists() else None))
    def weight(c):
        if c['kind'] == 'apply':
            return (3.0 if c.get('method') == 'overlap_save' else 1.0) * (1.5 if c.get('xbatch') else 1.0)
        return 1.0 if c['kind'] == 'matrix' else 0.03

    total = sum(weight(c) for c in cases) or 1.0
    for x64, idx in groups.items():
        if not idx:
            continue
        # neighbouring cases share shapes (compilation cache): sort by shape, contiguous chunks of equal cost
        idx.sort(key=lambda i: (cases[i]['kind'], str(cases[i].get('xbatch')), str(cases[i].get('bbatch')), cases[i].get('n', 0),
                                cases[i].get('K', 0), str(cases[i].get('method')), cases[i].get('fft') or 0))
        gw = sum(weight(cases[i]) for i in idx)
        k = max(1, min(len(idx), round(nworkers * gw / total)))
        chunks, cur, acc = [], [], 0.0
        for i in idx:
            cur.append(i)
            acc += weight(cases[i])
            if acc >= gw / k and len(chunks) < k - 1:
                chunks.append(cur)
                cur, acc = [], 0.0
        if cur:
            chunks.append(cur)
        for j, chunk in enumerate(chunks):
            fi = tmp / f'in_{int(x64)}_{j}.json'
            fo = tmp / f'out_{int(x64)}_{j}.json'
            fi.write_text(json.dumps([cases[i] for i in chunk]))
            env = dict(os.environ)
            env['JAX_ENABLE_X64'] = '1' if x64 else '0'
            env.setdefault('JAX_PLATFORMS', 'cpu')
            env['PYTHONPATH'] = str(lib.REPO / 'src')
            env['XLA_FLAGS'] = '--xla_force_host_platform_device_count=1 --xla_cpu_multi_thread_eigen=false'
            p = subprocess.Popen(
                [sys.executable, str(Path(__file__).resolve()), '--worker', str(fi), str(fo)],
                env=env,
                stdout=subprocess.PIPE,
                stderr=subprocess.PIPE,
                text=True,
            )
            jobs.append((chunk, fo, p))
    out: list = [None] * len(cases)
    for chunk, fo, p in jobs:
        try:
            _, err = p.communicate(timeout=3000)
        except subprocess.TimeoutExpired:
            p.kill()
            err = 'worker timed out'
        if p.returncode != 0 or not fo.exists():
            for i in chunk:
                out[i] = {'harness_error': f'worker failed (rc={p.returncode}): {err[-800:]}'}
            continue
        for i, r in zip(chunk, json.loads(fo.read_text())):
            out[i] = r
        if os.environ.get('VERIF_C09_DEBUG'):
            print(err.strip().splitlines()[-1] if err.strip() else '', file=sys.stderr)
    for f in tmp.iterdir():
        f.unlink()
    tmp.rmdir()
    return out


# --------------------------------------------------------------------------------------------------
# independent reference (NumPy)


def ref_T(n: int, band: list[int]):
    import numpy as np

    K = len(band)
    M = np.zeros((n, n), dtype=np.int64)
    for i in range(n):
        for j in range(n):
            if abs(i - j) < K:
                M[i, j] = band[abs(i - j)]
    return M


def bcast_rows(xbatch, bbatch):
    """For every row of the broadcast batch: (row index into x, row index into band) - via NumPy."""
    import numpy as np

    out = np.broadcast_shapes(tuple(xbatch), tuple(bbatch))
    xi = np.broadcast_to(np.arange(int(np.prod(xbatch, dtype=int))).reshape(tuple(xbatch)), out).reshape(-1)
    bi = np.broadcast_to(np.arange(int(np.prod(bbatch, dtype=int))).reshape(tuple(bbatch)), out).reshape(-1)
    return list(out), xi.tolist(), bi.tolist()


def canon_dtype(name: str, x64: bool) -> str:
    return NP_NAME[name] if x64 else 'float32'


def method_of(case) -> str:
    m = case.get('method')
    return 'overlap_save' if m is None else m


def legal(case) -> bool:
    m = method_of(case)
    if m not in DOC_METHODS:
        return False
    f = case.get('fft')
    if f is None:
        return True
    return m == 'overlap_save' and f >= 2 * case['K'] - 1


# --------------------------------------------------------------------------------------------------


def coq_rows(rows) -> str:
    return clist(rows, lambda r: clist(r, cz))


COQ_DT = {'f32': 'F32', 'f64': 'F64'}


class Check(PropertyCheck):
    id = 'C09'
    props = ['C09.v']
    static_targets = ['theories/Lemmas/ToeplitzL.vo']
    shard = 200
    coq_header = (
        'From Coq Require Import ZArith List Bool String.\n'
        'From Furax Require Import Model.Toeplitz.\n'
        'From FuraxGen Require Import ToeplitzArith.\n'
        'Import ListNotations.\nOpen Scope Z_scope.\n'
        'Definition obs_mv := zobs_mv direct_arith fft_arith os_arith ctor.\n'
        'Definition obs_dt x64 m xd bd := dtype_out os_y_dtype x64 m (dt_canon x64 xd) (dt_canon x64 bd).\n'
        'Definition obs_ctor m f bsize blast := ctor (match m with Some s => s | None => ctor_default_method end) f bsize blast.\n'
        'Definition L2 (l : list Z) := zarr_of_list l.\n'
    )
    trusted = [
        'exact ring arithmetic stands for floating point (inputs are small integers; FFT paths are rounded to the '
        'nearest integer with |err| < 1e-3 (float32) / 1e-9 (float64) asserted)',
        'Gallina specifications of the JAX primitives used by toeplitz.py: pad, python slices, concatenate, '
        "convolve(mode='valid'), lax.dynamic_slice/dynamic_update_slice (wrap once, clamp), .at[].set (wrap once, drop), "
        'fori_loop, vectorize (row-wise over broadcast batch), block_diag, matmul; and the DFT convolution theorem '
        'ifft(fft(a,L)*fft(b,L)).real = circular convolution - each compared with JAX by the spec_* cases',
        'np.ceil(a / b) and np.ceil(np.log2(b)) are the integer ceiling division / ceiling log2 (checked for every '
        'band_number up to 2^16 (quick) / 2^20 (thorough) and on the enumerated scope)',
        'dtype model: result dtype = max(data, band) for real floating dtypes, jnp.zeros default = float64 iff x64, '
        'dynamic_update_slice requires equal dtypes (compared with JAX on every apply case)',
        'translator tools/translate/toeplitz.py (Python ast, fail closed) and this correspondence harness',
    ]

    def __init__(self, tier, seed):
        super().__init__(tier, seed)
        self._cache: dict[str, dict] = {}
        self._shape_err: set[str] = set()  # cases on which the model reports a shape error inside a kernel
        self._all: list[dict] = []

    # ---------------------------------------------------------------------------------------------
    def translate(self):
        import toeplitz as tr

        tr.Tie = Tie
        text = tr.translate(lib.REPO)
        (self.gen_dir / 'ToeplitzArith.v').write_text(text)
        self.stats['generated_sha1'] = __import__('hashlib').sha1(text.encode()).hexdigest()[:12]

    def gen_files(self):
        return ['ToeplitzArith.v']

    # ---------------------------------------------------------------------------------------------
    def values(self, rng, shape_rows, length, lo, hi, nonzero_first=False):
        rows = []
        for _ in range(shape_rows):
            r = [rng.randint(lo, hi) for _ in range(length)]
            if nonzero_first and r[0] == 0:
                r[0] = 1
            if all(v == 0 for v in r):
                r[-1] = 1
            rows.append(r)
        return rows

    def ffts(self, K, extra):
        lo = 2 * K - 1
        return list(range(lo, lo + extra)) + [None]

    def apply_cases(self, ns, Ks, extra_fft, configs, methods=DOC_METHODS):
        import numpy as np

        out = []
        for (xbatch, bbatch, dtype, x64) in configs:
            for n in ns:
                for K in Ks:
                    rng = random.Random(f'{self.seed}-{n}-{K}-{xbatch}-{bbatch}')
                    xr = self.values(rng, int(np.prod(xbatch, dtype=int)), n, -5, 5)
                    br = self.values(rng, int(np.prod(bbatch, dtype=int)), K, -4, 4)
                    for m in methods:
                        for f in self.ffts(K, extra_fft) if m == 'overlap_save' else [None]:
                            out.append(
                                dict(kind='apply', method=m, fft=f, n=n, K=K, xbatch=list(xbatch), bbatch=list(bbatch),
                                     dtype=dtype, x64=x64, x=xr, band=br)
                            )
        return out

    def cases(self):
        quick = self.tier == 'quick'
        cases: list[dict] = []
        base = ((), (), 'f32', False)
        batch_shapes = [((), ()), ((2,), (2,)), ((2, 3), (2, 1))]
        configs = [(xb, bb, d, x64) for (xb, bb) in batch_shapes for d in ('f32', 'f64') for x64 in (False, True)]
        others = [c for c in configs if c != base]
        if quick:
            # complete grid in the base configuration; the other 11 configurations on a covering sub-grid
            cases += self.apply_cases(range(1, 9), range(1, 6), 6, [base])
            cases += self.apply_cases([1, 3, 8], range(1, 6), 6, others)
            mat_n, mat_K = range(1, 7), range(1, 6)
        else:
            cases += self.apply_cases(range(1, 25), range(1, 10), 10, [base])
            cases += self.apply_cases([1, 2, 3, 7, 12, 24], [1, 2, 3, 5, 9], 10, others)
            # larger FFT sizes, including ones far above the default
            for n, K in [(24, 9), (17, 4), (40, 12), (33, 1)]:
                rng = random.Random(f'{self.seed}-big-{n}-{K}')
                xr = self.values(rng, 1, n, -5, 5)
                br = self.values(rng, 1, K, -4, 4)
                for f in sorted({2 * K - 1, 2 * K, 31, 32, 33, 47, 64, 100} | set(range(2 * K + 9, 65, 7))):
                    if f >= 2 * K - 1:
                        cases.append(dict(kind='apply', method='overlap_save', fft=f, n=n, K=K, xbatch=[], bbatch=[],
                                          dtype='f64', x64=True, x=xr, band=br))
            mat_n, mat_K = range(1, 10), range(1, 8)
        # more broadcast patterns (band values broadcast TO the input batch shape)
        for xb, bb in [((2,), ()), ((3,), (1,)), ((2, 2), (2,)), ((1, 2), (2, 1, 2))]:
            cases += self.apply_cases([3], [2, 4], 2, [(xb, bb, 'f32', False), (xb, bb, 'f64', True)])
        # band values wider / narrower than the data (dtype clause outside / inside its guard)
        for d, bd in (('f32', 'f64'), ('f64', 'f32')):
            for x64 in (False, True):
                for c in self.apply_cases([4], [2], 1, [((), (), d, x64)]):
                    c['bdtype'] = bd
                    cases.append(c)
        # as_matrix
        for (xb, bb) in batch_shapes + [((2,), ()), ((2, 2), (2,))]:
            for n in mat_n:
                for K in mat_K:
                    if (xb, bb) != ((), ()) and (n > 4 or K > 4):
                        continue
                    rng = random.Random(f'{self.seed}-m-{n}-{K}-{xb}-{bb}')
                    import numpy as np

                    br = self.values(rng, int(np.prod(bb, dtype=int)), K, -9, 9)
                    cases.append(dict(kind='matrix', n=n, K=K, xbatch=list(xb), bbatch=list(bb), dtype='f32', x64=False, band=br))
        # constructor outcomes: legal and illegal methods / FFT sizes / batched band values (malformed stream)
        for m in [None, 'dense', 'direct', 'fft', 'overlap_save', 'overlap_add', 'overlap_', 'fourier', '', 'Dense']:
            for K in (1, 2, 3):
                for bb in ((), (2,), (2, 1)):
                    for f in [None, 0, 1, 2 * K - 2, 2 * K - 1, 2 * K, 4 * K - 2, 4 * K - 1, 4 * K, 8 * K]:
                        cases.append(dict(kind='ctor', method=m, fft=f, n=4, K=K, xbatch=list(bb[:1]) + ([3] if len(bb) == 2 else []),
                                          bbatch=list(bb), dtype='f32', x64=False, band=[[1] * K] * (2 if bb else 1)))
        # band values that do not broadcast against the input
        for xb, bb in [((2,), (3,)), ((2, 3), (2,))]:
            cases += self.apply_cases([3], [2], 1, [(xb, bb, 'f32', False)], methods=('dense', 'overlap_save'))
        # default FFT size: float formula vs the integer function of the model
        bs = set(range(1, 70 if quick else 300))
        for e in range(6, 21):
            bs |= {2**e - 1, 2**e, 2**e + 1}
        for b in sorted(bs):
            cases.append(dict(kind='default', b=b, x64=False))
        cases += self.spec_cases(quick)
        self.exhaustive = False
        self._all = cases
        return cases

    def spec_cases(self, quick):
        rng = random.Random(f'{self.seed}-spec')
        out = []
        for L in list(range(1, 13)) + ([16, 31] if quick else [16, 17, 31, 32, 45, 64]):
            for d, x64 in (('f32', False), ('f64', True)):
                la, lb = rng.randint(1, L + 2), rng.randint(1, L + 2)
                out.append(dict(kind='spec_fft', L=L, a=[rng.randint(-5, 5) for _ in range(la)],
                                b=[rng.randint(-5, 5) for _ in range(lb)], dtype=d, x64=x64))
        for la in range(1, 7):
            for lv in range(1, 7):
                out.append(dict(kind='spec_conv', a=[rng.randint(-5, 5) for _ in range(la)],
                                v=[rng.randint(-5, 5) for _ in range(lv)], dtype='f32', x64=False))
        a = [10, 11, 12, 13, 14]
        for size in (1, 3, 5):
            for start in range(-8, 9):
                out.append(dict(kind='spec_dslice', a=a, start=start, size=size, dtype='f32', x64=False))
                out.append(dict(kind='spec_dupdate', a=a, u=list(range(1, size + 1)), start=start, dtype='f32', x64=False))
        for idx in ([], [0], [4], [5], [-1], [-5], [-6], [7, 2], [1, 9, -2], [-7, 3]):
            out.append(dict(kind='spec_scatter', a=a, idx=idx, v=7, dtype='f32', x64=False))
        return out

    def rule(self):
        return (
            'apply: every (n, K, method, fft_size) with n<=8, K<=5 (thorough: n<=24, K<=9), fft_size in [2K-1, 2K+4] '
            '(thorough: 2K+8) or default, 4 methods, in the base configuration (unbatched, float32, x64 off), and a '
            'covering sub-grid (n in {1,3,8}; thorough {1,2,3,7,12,24} x K in {1,2,3,5,9}) in each of the other 11 configurations of batch shapes '
            '{(K,)->(n,), (2,K)->(2,n), (2,1,K)->(2,3,n)} x dtype {f32,f64} x x64 {off,on}; further broadcast patterns, '
            'mixed dtypes, non-broadcastable shapes; matrix: as_matrix for n<=6,K<=5 and batched shapes; ctor: 10 method '
            'names x K<=3 x 3 band batch shapes x 10 fft sizes; default: band_number 1..69 and 2^e-1,2^e,2^e+1 up to 2^20; '
            'spec_*: JAX primitives against their Gallina specification. The parameter grids are complete; band values '
            'and inputs are one seeded integer draw per (n, K, batch shape). Non-trivial: n>1 or K>1 (apply/matrix), '
            'every ctor/default/spec case.'
        )

    def nontrivial(self, case, obs):
        if case['kind'] in ('apply', 'matrix'):
            return case['n'] > 1 or case['K'] > 1
        return True

    def distribution(self, cases):
        d: dict = {}
        for c in cases:
            k = c['kind']
            if k == 'apply':
                k = f'apply/{c["method"]}/{"x64" if c["x64"] else "x32"}/{c["dtype"]}/batch{len(c["bbatch"])}'
            d[k] = d.get(k, 0) + 1
        return d

    # ---------------------------------------------------------------------------------------------
    def prefetch(self, cases):
        todo = [c for c in cases if lib.case_id(c) not in self._cache]
        for c, r in zip(todo, run_workers(todo)):
            self._cache[lib.case_id(c)] = r

    def run_impl(self, case):
        cid = lib.case_id(case)
        if cid not in self._cache:
            self.prefetch(self._all if any(c is case for c in self._all) else [case])
        obs = self._cache[cid]
        if 'harness_error' in obs:
            raise RuntimeError(obs['harness_error'] + '\n' + obs.get('tb', ''))
        return obs

    def search_cases(self):
        other = type(self)('thorough', self.seed) if self.tier == 'quick' else None
        if other is None:
            return
        cases = other.cases()
        # cheapest first, fetched in parallel chunks so that the search can stop early
        order = {'ctor': 0, 'default': 1, 'matrix': 2, 'apply': 3}
        cases.sort(key=lambda c: (order.get(c['kind'], 4), c.get('n', 0), c.get('K', 0)))
        for i in range(0, len(cases), 400):
            chunk = cases[i : i + 400]
            self.prefetch(chunk)
            yield from chunk

    # ---------------------------------------------------------------------------------------------
    def model_term(self, case):
        k = case['kind']
        if k in ('apply', 'ctor'):
            m = case.get('method')
            ms = cstr(m if m is not None else 'overlap_save')
            fft = copt(case.get('fft'), cz)
            if k == 'ctor':
                import numpy as np

                bsize = int(np.prod(case['bbatch'], dtype=int)) * case['K']
                return f'obs_ctor {copt(m, cstr)} {fft} {cz(bsize)} {cz(case["K"])}'
            mv = (
                f'obs_mv {ms} {fft} {clist(case["xbatch"], cz)} {coq_rows(case["x"])} '
                f'{clist(case["bbatch"], cz)} {coq_rows(case["band"])}'
            )
            d = f'obs_dt {cbool(case["x64"])} {ms} {COQ_DT[case["dtype"]]} {COQ_DT[case.get("bdtype", case["dtype"])]}'
            return f'({mv}, {d})'
        if k == 'matrix':
            return f'zobs_matrix {clist(case["xbatch"], cz)} {cz(case["n"])} {clist(case["bbatch"], cz)} {coq_rows(case["band"])}'
        if k == 'default':
            return f'default_fft_size {cz(case["b"])}'
        if k == 'spec_fft':
            L = cz(case['L'])
            return (f'zarr_to_list (circ_conv Z 0 Z.add Z.mul {L} (resize Z 0 {L} (L2 {clist(case["a"], cz)})) '
                    f'(resize Z 0 {L} (L2 {clist(case["b"], cz)})))')
        if k == 'spec_conv':
            return f'zarr_to_list (conv_valid Z 0 Z.add Z.mul (L2 {clist(case["a"], cz)}) (L2 {clist(case["v"], cz)}))'
        if k == 'spec_dslice':
            return f'zarr_to_list (dyn_slice Z (L2 {clist(case["a"], cz)}) {cz(case["start"])} {cz(case["size"])})'
        if k == 'spec_dupdate':
            return f'zarr_to_list (dyn_update Z (L2 {clist(case["a"], cz)}) (L2 {clist(case["u"], cz)}) {cz(case["start"])})'
        if k == 'spec_scatter':
            idx = clist(case['idx'], cz)
            return (f'zarr_to_list (scatter_set Z (L2 {clist(case["a"], cz)}) (fun t => nth (Z.to_nat t) {idx} 0) '
                    f'{cz(len(case["idx"]))} {cz(case["v"])})')
        return None

    @staticmethod
    def _opt(v):
        c, a = lib.coqparse.ctor(v)
        if c == 'Some':
            return a[0]
        return None

    def decode(self, case, v):
        k = case['kind']
        if k == 'default':
            return {'outcome': 'ok', 'value': v}
        if k.startswith('spec_'):
            return {'outcome': 'ok', 'y': v}
        if k == 'ctor':
            c, a = lib.coqparse.ctor(v)
            if c == 'Err':
                return {'outcome': 'ctor:' + lib.coqparse.ctor(a[0])[0]}
            return {'outcome': 'ok', 'stored_fft': self._opt(a[0])}
        if k == 'matrix':
            c, a = lib.coqparse.ctor(v)
            if c != 'ObsOk':
                return {'outcome': ('ctor:' if c == 'ObsCtorErr' else 'apply:') + lib.coqparse.ctor(a[0])[0]}
            size, M = a[0]
            return {'outcome': 'ok', 'shape': [size, size], 'M': M}
        mv, d = v
        c, a = lib.coqparse.ctor(mv)
        if c == 'ObsCtorErr':
            return {'outcome': 'ctor:' + lib.coqparse.ctor(a[0])[0]}
        if c == 'ObsApplyErr':
            return {'outcome': 'apply:' + lib.coqparse.ctor(a[0])[0]}
        dc, da = lib.coqparse.ctor(d)
        if dc == 'Err':
            return {'outcome': 'apply:' + lib.coqparse.ctor(da[0])[0]}
        stored, out, rows = a[0]
        ys = []
        for r in rows:
            rv = self._opt(r)
            if rv is None and r is None:
                # a JAX primitive of the kernel rejects its shapes (negative pad width, window larger than the
                # operand, ...): the model says that the application raises, not which exception type
                self._shape_err.add(lib.case_id(case))
                return {'outcome': 'apply:shape-error'}
            ys.append(rv)
        dname = {'F32': 'float32', 'F64': 'float64'}[lib.coqparse.ctor(da[0])[0]]
        return {'outcome': 'ok', 'stored_fft': self._opt(stored), 'shape': list(out) + [case['n']], 'y': ys, 'dtype': dname}

    def comparable(self, case, obs):
        if not isinstance(obs, dict):
            return obs
        k = case['kind']
        if obs.get('outcome') != 'ok':
            if lib.case_id(case) in self._shape_err and obs.get('outcome') in ('apply:TypeError', 'apply:ValueError'):
                return {'outcome': 'apply:shape-error'}
            return {'outcome': obs.get('outcome')}
        if k == 'default':
            return {'outcome': 'ok', 'value': obs['value']}
        if k.startswith('spec_'):
            return {'outcome': 'ok', 'y': obs['y']}
        if k == 'ctor':
            return {'outcome': 'ok', 'stored_fft': obs['stored_fft']}
        if k == 'matrix':
            return {'outcome': 'ok', 'shape': obs['shape'], 'M': obs['M']}
        return {kk: obs[kk] for kk in ('outcome', 'stored_fft', 'shape', 'y', 'dtype')}

    # ---------------------------------------------------------------------------------------------
    def oracle(self, case, obs):
        import numpy as np

        k = case['kind']
        if k == 'default':
            b = case['b']
            want = 2 ** (1 + (b - 1).bit_length())
            if obs['value'] != want or obs['value'] < b:
                return f'_get_default_fft_size({b}) = {obs["value"]}, expected the power of two {want} >= {b}'
            return None
        if k.startswith('spec_'):
            return self.spec_oracle(case, obs)
        ok = legal(case)
        if k == 'ctor':
            if ok and obs['outcome'] != 'ok':
                return (f'admissible constructor call rejected ({obs["outcome"]}: {obs.get("msg")}): method={case["method"]} '
                        f'fft_size={case["fft"]} band_values shape={case["bbatch"] + [case["K"]]} (2K-1={2 * case["K"] - 1})')
            if not ok and obs['outcome'] != 'ctor:ValueError':
                return f'illegal constructor call (method={case["method"]}, fft_size={case["fft"]}, K={case["K"]}) gave {obs["outcome"]}'
            if ok and method_of(case) == 'overlap_save':
                f = obs['stored_fft']
                if f is None or f < 2 * case['K'] - 1 or (case['fft'] is not None and f != case['fft']):
                    return f'stored fft_size {f} for requested {case["fft"]}, K={case["K"]}'
            return None
        try:
            out, xi, bi = bcast_rows(case['xbatch'], case['bbatch'])
        except ValueError:
            if obs['outcome'] == 'ok':
                return 'band values that do not broadcast against the input were accepted'
            return None
        if out != list(case['xbatch']):
            return None  # band batch larger than the input batch: outside the property's domain
        if not ok:
            return None if obs['outcome'] == 'ctor:ValueError' else f'illegal call gave {obs["outcome"]}'
        if obs['outcome'] != 'ok':
            return (f'{case.get("method")} (fft_size={case.get("fft")}) on n={case["n"]}, K={case["K"]}, dtype={case["dtype"]}, '
                    f'x64={case["x64"]} raised {obs["outcome"]}: {obs.get("msg", "")[:160]}')
        n = case['n']
        Ts = [ref_T(n, case['band'][b]) for b in bi]
        if k == 'matrix':
            B = len(Ts)
            want = np.zeros((B * n, B * n), dtype=np.int64)
            for r, Tr in enumerate(Ts):
                want[r * n : (r + 1) * n, r * n : (r + 1) * n] = Tr
            got = np.array(obs['M'])
            if got.shape != want.shape or not np.array_equal(got, want):
                return f'as_matrix() differs from the block-diagonal banded matrix: got {got.tolist()} expected {want.tolist()}'
            if not np.array_equal(got, got.T):
                return 'as_matrix() is not symmetric'
            if obs['err'] != 0:
                return f'as_matrix() has non-integer entries (err {obs["err"]})'
            return None
        want = [(Ts[r] @ np.array(case['x'][xi[r]], dtype=np.int64)).tolist() for r in range(len(Ts))]
        if obs['y'] != want:
            r = next(i for i, (a, b) in enumerate(zip(obs['y'], want)) if a != b) if len(obs['y']) == len(want) else -1
            return (f'{case["method"]} (fft_size={case["fft"]}, stored {obs["stored_fft"]}) n={n} K={case["K"]} row {r}: '
                    f'got {obs["y"][r] if r >= 0 else obs["y"]} expected {want[r] if r >= 0 else want}')
        tol = TOL['f32' if 'float32' in (obs['dtype'], obs['in_dtype'], obs['band_dtype']) else 'f64']
        if case['method'] in FFT_METHODS and obs['err'] >= tol:
            return f"rounding error {obs['err']}e-12 of the FFT path exceeds {tol}e-12"
        if case['method'] not in FFT_METHODS and obs['err'] != 0:
            return f'{case["method"]} returned non-integers on integer data (err {obs["err"]})'
        if obs['shape'] != list(case['xbatch']) + [n] or obs['shape'] != obs['in_shape']:
            return f'output shape {obs["shape"]} differs from the input shape {obs["in_shape"]}'
        order = {'float32': 0, 'float64': 1}
        if order[obs['band_dtype']] <= order[obs['in_dtype']] and obs['dtype'] != obs['in_dtype']:
            return f'output dtype {obs["dtype"]} differs from the input dtype {obs["in_dtype"]}'
        return None

    def spec_oracle(self, case, obs):
        import numpy as np

        k = case['kind']
        if k == 'spec_fft':
            L = case['L']
            a = (case['a'] + [0] * L)[:L]
            b = (case['b'] + [0] * L)[:L]
            want = [sum(a[s] * b[(t - s) % L] for s in range(L)) for t in range(L)]
            if obs['err'] >= TOL[case['dtype']]:
                return f'FFT rounding error {obs["err"]}'
        elif k == 'spec_conv':
            want = np.convolve(np.array(case['a']), np.array(case['v']), mode='valid').tolist()
        elif k == 'spec_dslice':
            a, size = case['a'], case['size']
            s = case['start'] + (len(a) if case['start'] < 0 else 0)
            s = max(0, min(len(a) - size, s))
            want = a[s : s + size]
        elif k == 'spec_dupdate':
            a, u = list(case['a']), case['u']
            s = case['start'] + (len(a) if case['start'] < 0 else 0)
            s = max(0, min(len(a) - len(u), s))
            a[s : s + len(u)] = u
            want = a
        elif k == 'spec_scatter':
            a = list(case['a'])
            for i in case['idx']:
                j = i + len(a) if i < 0 else i
                if 0 <= j < len(a):
                    a[j] = case['v']
            want = a
        else:
            return None
        if obs['y'] != want:
            return f'JAX primitive differs from its documented meaning: got {obs["y"]} expected {want}'
        return None

    def finding_key(self, case, obs):
        if not isinstance(obs, dict):
            return None
        if case['kind'] == 'apply' and case.get('method') == 'overlap_save' and obs.get('outcome') == 'apply:TypeError':
            return 'overlap-save-dtype-mismatch'
        if case['kind'] in ('ctor', 'apply', 'matrix') and obs.get('outcome') == 'ctor:ValueError' and legal(case) and case['bbatch']:
            return 'ctor-batched-band-values-fft-size'
        return None

    def shrink(self, case, failing):
        return case

    # ---------------------------------------------------------------------------------------------
    def extra(self):
        """np.ceil(np.log2(b)) against the integer ceiling log2 for every b up to 2^16 / 2^20 (testing)."""
        import numpy as np

        top = 2**16 if self.tier == 'quick' else 2**20
        b = np.arange(1, top + 1)
        got = (2 ** (1 + np.ceil(np.log2(b)))).astype(np.int64)
        # integer ceiling log2: bit_length of b-1
        e = np.zeros_like(b)
        v = b - 1
        while np.any(v > 0):
            e += (v > 0).astype(e.dtype)
            v = v >> 1
        want = 2 ** (1 + e)
        bad = np.nonzero(got != want)[0]
        fails = []
        if bad.size:
            bb = int(b[bad[0]])
            fails.append({'case': {'kind': 'default', 'b': bb, 'x64': False}, 'observation': int(got[bad[0]]),
                          'oracle': f'float formula gives {int(got[bad[0]])} for band_number {bb}, integer function {int(want[bad[0]])}',
                          'key': None})
        return {'default_fft_size_float_vs_integer_checked_up_to': top, 'failures': fails}


if __name__ == '__main__':
    if len(sys.argv) == 4 and sys.argv[1] == '--worker':
        worker_main(sys.argv[2], sys.argv[3])
