"""C10 - block operators act as the block matrices of their blocks.

Real code: furax._base.blocks (BlockRowOperator, BlockDiagonalOperator, BlockColumnOperator: constructors,
mv, in/out structures, .T, .I, as_matrix, reduce, and the four block product rules through
`(A @ B).reduce()`), on containers {bare operator, [A], (A,), {'a': A}, [A, B], (A, B, C), {'b': A, 'a': B}
(unsorted insertion order), [[A, B], C], {'x': [A, B], 'y': (C,)}} of blocks of every kind (dense
square/wide/tall, a block that is itself a block row (pytree input) or a block column (pytree output),
identity, scalar, diagonal, QU rotation, HWP), with matching and mismatching shared structures.  The shared
side (row: output, column: input) also ranges over ~30 PYTREE structures (VARIANTS: tuple / list / dict / nested /
Stokes / singleton containers over the same leaves, other dict keys, other leaf dtype / shape / count), carried by
identity / scalar operators on them and by block-diagonal / block-row / block-column blocks: all ordered pairs of
variants with equally many leaves must be refused, equal structures in distinct objects (and dicts in another
insertion order) accepted.
Every WRAPPER class is a block too (WRAPPERS): the plain lazy TransposeOperator (A.T of a user-defined operator, of a
square BroadcastDiagonalOperator, of a square IndexOperator, the explicit TransposeOperator(A) of a dense block),
ReshapeTransposeOperator, QURotationTransposeOperator, DiagonalInverseOperator, the lazy InverseOperator (of SPD
operators, so that its iterative action is exact), and compositions / sums / block operators over them; each at a random
position of the container shapes.  Every operator is taken through the SEQUENCES .T, .T.T and - block-diagonal with square
blocks - .I, .T.I, .I.T, .I.I, .T.I.T: class, container, structures, block-by-block skeleton (the same steps on every
block alone) and the DENSE MATRIX of the result (evaluated from its structure, by basis vectors where its action is
exact, and by its own as_matrix()) against NumPy transposes / numpy.linalg.inv of the blocks' matrices, stacked.
MISMATCH cases observe CONSTRUCTION and LATER USE separately (observe / later_use): the clause is "refused AT CONSTRUCTION", so
an operator that is built and only complains later (out_structure(), mv, as_matrix, reduce, .T are each tried and recorded)
is an oracle failure carrying the concrete case - never a harness crash.
DTYPE stream (kind 'dtype', implementation-side only - the model has no dtype arithmetic): blocks whose matrix / parameter
dtype differs from the dtype of their data (float16 / float32 / complex64, and under jax.enable_x64 float64 / complex128:
every ordered pair (data, matrix), e.g. real data -> complex output, float32 -> float64, complex64 data x float64 matrix ->
complex128), mixed per block, as dense / user-defined (generic as_matrix) / composition / diagonal / scalar / identity /
nested block-row, -column, -diagonal blocks (pytree inputs / outputs, also as the SHARED side), in all nine containers of all
three block operators: structures with dtypes, as_matrix() VALUES AND DTYPE, the matrix of mv on basis vectors, mv on a
Gaussian-integer input, .T (against the blocks' own transposes applied alone; refusal when those do not share a structure) and
reduce(), against the NumPy hstack / vstack / block-diagonal (complex128) of the matrices the blocks were built from and
numpy.result_type of their dtypes.  Entries have a fractional part that exists only in the block's own precision and non-zero
imaginary parts: a detour through a narrower dtype anywhere changes every entry.
Model: Model/Algebra.v (mk_block, structs, transpose, reduce, block rules), Model/Denote.v (denote of
Block terms), Model/BlockMat.v (binv, steps, hstack/vstack/block_diag of the blocks' matrices), evaluated by
vm_compute on the encoded blocks (harness/algebra.py); the matrices of the sequence results come from Model/Inverse.v
(imat: a lazy inverse acts as the certified Gauss-Jordan inverse of its operand's matrix).
Oracle: NumPy hstack / vstack / scipy.linalg.block_diag of the blocks' dense matrices (assembled from
the parts, never from the block operator itself); reduced versus unreduced products.
"""
from __future__ import annotations

import random
from fractions import Fraction

import numpy as np

import alg_cases as G
import algebra as A
import coqparse
from lib import PropertyCheck, clist

KIND = {'row': ('BlockRowOperator', 'BRow'), 'bdiagop': ('BlockDiagonalOperator', 'BDiag'), 'col': ('BlockColumnOperator', 'BCol')}
TKIND = {'row': 'BlockColumnOperator', 'bdiagop': 'BlockDiagonalOperator', 'col': 'BlockRowOperator'}

# container shapes: name -> (arity, builder of the JSON container from block names)
SHAPES = {
    'bare': (1, lambda a: a[0]),
    'list1': (1, lambda a: [a[0]]),
    'tuple1': (1, lambda a: {'tuple': [a[0]]}),
    'dict1': (1, lambda a: {'dict': {'a': a[0]}}),
    'list2': (2, lambda a: [a[0], a[1]]),
    'tuple3': (3, lambda a: {'tuple': [a[0], a[1], a[2]]}),
    'dict2u': (2, lambda a: {'dict': {'b': a[0], 'a': a[1]}}),  # insertion order b, a: leaf order a, b
    'nested': (3, lambda a: [[a[0], a[1]], a[2]]),
    'dictnest': (3, lambda a: {'dict': {'x': [a[0], a[1]], 'y': {'tuple': [a[2]]}}}),
}

# extra operands (the shared alphabet already has BR, BC, BD, ...)
LET = dict(G.LET)
LET.update({
    'A22s': {'k': 'dense', 'm': [[0, 1], [1, 0]]},
    'BRw': {'k': 'row', 'blocks': ['A23', 'A22']},            # pytree-in block with unequal leaves
    'BCt': {'k': 'col', 'blocks': {'tuple': ['A32', 'A22']}},  # pytree-out block with unequal leaves
    # more container shapes for the products
    'BCn': {'k': 'col', 'blocks': [['A22', 'B22'], 'S22']},
    'BRx': {'k': 'row', 'blocks': {'dict': {'x': ['A22', 'B22'], 'y': {'tuple': ['S22']}}}},
    'BDx': {'k': 'bdiagop', 'blocks': {'dict': {'x': ['B22', 'S22'], 'y': {'tuple': ['A22']}}}},
    'BCx': {'k': 'col', 'blocks': {'dict': {'x': ['S22', 'A22'], 'y': {'tuple': ['B22']}}}},
    'BRb': {'k': 'row', 'blocks': 'A22'},       # bare containers
    'BDb': {'k': 'bdiagop', 'blocks': 'B22'},
    'BCb': {'k': 'col', 'blocks': 'S22'},
    'BRt3': {'k': 'row', 'blocks': {'tuple': ['A22', 'B22', 'S22']}},
    'BDt3': {'k': 'bdiagop', 'blocks': {'tuple': ['B22', 'A22', 'I2']}},
    'BCt3': {'k': 'col', 'blocks': {'tuple': ['S22', 'H2', 'A22']}},
    'BRdu': {'k': 'row', 'blocks': {'dict': {'b': 'A22', 'a': 'B22'}}},
    'BCdu': {'k': 'col', 'blocks': {'dict': {'b': 'S22', 'a': 'A22'}}},
    'BDw2': {'k': 'bdiagop', 'blocks': ['A32', 'A23']},   # [2],[3] -> [3],[2]
    'BRw2': {'k': 'row', 'blocks': ['A23', 'A22']},       # in [3],[2]
    'BCw2': {'k': 'col', 'blocks': ['A32', 'A22']},       # out [3],[2]
    'BD1t': {'k': 'bdiagop', 'blocks': {'tuple': ['A22']}},
    'BC1d': {'k': 'col', 'blocks': {'dict': {'a': 'A22'}}},
    'BR1d': {'k': 'row', 'blocks': {'dict': {'a': 'B22'}}},
    # arity ONE with EQUAL containers on both sides of a product (the rules fire: the result must keep the container)
    'BR1l': {'k': 'row', 'blocks': ['A22']}, 'BD1l': {'k': 'bdiagop', 'blocks': ['B22']}, 'BC1l': {'k': 'col', 'blocks': ['S22']},
    'BR1t': {'k': 'row', 'blocks': {'tuple': ['S22']}}, 'BC1t': {'k': 'col', 'blocks': {'tuple': ['B22']}},
    'BD1d': {'k': 'bdiagop', 'blocks': {'dict': {'a': 'S22'}}},
    'BDqw': {'k': 'bdiagop', 'blocks': ['Q1', 'W']},
    'BRqs': {'k': 'row', 'blocks': ['Q2', 'Hs']},
    'BCqs': {'k': 'col', 'blocks': ['Q3', 'W']},
    # ---- every WRAPPER class as a block (and what it wraps) ----
    # user-defined operators relying on every default of AbstractLinearOperator (lazy TransposeOperator, lazy
    # InverseOperator, generic as_matrix): square, neither symmetric nor orthogonal
    'U22': {'k': 'user', 'm': [[1, 1], [0, 1]]},
    'U22b': {'k': 'user', 'm': [[2, 1], [0, 1]]},
    'U33': {'k': 'user', 'm': [[1, 0, 0], [1, 1, 0], [1, 1, 1]]},
    'Us22': {'k': 'user', 'm': [[2, 1], [1, 2]]},           # symmetric positive definite (CG-invertible)
    'U23': {'k': 'user', 'm': [[1, 2, 0], [0, 1, 1]]},      # [3] -> [2]
    # library classes with the default lazy transpose: square broadcast-diagonal, square index selection (permutation)
    'Bd2': {'k': 'bdiag', 'v': [2, 4], 's': [2]},
    'X3p': {'k': 'index', 'idx': [{'arr': [2, 0, 1]}], 's': [3], 'unique': True},
    # plain lazy TransposeOperator: A.T of the classes above and the explicit TransposeOperator(A) of a dense block
    'U22T': {'k': 'expr', 'e': {'T': 'U22'}},
    'U22bT': {'k': 'expr', 'e': {'T': 'U22b'}},
    'U33T': {'k': 'expr', 'e': {'T': 'U33'}},
    'U23T': {'k': 'expr', 'e': {'T': 'U23'}},                # [2] -> [3]
    'Bd2T': {'k': 'expr', 'e': {'T': 'Bd2'}},
    'X3pT': {'k': 'expr', 'e': {'T': 'X3p'}},
    'LtA22': {'k': 'lazyT', 'of': 'A22'},
    'LtA23': {'k': 'lazyT', 'of': 'A23'},                    # [2] -> [3]
    # ReshapeTransposeOperator of a square (no-op) ravel; QURotationTransposeOperator: Q1T, Q2T of the shared alphabet
    'R6T': {'k': 'expr', 'e': {'T': 'R6'}},
    # DiagonalInverseOperator (D2I of the shared alphabet), lazy InverseOperator of SPD operators (S22I shared)
    'D3I': {'k': 'expr', 'e': {'I': 'D3'}},
    'Us22I': {'k': 'expr', 'e': {'I': 'Us22'}},
    # compositions and sums as blocks (CAB, SAB, NS shared), also over lazy wrappers
    'CUT': {'k': 'expr', 'e': {'mm': ['U22T', 'A22']}},
    'SUT': {'k': 'expr', 'e': {'add': ['U22bT', 'B22']}},
    'CUI': {'k': 'expr', 'e': {'mm': ['U22', 'S22I']}},
    'C23': {'k': 'expr', 'e': {'mm': ['U22T', 'A23']}},      # [3] -> [2]
    # a block-diagonal block over lazy wrappers (inverse() recurses into it); block row / column over lazy wrappers
    # (operands of the product rules: e.g. BRu @ BDu, BDu @ BCu, BRu @ BCu)
    'BDu': {'k': 'bdiagop', 'blocks': {'tuple': ['U22T', 'D2I']}},
    'BRu': {'k': 'row', 'blocks': {'tuple': ['LtA22', 'S22I']}},
    'BCu': {'k': 'col', 'blocks': {'tuple': ['U22bT', 'D2']}},
})
# the wrapper / composite blocks, by the shared structure they can be given
WRAP_SQ2 = ['U22T', 'U22bT', 'Bd2T', 'LtA22', 'D2I', 'S22I', 'Us22I', 'CUT', 'SUT', 'CUI', 'CAB', 'SAB', 'NS', 'U22', 'U22b', 'Us22', 'Bd2']
WRAP_SQ3 = ['U33T', 'X3pT', 'D3I', 'U33', 'X3p']
WRAP_SQS = ['Q1T', 'Q2T']
WRAP_SQO = ['R6T', 'BDu']                       # other structures (block-diagonal only)
WRAP_23 = ['U23', 'C23', 'X3u']                 # [3] -> [2]
WRAP_32 = ['U23T', 'LtA23', 'X3uT', 'A23T']     # [2] -> [3]
WRAPPERS = WRAP_SQ2 + WRAP_SQ3 + WRAP_SQS + WRAP_SQO + WRAP_23 + WRAP_32

# ---- pytree-valued SHARED structures (the side a block row / column validates at construction) ----
# Every way two pytree structures can differ, over the same few leaves: container kind with equal leaves
# (tuple / list / dict / Stokes class), dict keys, nesting depth and association, leaf versus singleton
# container, leaf dtype, leaf shape, number of leaves.  name -> algebra.mk_struct description.
_s, _w, _h = [2], [3], {'shape': [2], 'dtype': 'float16'}
VARIANTS = {
    # one leaf
    's': _s, 't1': {'tuple': [_s]}, 'l1': {'list': [_s]}, 'da': {'dict': {'a': _s}}, 'db': {'dict': {'b': _s}},
    't11': {'tuple': [{'tuple': [_s]}]}, 'kI': {'stokes': 'I', 'shape': [2]},
    'h': _h, 'w': _w, 't1h': {'tuple': [_h]},
    # two leaves
    't2': {'tuple': [_s, _s]}, 'l2': {'list': [_s, _s]}, 'dab': {'dict': {'a': _s, 'b': _s}},
    'dba': {'dict': {'b': _s, 'a': _s}},   # EQUAL to dab (other insertion order): must be accepted together
    'dac': {'dict': {'a': _s, 'c': _s}}, 'kQU': {'stokes': 'QU', 'shape': [2]},
    't1t2': {'tuple': [{'tuple': [_s, _s]}]}, 't2n': {'tuple': [{'tuple': [_s]}, {'tuple': [_s]}]},
    't2l': {'tuple': [_s, {'list': [_s]}]},
    't2h': {'tuple': [_s, _h]}, 't2w': {'tuple': [_s, _w]}, 't2ws': {'tuple': [_w, _s]},
    # three leaves
    't3': {'tuple': [_s, _s, _s]}, 'nl': {'tuple': [{'tuple': [_s, _s]}, _s]}, 'nr': {'tuple': [_s, {'tuple': [_s, _s]}]},
    'ln': {'list': [{'list': [_s, _s]}, _s]}, 'lt': {'list': [{'tuple': [_s, _s]}, _s]},
    'kIQU': {'stokes': 'IQU', 'shape': [2]},
    'dn': {'dict': {'a': {'tuple': [_s, _s]}, 'b': _s}}, 'dn2': {'dict': {'a': _s, 'b': {'tuple': [_s, _s]}}},
}
FAMILY = {  # variants with the same number of leaves (the near misses of one another)
    1: ['s', 't1', 'l1', 'da', 'db', 't11', 'kI', 'h', 'w', 't1h'],
    2: ['t2', 'l2', 'dab', 'dba', 'dac', 'kQU', 't1t2', 't2n', 't2l', 't2h', 't2w', 't2ws'],
    3: ['t3', 'nl', 'nr', 'ln', 'lt', 'kIQU', 'dn', 'dn2'],
}


def _all_f32(desc):
    if isinstance(desc, list) and all(isinstance(i, int) for i in desc):
        return True
    if 'dtype' in desc and 'stokes' not in desc:
        return desc['dtype'] == 'float32'
    if 'stokes' in desc:
        return True
    kids = desc.get('list') or desc.get('tuple') or list(desc['dict'].values())
    return all(_all_f32(k) for k in kids)


def _as_container(desc, leafmap):
    """The structure description as a container of block names (None when it has a Stokes node or a
    leaf without a block in `leafmap`)."""
    if isinstance(desc, list) and all(isinstance(i, int) for i in desc):
        return leafmap.get(tuple(desc))
    if 'list' in desc:
        kids = [_as_container(d, leafmap) for d in desc['list']]
        return None if any(k is None for k in kids) else kids
    if 'tuple' in desc:
        kids = [_as_container(d, leafmap) for d in desc['tuple']]
        return None if any(k is None for k in kids) else {'tuple': kids}
    if 'dict' in desc and 'stokes' not in desc:
        kids = {k: _as_container(d, leafmap) for k, d in desc['dict'].items()}
        return None if any(k is None for k in kids.values()) else {'dict': kids}
    return None


VPREFIX = ('Vi_', 'Vj_', 'Vh_', 'Vd_', 'Vr_', 'Vc_')
VOPS: dict = {}   # variant -> names of the operators built on it
for _v, _d in VARIANTS.items():
    VOPS[_v] = [f'Vi_{_v}', f'Vj_{_v}']
    LET[f'Vi_{_v}'] = {'k': 'ident', 's': _d}       # in = out = the variant
    LET[f'Vj_{_v}'] = {'k': 'ident', 's': _d}       # an equal structure in another object
    if _all_f32(_d):
        LET[f'Vh_{_v}'] = {'k': 'homoth', 'v': 2, 's': _d}
        VOPS[_v].append(f'Vh_{_v}')
    for _tag, _k, _lm in (('Vd', 'bdiagop', {(2,): 'S22', (3,): 'A33'}),   # in = out = the variant
                          ('Vr', 'row', {(2,): 'B22', (3,): 'A23'}),       # in = the variant, out = [2]
                          ('Vc', 'col', {(2,): 'A22', (3,): 'A32'})):      # out = the variant, in = [2]
        _c = _as_container(_d, _lm)
        if _c is not None:
            LET[f'{_tag}_{_v}'] = {'k': _k, 'blocks': _c}
            VOPS[_v].append(f'{_tag}_{_v}')
# operators of the shared alphabet on the Stokes variants and on the bare leaf
VOPS['kQU'] += ['Qq', 'Wq']
VOPS['kIQU'] += ['Q1', 'W', 'Hs']
VOPS['s'] += ['A22', 'H2', 'D2', 'BR', 'BC']
VOPS['w'] += ['A33', 'D3']

# pools of blocks by shared structure
OUT2 = ['A22', 'B22', 'S22', 'A23', 'I2', 'H2', 'BR', 'BRw', 'D2', 'A22s'] + WRAP_SQ2 + WRAP_23
OUT3 = ['A32', 'A33', 'I3', 'Hm3', 'D3'] + WRAP_SQ3 + WRAP_32
OUTS = ['Q1', 'Q2', 'W', 'Hs', 'Is'] + WRAP_SQS
IN2 = ['A22', 'B22', 'S22', 'A32', 'I2', 'H2', 'BC', 'BCt', 'D2'] + WRAP_SQ2 + WRAP_32
IN3 = ['A23', 'A33', 'I3', 'Hm3', 'D3'] + WRAP_SQ3 + WRAP_23
INS = ['Q1', 'Q3', 'W', 'Hs', 'Is'] + WRAP_SQS
SQUARE = (['A22', 'S22', 'I2', 'H2', 'D2', 'Q1', 'W', 'Hs', 'I3', 'Hm3', 'A33', 'BD', 'Is', 'Hh2', 'D3', 'Q2', 'B22']
          + WRAP_SQ2 + WRAP_SQ3 + WRAP_SQS + WRAP_SQO)
ANY = sorted(set(OUT2 + OUT3 + OUTS + IN2 + IN3 + INS + SQUARE))
PLAIN = [n for n in ANY if n not in WRAPPERS]      # section 1 enumerates these; section 6 the wrappers
# blocks whose inverse() is a closed form that the executable model can apply
CLOSED_INV = {'I2', 'I3', 'Is', 'H2', 'Hh2', 'Hm3', 'Hs', 'Q1', 'Q2', 'Q3'}

_env: dict = {}


_user: dict = {}


def user_class():
    """A user-defined operator: a direct subclass of AbstractLinearOperator that defines mv and its structures only
    (its .T is the lazy TransposeOperator, its .I the lazy InverseOperator, its as_matrix the generic one)."""
    if not _user:
        import equinox

        j = A.J()

        class CumulOperator(j['core'].AbstractLinearOperator):
            matrix: j['jax'].Array
            _in: object = equinox.field(static=True)

            def __init__(self, matrix, in_structure):
                self.matrix = matrix
                self._in = in_structure

            def mv(self, x):
                return self.matrix @ x

            def in_structure(self):
                return self._in

            def out_structure(self):      # (declared only to spare the harness thousands of jax.eval_shape traces)
                return j['jax'].ShapeDtypeStruct((self.matrix.shape[0],), self.matrix.dtype)

        _user['cls'] = CumulOperator
    return _user['cls']


def build_env(let: dict) -> dict:
    """algebra.build_env plus the operand kinds of this module: 'user' (user-defined class) and 'lazyT' (explicit
    TransposeOperator(A))."""
    j = A.J()
    env: dict = {}
    for name, d in let.items():
        try:
            if d['k'] == 'user':
                m = np.array(d['m'], dtype=np.float32)
                env[name] = user_class()(j['jnp'].asarray(m), j['jax'].ShapeDtypeStruct((m.shape[1],), j['jnp'].float32))
            elif d['k'] == 'lazyT':
                env[name] = j['core'].TransposeOperator(env[d['of']])
            else:
                env[name] = A.build_operand(d, env)
        except Exception as e:  # reported by the cases that use the operand
            env[name] = A.Unbuildable(name, e)
    return env


def ENV():
    if not _env:
        _env.update(build_env(LET))
    return _env


def is_op(x):
    return isinstance(x, A.J()['core'].AbstractLinearOperator)


def tree_leaves(blocks):
    return A.J()['jax'].tree.leaves(blocks, is_leaf=is_op)


def container_names(c, acc=None):
    acc = [] if acc is None else acc
    if isinstance(c, str):
        acc.append(c)
    elif isinstance(c, list):
        for v in c:
            container_names(v, acc)
    elif 'tuple' in c:
        for v in c['tuple']:
            container_names(v, acc)
    else:
        for v in c['dict'].values():
            container_names(v, acc)
    return acc


def value_repr(y):
    ch = A.tree_children(y)
    if ch is None:
        return ['leaf', [A.frac_json(A.to_frac(float(v))) for v in np.asarray(y, dtype=np.float64).ravel()]]
    (k, arg), kids = ch
    return [k, arg if k in ('stokes', 'dict') else 0, [value_repr(c) for c in kids]]


def tree_key(t, leaf):
    """Container skeleton of a pytree with the dict keys and `leaf(x)` at the leaves."""
    ch = A.tree_children(t)
    if ch is None:
        return ['leaf', leaf(t)]
    (k, arg), kids = ch
    return [k, arg, [tree_key(c, leaf) for c in kids]]


def value_coq(x) -> str:
    ch = A.tree_children(x)
    if ch is None:
        vals = [Fraction(float(v)) for v in np.asarray(x, dtype=np.float64).ravel()]
        return f'(Leaf {clist(vals, A.cqc)})'
    kind, kids = ch
    return f'(Node {A.ckind_coq(kind)} {clist(kids, value_coq)})'


def decode_value(v):
    if v is None:
        return None
    c, a = coqparse.ctor(v)
    if c == 'Some':
        return decode_value(a[0])
    if c == 'Leaf':
        return ['leaf', [A.frac_json(Fraction(p[0], p[1])) for p in a[0]]]
    kind, kids = a
    kc, ka = coqparse.ctor(kind)
    tag = {'KList': ('list', 0), 'KTuple': ('tuple', 0)}.get(kc)
    if tag is None:
        tag = ('dict', list(ka[0])) if kc == 'KDict' else ('stokes', int(ka[0]))
    return [tag[0], tag[1], [decode_value(k) for k in kids]]


def decode_rows(v):
    if v is None:
        return None
    c, a = coqparse.ctor(v)
    if c != 'Some':
        return None
    return [[A.frac_json(Fraction(p[0], p[1])) for p in row] for row in a[0]]


def rand_input(struct, rng):
    j = A.J()
    leaves, treedef = j['jax'].tree.flatten(struct)
    out = []
    for l in leaves:
        size = int(np.prod(l.shape))
        v = np.array([rng.randint(-3, 3) for _ in range(size)], dtype=np.dtype(l.dtype)).reshape(l.shape)
        out.append(j['jnp'].asarray(v))
    return j['jax'].tree.unflatten(treedef, out)


def add_transposed_entries(enc: A.Encoder):
    """Model/Algebra.transpose gives the transpose of an opaque dense operator the key `k xor 1`:
    that entry of the environment is the transposed measured matrix."""
    for key, m in list(enc.table.items()):
        if key % 2 == 0 and (key ^ 1) not in enc.table:
            enc.table[key ^ 1] = [list(r) for r in zip(*m)] if m and m[0] else []


def stacked_reference(kind, leaves):
    import scipy.linalg

    ms = [A.reference_matrix(b) for b in leaves]
    if kind == 'row':
        return np.hstack(ms)
    if kind == 'col':
        return np.vstack(ms)
    return scipy.linalg.block_diag(*ms)


def result_matrix(op) -> np.ndarray:
    """NumPy evaluation of a RESULT operator from its structure: lazy wrappers, compositions, sums and block operators
    are evaluated from the matrices of the objects they hold (transpose -> .T, lazy inverse -> numpy.linalg.inv,
    DiagonalInverse -> reciprocal of the non-zero diagonal); leaf objects are measured on basis vectors."""
    import scipy.linalg

    j = A.J()
    core, blocks = j['core'], j['blocks']
    if isinstance(op, core.CompositionOperator):
        m = None
        for o in op.operands:
            mo = result_matrix(o)
            m = mo if m is None else m @ mo
        return m
    if isinstance(op, core.AdditionOperator):
        return sum(result_matrix(o) for o in op.operand_leaves)
    if isinstance(op, blocks.BlockRowOperator):
        return np.hstack([result_matrix(o) for o in op.block_leaves])
    if isinstance(op, blocks.BlockColumnOperator):
        return np.vstack([result_matrix(o) for o in op.block_leaves])
    if isinstance(op, blocks.BlockDiagonalOperator):
        return scipy.linalg.block_diag(*[result_matrix(o) for o in op.block_leaves])
    if isinstance(op, core.IdentityOperator):
        return np.eye(A.struct_size(op.in_structure()))
    if isinstance(op, core.HomothetyOperator):
        return float(op.value) * np.eye(A.struct_size(op.in_structure()))
    if type(op).__name__ == 'DiagonalInverseOperator':
        d = np.diag(result_matrix(op.operator))
        return np.diag(np.where(d != 0, 1 / np.where(d != 0, d, 1), 0))
    if isinstance(op, core.TransposeOperator):        # plain, Reshape and QURotation (orthogonal) lazy transposes
        return result_matrix(op.operator).T
    if isinstance(op, core.AbstractLazyInverseOperator):
        return np.linalg.inv(result_matrix(op.operator))
    return A.leaf_matrix(op)


def _parts(op):
    j = A.J()
    core, blocks = j['core'], j['blocks']
    if isinstance(op, core.CompositionOperator):
        return list(op.operands)
    if isinstance(op, core.AdditionOperator):
        return list(op.operand_leaves)
    if isinstance(op, blocks.AbstractBlockOperator):
        return list(op.block_leaves)
    if isinstance(op, core._AbstractLazyDualOperator):
        return [op.operator]
    return []


def has_solver(op) -> bool:
    return isinstance(op, A.J()['core'].InverseOperator) or any(has_solver(o) for o in _parts(op))


def _spd(m) -> bool:
    return m.shape[0] == m.shape[1] and np.allclose(m, m.T) and bool(np.all(np.linalg.eigvalsh((m + m.T) / 2) > 1e-6))


def exact_mv(op) -> bool:
    """Is op.mv the linear map of the operator's matrix?  Not when it goes through the iterative solver of a lazy
    InverseOperator on a matrix that is not symmetric positive definite (conjugate gradient), nor through the
    transpose of a solver (jax.linear_transpose of the solve is not supported by the library)."""
    core = A.J()['core']
    if isinstance(op, core.InverseOperator):
        return exact_mv(op.operator) and _spd(result_matrix(op.operator))
    if type(op) is core.TransposeOperator and has_solver(op.operator):
        return False
    return all(exact_mv(o) for o in _parts(op))


def exact_asmat(op) -> bool:
    """Is op.as_matrix() computed without an inexact mv?  (Lazy inverses override as_matrix with
    jnp.linalg.inv(operator.as_matrix()); block operators stack the as_matrix() of their blocks.)"""
    j = A.J()
    core, blocks = j['core'], j['blocks']
    if isinstance(op, blocks.AbstractBlockOperator):
        return all(exact_asmat(o) for o in op.block_leaves)
    if isinstance(op, core.AbstractLazyInverseOperator) and type(op).__name__ != 'DiagonalInverseOperator':
        return exact_asmat(op.operator)
    return exact_mv(op)


def apply_seq(op, seq: str):
    """op.T / op.I applied from left to right: 'TI' is op.T.I."""
    with A.quiet_config():
        for s in seq:
            op = op.T if s == 'T' else op.I
    return op


def numpy_seq(m: np.ndarray, seq: str) -> np.ndarray:
    for s in seq:
        m = m.T if s == 'T' else np.linalg.inv(m)
    return m


STEPS = {'T': 'ST', 'I': 'SI'}
SEQS_SQUARE = ('T', 'I', 'TT', 'TI', 'IT', 'II', 'TIT')   # block-diagonal operators whose blocks are all square
SEQS_OTHER = ('TT',)                                       # the others (.T itself is observed separately)


def _stack(kind, ms):
    import scipy.linalg

    return np.hstack(ms) if kind == 'row' else np.vstack(ms) if kind == 'col' else scipy.linalg.block_diag(*ms)


def _seq_term(q: str) -> str:
    return f'Inverse.observe_i tb (x_steps default_order {clist(list(q), STEPS.get)} e)'


def closed_inverse(case):
    return case['block'] == 'bdiagop' and all(n in CLOSED_INV for n in case['names'])


def strip(o):
    o.pop('_op', None)
    return o


def _exc(e) -> str:
    return f'{type(e).__name__}: {str(e)[:160]}'


def observe(thunk, enc, want_matrix=True):
    """algebra.observe_impl with CONSTRUCTION kept apart from LATER USE: an exception of `thunk` itself is the outcome
    {'err': <class>}; an exception raised afterwards, when the constructed object is asked for its structures / skeleton /
    action, is reported as {'err': 'Late:<class>', 'late_error': ..., '_op': the object} - never as a harness crash (an
    object that validates lazily is a reportable observation, with the case as the failing input)."""
    try:
        op = thunk()
    except Exception as e:
        name = type(e).__name__
        return {'err': name if name in A.ERRS else f'Other:{name}'}
    try:
        return A.observe_impl(lambda: op, enc, want_matrix=want_matrix)
    except Exception as e:
        return {'err': f'Late:{type(e).__name__}', '_op': op,
                'late_error': f'constructed, but its structures / skeleton could not be obtained afterwards: {_exc(e)}'}


def later_use(kind, op, blocks, leaves, xseed):
    """What an object that should have been refused does when it is used: use -> 'raised <error>' / 'returned <what>'."""
    j = A.J()
    tm = j['jax'].tree.map

    def matching_input():
        # an input matching the blocks: row / diagonal - one value per block; column - a value for the first block
        s = leaves[0].in_structure() if kind == 'col' else tm(lambda b: b.in_structure(), blocks, is_leaf=is_op)
        return rand_input(s, random.Random(xseed))

    def shape(y):
        return [[str(np.asarray(l).dtype), list(np.shape(l))] for l in j['jax'].tree.leaves(y)]

    uses = {
        'out_structure()': lambda: G.key(op.out_structure()),
        'in_structure()': lambda: G.key(op.in_structure()),
        'mv(matching input)': lambda: f'a value with leaves {shape(op.mv(matching_input()))}',
        'reduce()': lambda: type(op.reduce()).__name__,
        'as_matrix()': lambda: f'a matrix of shape {list(np.shape(op.as_matrix()))}',
        '.T': lambda: type(op.T).__name__,
    }
    out = {}
    for name, f in uses.items():
        try:
            out[name] = f'returned {f()}'
        except Exception as e:
            out[name] = f'raised {_exc(e)}'
    return out


# =====================================================================================================================
# DTYPE stream (implementation-side only: the Coq model is over exact rationals and has no dtype arithmetic).
# Blocks that CHANGE the dtype of the data - a matrix / parameter wider than the data (real data -> complex output,
# float16 -> float32, and under jax.enable_x64 float32 -> float64, complex64 -> complex128, complex64 data with a
# float64 matrix -> complex128) - or narrower than it, mixed per block, in all three block operators and all nine
# containers.  Values carry a fractional part that exists only in the block's own precision (2^-12 for 32-bit, 2^-30 for
# 64-bit parameters) and non-zero imaginary parts, so that any cast through a narrower dtype changes every entry.
# Reference: the NumPy hstack / vstack / block-diagonal (complex128) of the matrices the blocks were BUILT from, and
# numpy.result_type of the blocks' matrix dtypes.
DT32 = ['float16', 'float32', 'complex64']
DT64 = ['float64', 'complex128']
DT_FRAC = {'float16': 0.0, 'float32': 2.0 ** -12, 'complex64': 2.0 ** -12, 'float64': 2.0 ** -30, 'complex128': 2.0 ** -30}
DT_EPS = {'float16': 2.0 ** -10, 'float32': 2.0 ** -23, 'complex64': 2.0 ** -23, 'float64': 2.0 ** -52, 'complex128': 2.0 ** -52}


def rt(*dts) -> str:
    return str(np.result_type(*[np.dtype(d) for d in dts]))


def dt_values(seed, shape, md) -> np.ndarray:
    """Deterministic complex128 array, exactly representable in dtype md, no zero component."""
    r = random.Random(seed)
    n = int(np.prod(shape))

    def comp():
        return np.array([r.choice([-3, -2, -1, 1, 2, 3]) + DT_FRAC[md] for _ in range(n)])

    v = comp().astype(np.complex128)
    if np.dtype(md).kind == 'c':
        v = v + 1j * comp()
    return v.reshape(shape)


def _leaf_desc(n, dt):
    return ['leaf', str(dt), [int(n)]]


def desc_of(s):
    """Structure (ShapeDtypeStructs or arrays) -> container kinds, dict keys, leaf dtype NAMES and shapes."""
    ch = A.tree_children(s)
    if ch is None:
        return ['leaf', str(np.dtype(s.dtype)), [int(i) for i in s.shape]]
    (k, arg), kids = ch
    return [k, arg if arg is not None else 0, [desc_of(c) for c in kids]]


def cont_desc(c, leafmap):
    """JSON container of block names -> the same container of the blocks' structure descriptions."""
    if isinstance(c, str):
        return leafmap[c]
    if isinstance(c, list):
        return ['list', 0, [cont_desc(v, leafmap) for v in c]]
    if 'tuple' in c:
        return ['tuple', 0, [cont_desc(v, leafmap) for v in c['tuple']]]
    keys = sorted(c['dict'])
    return ['dict', keys, [cont_desc(c['dict'][k], leafmap) for k in keys]]


def leaf_order(c):
    """Block names of a JSON container in pytree-leaf order (dict keys sorted)."""
    if isinstance(c, str):
        return [c]
    if isinstance(c, list):
        return [n for v in c for n in leaf_order(v)]
    if 'tuple' in c:
        return [n for v in c['tuple'] for n in leaf_order(v)]
    return [n for k in sorted(c['dict']) for n in leaf_order(c['dict'][k])]


def eval_class():
    """A user-defined operator with NO declared output structure (jax.eval_shape of mv: the honest dtype), the generic
    as_matrix and the lazy transpose."""
    if 'eval' not in _user:
        import equinox

        j = A.J()

        class MatOperator(j['core'].AbstractLinearOperator):
            matrix: j['jax'].Array
            _in: object = equinox.field(static=True)

            def __init__(self, matrix, in_structure):
                self.matrix = matrix
                self._in = in_structure

            def mv(self, x):
                return self.matrix @ x

            def in_structure(self):
                return self._in

        _user['eval'] = MatOperator
    return _user['eval']


def dt_build(spec):
    """spec -> (operator, reference matrix complex128, matrix dtype name, input description, output description)."""
    j = A.J()
    jax, jnp = j['jax'], j['jnp']
    k = spec['k']

    def sds(n, dt):
        return jax.ShapeDtypeStruct((n,), jnp.dtype(dt))

    def arr(v, dt):
        return jnp.asarray(np.asarray(v).astype(np.dtype(dt)) if np.dtype(dt).kind == 'c' else np.asarray(v).real.astype(np.dtype(dt)))

    if k in ('dense', 'user'):
        m = dt_values(spec['seed'], (spec['r'], spec['c']), spec['md'])
        if k == 'dense':
            op = j['dense'].DenseBlockDiagonalOperator(arr(m, spec['md']), sds(spec['c'], spec['d']), 'ij,j->i')
        else:
            op = eval_class()(arr(m, spec['md']), sds(spec['c'], spec['d']))
        t = rt(spec['d'], spec['md'])
        return op, m, t, _leaf_desc(spec['c'], spec['d']), _leaf_desc(spec['r'], t)
    if k == 'comp':
        d1 = rt(spec['d'], spec['md'])
        m1 = dt_values(spec['seed'], (spec['m'], spec['c']), spec['md'])
        m2 = dt_values(spec['seed'] + 1, (spec['r'], spec['m']), 'float16' if np.dtype(spec['md2']).kind != 'c' else 'complex64')
        m2 = np.round(m2.real) + 1j * np.round(m2.imag)       # integer entries: the product stays exact
        a = j['dense'].DenseBlockDiagonalOperator(arr(m2, spec['md2']), sds(spec['m'], d1), 'ij,j->i')
        b = j['dense'].DenseBlockDiagonalOperator(arr(m1, spec['md']), sds(spec['c'], spec['d']), 'ij,j->i')
        t = rt(d1, spec['md2'])
        return a @ b, m2 @ m1, t, _leaf_desc(spec['c'], spec['d']), _leaf_desc(spec['r'], t)
    if k == 'diag':
        v = dt_values(spec['seed'], (spec['c'],), spec['md'])
        op = j['diagonal'].DiagonalOperator(arr(v, spec['md']), in_structure=sds(spec['c'], spec['d']))
        return op, np.diag(v), spec['d'], _leaf_desc(spec['c'], spec['d']), _leaf_desc(spec['c'], spec['d'])
    if k == 'homoth':
        v = dt_values(spec['seed'], (1,), spec['md'])[0]
        op = j['core'].HomothetyOperator(arr(v, spec['md']), sds(spec['c'], spec['d']))
        return op, v * np.eye(spec['c'], dtype=np.complex128), spec['d'], _leaf_desc(spec['c'], spec['d']), _leaf_desc(spec['c'], spec['d'])
    if k == 'ident':
        op = j['core'].IdentityOperator(sds(spec['c'], spec['d']))
        return op, np.eye(spec['c'], dtype=np.complex128), spec['d'], _leaf_desc(spec['c'], spec['d']), _leaf_desc(spec['c'], spec['d'])
    if k == 'blk':       # a block operator as a block (pytree input and / or output)
        parts = [dt_build(p) for p in spec['parts']]
        names = [f'p{i}' for i in range(len(parts))]
        cont = {'list': names, 'tuple': {'tuple': names}, 'dict': {'dict': dict(zip(('v', 'u', 'w'), names))}}[spec['cont']]
        ops = A.container(cont, dict(zip(names, (p[0] for p in parts))))
        cls = getattr(j['blocks'], KIND[spec['cls']][0])
        by = dict(zip(names, parts))
        order = [by[n] for n in leaf_order(cont)]
        ref = _stack(spec['cls'], [p[1] for p in order])
        ins = cont_desc(cont, {n: p[3] for n, p in by.items()})
        outs = cont_desc(cont, {n: p[4] for n, p in by.items()})
        if spec['cls'] == 'row':
            outs = order[0][4]
        if spec['cls'] == 'col':
            ins = order[0][3]
        return cls(ops), ref.astype(np.complex128), rt(*[p[2] for p in parts]), ins, outs
    raise ValueError(spec)


def _pairs(dts, t):
    return [(d, md) for d in dts for md in dts if rt(d, md) == t]


def dt_gen_to(rng, dts, r, t, leaf=False):
    """A block spec with the single-leaf OUTPUT (r,) of dtype t (any input)."""
    k = rng.choice(['dense', 'dense', 'user'] if leaf else ['dense', 'dense', 'user', 'comp', 'diag', 'homoth', 'ident', 'blk'])
    seed = rng.randrange(10 ** 6)
    if k in ('dense', 'user'):
        d, md = rng.choice(_pairs(dts, t))
        return {'k': k, 'd': d, 'md': md, 'r': r, 'c': rng.randint(1, 3), 'seed': seed}
    if k == 'comp':
        d1, md2 = rng.choice(_pairs(dts, t))
        d, md = rng.choice(_pairs(dts, d1))
        return {'k': k, 'd': d, 'md': md, 'md2': md2, 'r': r, 'm': rng.randint(1, 2), 'c': rng.randint(1, 3), 'seed': seed}
    if k in ('diag', 'homoth'):
        return {'k': k, 'd': t, 'md': rng.choice([m for m in dts if rt(t, m) == t]), 'c': r, 'seed': seed}
    if k == 'ident':
        return {'k': k, 'd': t, 'c': r}
    return {'k': 'blk', 'cls': 'row', 'cont': rng.choice(['list', 'tuple', 'dict']),
            'parts': [dt_gen_to(rng, dts, r, t, leaf=True) for _ in range(2)]}


def dt_gen_from(rng, dts, c, d, leaf=False):
    """A block spec with the single-leaf INPUT (c,) of dtype d (any output)."""
    k = rng.choice(['dense', 'dense', 'user'] if leaf else ['dense', 'dense', 'user', 'comp', 'diag', 'homoth', 'ident', 'blk'])
    seed = rng.randrange(10 ** 6)
    if k in ('dense', 'user'):
        return {'k': k, 'd': d, 'md': rng.choice(dts), 'r': rng.randint(1, 3), 'c': c, 'seed': seed}
    if k == 'comp':
        return {'k': k, 'd': d, 'md': rng.choice(dts), 'md2': rng.choice(dts), 'r': rng.randint(1, 3), 'm': rng.randint(1, 2),
                'c': c, 'seed': seed}
    if k in ('diag', 'homoth'):
        return {'k': k, 'd': d, 'md': rng.choice([m for m in dts if rt(d, m) == d]), 'c': c, 'seed': seed}
    if k == 'ident':
        return {'k': k, 'd': d, 'c': c}
    return {'k': 'blk', 'cls': 'col', 'cont': rng.choice(['list', 'tuple', 'dict']),
            'parts': [dt_gen_from(rng, dts, c, d, leaf=True) for _ in range(2)]}


def dt_gen_blocks(rng, dts, kind, arity, fixed=None):
    """`arity` block specs that a block operator of `kind` accepts; `fixed` = (position, dense/user spec) imposes one
    block (and with it the shared structure)."""
    pos, fx = fixed if fixed else (None, None)
    if kind == 'row':
        if fx is None and rng.random() < 0.25:
            # a PYTREE shared output [(r1, t1), (r2, t2)]: every block is a block column / block diagonal of two dense blocks
            (r1, t1), (r2, t2) = [(rng.randint(1, 2), rng.choice(dts)) for _ in range(2)]
            cont = rng.choice(['list', 'tuple', 'dict'])
            out = []
            for _ in range(arity):
                if rng.random() < 0.5:
                    d = rng.choice([x for x in dts if rt(x, t1) == t1 and rt(x, t2) == t2])
                    c = rng.randint(1, 2)
                    parts = [{'k': 'dense', 'd': d, 'md': rng.choice([m for m in dts if rt(d, m) == t]), 'r': r, 'c': c,
                              'seed': rng.randrange(10 ** 6)} for r, t in ((r1, t1), (r2, t2))]
                    out.append({'k': 'blk', 'cls': 'col', 'cont': cont, 'parts': parts})
                else:
                    out.append({'k': 'blk', 'cls': 'bdiagop', 'cont': cont,
                                'parts': [dt_gen_to(rng, dts, r, t, leaf=True) for r, t in ((r1, t1), (r2, t2))]})
            return out
        r, t = (fx['r'], rt(fx['d'], fx['md'])) if fx else (rng.randint(1, 3), rng.choice(dts))
        out = [dt_gen_to(rng, dts, r, t) for _ in range(arity)]
    elif kind == 'col':
        if fx is None and rng.random() < 0.25:
            # a PYTREE shared input [(c1, d1), (c2, d2)]: every block is a block row / block diagonal of two dense blocks
            (c1, d1), (c2, d2) = [(rng.randint(1, 2), rng.choice(dts)) for _ in range(2)]
            cont = rng.choice(['list', 'tuple', 'dict'])
            out = []
            for _ in range(arity):
                if rng.random() < 0.5:
                    t = rng.choice([x for x in dts if rt(x, d1) == x and rt(x, d2) == x])
                    r = rng.randint(1, 2)
                    parts = [{'k': 'dense', 'd': d, 'md': rng.choice([m for m in dts if rt(d, m) == t]), 'r': r, 'c': c,
                              'seed': rng.randrange(10 ** 6)} for c, d in ((c1, d1), (c2, d2))]
                    out.append({'k': 'blk', 'cls': 'row', 'cont': cont, 'parts': parts})
                else:
                    out.append({'k': 'blk', 'cls': 'bdiagop', 'cont': cont,
                                'parts': [dt_gen_from(rng, dts, c, d, leaf=True) for c, d in ((c1, d1), (c2, d2))]})
            return out
        c, d = (fx['c'], fx['d']) if fx else (rng.randint(1, 3), rng.choice(dts))
        out = [dt_gen_from(rng, dts, c, d) for _ in range(arity)]
    else:
        out = []
        for _ in range(arity):
            if rng.random() < 0.5:
                out.append(dt_gen_to(rng, dts, rng.randint(1, 3), rng.choice(dts)))
            else:
                out.append(dt_gen_from(rng, dts, rng.randint(1, 3), rng.choice(dts)))
            if rng.random() < 0.2:
                out[-1] = {'k': 'blk', 'cls': 'bdiagop', 'cont': rng.choice(['list', 'tuple', 'dict']),
                           'parts': [dt_gen_to(rng, dts, rng.randint(1, 2), rng.choice(dts), leaf=True) for _ in range(2)]}
    if fx:
        out[pos] = fx
    return out


def dt_flat(y) -> np.ndarray:
    return np.concatenate([np.asarray(l).astype(np.complex128).ravel() for l in A.J()['jax'].tree.leaves(y)])


def dt_dtypes(y):
    return [str(np.dtype(l.dtype)) for l in A.J()['jax'].tree.leaves(y)]


def dt_rand_input(struct, r):
    """(pytree of Gaussian-integer arrays matching `struct` - complex where the leaf is complex -, the flat complex128 vector)."""
    j = A.J()
    leaves, td = j['jax'].tree.flatten(struct)
    xs = []
    for l in leaves:
        n = int(np.prod(l.shape))
        v = np.array([r.randint(-3, 3) for _ in range(n)], dtype=np.complex128)
        if np.dtype(l.dtype).kind == 'c':
            v = v + 1j * np.array([r.randint(-3, 3) for _ in range(n)])
        xs.append(v)
    x = j['jax'].tree.unflatten(td, [j['jnp'].asarray((v if np.dtype(l.dtype).kind == 'c' else v.real).astype(np.dtype(l.dtype))
                                                       .reshape(l.shape)) for v, l in zip(xs, leaves)])
    return x, (np.concatenate(xs) if xs else np.zeros(0, np.complex128))


def cmat(m):
    """complex matrix -> JSON [[re, im], ...] rows (floats; exact dyadic values in the cases of this stream)."""
    m = np.asarray(m).astype(np.complex128)
    return [[[float(v.real), float(v.imag)] for v in row] for row in m.reshape(m.shape[0], -1)] if m.ndim == 2 else \
        [[float(v.real), float(v.imag)] for v in m.ravel()]


def _num(x) -> float:
    return float(Fraction(x)) if isinstance(x, str) else float(x)


def cmat_close(a, b, tol) -> bool:
    """JSON complex matrices / vectors (possibly canonicalised by lib.canon) equal within tol * max(1, |entry|)."""
    if a is None or b is None or len(a) != len(b):
        return False
    for ra, rb in zip(a, b):
        if isinstance(ra[0], list) or isinstance(rb[0], list):
            if not cmat_close(ra, rb, tol):
                return False
        else:
            za, zb = complex(_num(ra[0]), _num(ra[1])), complex(_num(rb[0]), _num(rb[1]))
            if not abs(za - zb) <= tol * max(1.0, abs(za), abs(zb)):
                return False
    return True


class Check(PropertyCheck):
    id = 'C10'
    props = ['C10.v']
    static_targets = ['theories/Model/Exec.vo', 'theories/Model/BlockMat.vo', 'theories/Lemmas/BlocksL.vo',
                      'theories/Model/Inverse.vo']
    coq_header = (A.COQ_HEADER + 'From Furax Require Import Model.Wf Model.BlockMat.\nFrom Furax Require Model.Inverse.\n'
                  'Local Open Scope string_scope.\n')
    shard = 40
    workers = 8
    trusted = [
        'leaf blocks (dense, diagonal, index...) act in the executable model through dense matrices measured on the real '
        'objects; the theorems quantify over arbitrary blocks (matrix-free forms) or over blocks that act as given matrices '
        '(matrix forms, hypothesis `acts_as`), and the adjointness closure assumes each block/transposed-block pair adjoint',
        'jax.tree.map / jax.tree.leaves with is_leaf: prefix matching and leaf order (dict keys sorted) as specified by '
        'Base/Pytree.v split_prefix / build / flatten; numpy.hstack, numpy.vstack, scipy.linalg.block_diag as specified by '
        'Model/BlockMat.v hstack / vstack / block_diag (the harness compares all of them with the real functions)',
        'the transpose of an opaque dense block is given, in the executable model, the transposed measured matrix',
        'object identity (`is`) is modelled by harness-assigned object ids; objects created by the code get id 0',
        'float32 arithmetic of the implementation is compared with exact rationals after rounding measured entries to '
        'rationals with denominator <= 4096 (exact for the integer/dyadic inputs used); tolerance 1e-4 on matrices',
        'which blocks have mismatching shared structures is decided by the harness with its own structural key of the real '
        'structures (container kind, dict keys, Stokes class, leaf shape and dtype: alg_cases.key), never with the `==` of '
        'the code under test; the model decides it with struct_eqb on the encoded structures',
        'the iterative action (mv) of a lazy InverseOperator is used only where it is exact (symmetric positive definite '
        'operand: conjugate gradient) and never through a lazy transpose (jax.linear_transpose of the solve is unsupported by '
        'the library); elsewhere the results of .I / .T.I / .I.T / .I.I are evaluated from their structure - harness side: '
        'numpy.linalg.inv / transposes of the matrices of the objects they hold, model side: Model/Inverse.v imat (certified '
        'Gauss-Jordan inverse) - and through their own as_matrix() override (C06 covers the action of the solver)',
        'dtype stream (dtype-changing / mixed-dtype blocks, float16 ... complex128): implementation-side oracle only, against '
        'NumPy stacking (complex128) of the matrices the blocks were built from and numpy.result_type (equal to the JAX '
        'promotion on the floating / complex dtypes used); the Coq model is over exact rationals and is not compared on '
        'these cases; DiagonalOperator / HomothetyOperator blocks are used only with parameters not wider than the data '
        '(with wider ones their own declared output dtype differs from what their mv returns - a block-level matter outside C10)',
        'the expected matrix of a sequence of .T / .I is computed by NumPy (transpose, numpy.linalg.inv in float64) on the '
        'matrices of the blocks measured by basis vectors, rounded to rationals as above',
    ]

    # -- cases ---------------------------------------------------------------------------------
    def cases(self):
        quick = self.tier == 'quick'
        rng = self.rng
        env = ENV()
        bad = {n: o.error for n, o in env.items() if isinstance(o, A.Unbuildable)}
        self.stats['unbuildable_operands'] = bad
        out, seen = [], set()

        def add(kind, shape, names, expect, deep=False):
            arity, mk = SHAPES[shape]
            names = list(names)[:arity]
            k = (kind, shape, tuple(names))
            if k in seen or any(n in bad for n in names):
                return
            seen.add(k)
            out.append({'kind': 'single' if expect == 'ok' else 'mismatch', 'block': kind, 'shape': shape,
                        'container': mk(names), 'names': names, 'xseed': rng.randrange(10**6)})
            if deep:
                out[-1]['deep'] = True      # also as_matrix() of .I and .T.I

        pools = {'row': [OUT2, OUT3, OUTS], 'col': [IN2, IN3, INS], 'bdiagop': [ANY, SQUARE]}
        # 1. every block kind alone in every single-block container (arity one; the bare block)
        for kind in KIND:
            for shape in ('bare', 'list1', 'tuple1', 'dict1'):
                names = (ANY if not quick else PLAIN) if (not quick or shape in ('bare', 'list1')) else rng.sample(ANY, 6)
                for n in names:
                    add(kind, shape, [n], 'ok')
        # 2. matching blocks in every container shape
        per = 5 if quick else 40
        for kind in KIND:
            for shape, (arity, _) in SHAPES.items():
                if arity == 1:
                    continue
                for _ in range(per):
                    pool = rng.choice(pools[kind])
                    add(kind, shape, [rng.choice(pool) for _ in range(arity)], 'ok')
        # 3. mismatching shared structures (row: outputs, column: inputs), at every position
        per = 3 if quick else 20
        for kind in ('row', 'col'):
            ps = pools[kind]
            for shape, (arity, _) in SHAPES.items():
                if arity == 1:
                    continue
                for _ in range(per):
                    p1, p2 = rng.sample(ps, 2)
                    names = [rng.choice(p1) for _ in range(arity)]
                    names[rng.randrange(arity)] = rng.choice(p2)
                    if len({self._shared(kind, n) for n in names}) > 1:
                        add(kind, shape, names, 'mismatch')
        # 5. blocks whose SHARED side is a pytree (operators on tuple / list / dict / nested / Stokes structures,
        #    block-diagonal, block-row and block-column blocks): equal structures held in different but equal
        #    objects are accepted ...
        vkey = {v: G.key(A.mk_struct(d)) for v, d in VARIANTS.items()}
        multi = [sh for sh, (arity, _) in SHAPES.items() if arity > 1]

        pools_v: dict = {}

        def pool(kind, v):
            # the operators BUILT ON variant v whose shared side (row: output, column: input) is v
            if (kind, v) not in pools_v:
                pools_v[kind, v] = [n for n in VOPS[v] if n not in bad and self._shared(kind, n) == vkey[v]]
            return pools_v[kind, v]

        for kind in ('row', 'col'):
            for v in VARIANTS:
                same = [u for u in VARIANTS if vkey[u] == vkey[v]]     # e.g. dab and dba
                p = sorted({n for u in same for n in pool(kind, u)})
                shapes = ['list2', rng.choice(multi[1:])] if quick else multi
                for shape in shapes:
                    for _ in range(1 if quick else 4):
                        names = [rng.choice(p) for _ in range(SHAPES[shape][0])]
                        if len(same) > 1:   # make sure both spellings of the same structure meet
                            names[0], names[1] = rng.choice(pool(kind, same[0])), rng.choice(pool(kind, same[1]))
                        add(kind, shape, names, 'ok')
        #    ... and EVERY kind of difference between two structures is refused: all ordered pairs of variants with
        #    the same number of leaves (container kind, dict keys, nesting, leaf vs singleton, Stokes vs plain, dtype,
        #    leaf shape), sampled pairs with different numbers of leaves; first / other position of the odd block
        def add_pair(kind, shape, v1, v2, pos=None):
            if vkey[v1] == vkey[v2]:
                return
            arity = SHAPES[shape][0]
            names = [rng.choice(pool(kind, v1)) for _ in range(arity)]
            names[rng.randrange(arity) if pos is None else pos] = rng.choice(pool(kind, v2))
            n0 = len(out)
            add(kind, shape, names, 'mismatch')
            if len(out) > n0:
                out[-1]['pair'] = [v1, v2]

        fams = sorted(FAMILY)
        for kind in ('row', 'col'):
            near = [(a, b) for f in fams for a in FAMILY[f] for b in FAMILY[f] if a != b]
            far = [(a, b) for f in fams for g in fams if f != g for a in FAMILY[f] for b in FAMILY[g]]
            rng.shuffle(far)
            for a, b in near + (far[:40] if quick else far):
                add_pair(kind, 'list2', a, b, pos=1)         # ordered pairs: both orders occur
            for shape in multi[1:]:
                sample = rng.sample(near, 8) if quick else near
                for a, b in sample:
                    add_pair(kind, shape, a, b)
                for a, b in far[: 2 if quick else 60]:
                    add_pair(kind, shape, a, b)
        # 6. EVERY wrapper class (lazy TransposeOperator of user-defined / broadcast-diagonal / index / dense operators,
        #    explicit TransposeOperator(A), ReshapeTranspose, QURotationTranspose, DiagonalInverse, lazy InverseOperator) and
        #    compositions / sums / block-diagonals over them as a block, at a random position of every container shape
        #    (quick: the bare block, one single-block and two multi-block containers), among blocks of the same pool:
        #    exercised by .T / .I / .T.T / .T.I / .I.T / .I.I / .T.I.T (block-diagonal with square blocks) or .T / .T.T
        shapes_all = list(SHAPES)
        for kind in KIND:
            for w in WRAPPERS:
                if w in bad:
                    continue
                mine = [p for p in pools[kind] if w in p]
                if not mine:
                    continue
                shapes = shapes_all if not quick else (['bare', rng.choice(shapes_all[1:4])]
                                                       + rng.sample(multi, 2 if kind == 'bdiagop' else 1))
                for shape in shapes:
                    for _ in range(1 if quick else 3):
                        p = rng.choice(mine)
                        if kind == 'bdiagop' and p is ANY and rng.random() < 0.7:
                            p = SQUARE        # mostly all-square companions, so that the inverse is block by block
                        names = [rng.choice(p) for _ in range(SHAPES[shape][0])]
                        names[rng.randrange(len(names))] = w
                        add(kind, shape, names, 'ok', deep=kind == 'bdiagop')
        # 4. products of block operators: every compatible ordered pair, sampled incompatible ones
        t = self._typed()
        blockops = sorted(n for n, d in LET.items() if d['k'] in KIND and n in t and not n.startswith(VPREFIX))
        compat, incompat = [], []
        for a in blockops:
            for b in blockops:
                (compat if t[a][0] == t[b][1] else incompat).append((a, b))
        rng.shuffle(incompat)
        if quick:
            # always keep the pairs whose containers differ as trees although the structures match (no rule may fire)
            tree = A.J()['jax'].tree.structure
            diff = [p for p in compat if tree(env[p[0]].blocks, is_leaf=is_op) != tree(env[p[1]].blocks, is_leaf=is_op)]
            # ... and the pairs of arity-one operators with equal containers (a rule fires on a single product)
            one = [p for p in compat if p not in diff and all(len(env[n].block_leaves) == 1 for n in p)]
            rng.shuffle(compat)
            compat = sorted(set(compat[:150]) | set(diff) | set(one))
            self.stats['arity_one_rule_pairs'] = len(one)
            self.stats['different_treedef_pairs'] = len(diff)
        for a, b in compat:
            out.append({'kind': 'product', 'a': a, 'b': b})
        for a, b in incompat[: 40 if quick else 400]:
            out.append({'kind': 'product-mismatch', 'a': a, 'b': b})
        self.stats['block_operators'] = len(blockops)
        self.stats['compatible_pairs'] = len(compat)
        out += self.dtype_cases(quick)
        return out

    def dtype_cases(self, quick):
        """7. DTYPE-CHANGING blocks (own random stream: the cases above do not depend on it).  Systematic part: every
        ordered pair (data dtype, matrix dtype) - widening, narrowing, equal, and 'both narrower than the result'
        (complex64 data, float64 matrix) - as a dense or user-defined block at a random position of the bare and of a
        multi-block container of each of the three block operators, among random conforming companions; random part:
        every block operator x every container shape with independently drawn blocks (dense, user-defined, composition,
        diagonal, scalar, identity, nested block row / column / diagonal blocks with pytree inputs or outputs)."""
        rng = random.Random(f'{self.seed}-dtype')
        out = []
        multi = [sh for sh, (arity, _) in SHAPES.items() if arity > 1]

        def add(kind, shape, specs, x64):
            arity, mk = SHAPES[shape]
            out.append({'kind': 'dtype', 'block': kind, 'shape': shape, 'x64': x64,
                        'container': mk([f'b{i}' for i in range(arity)]), 'blocks': specs, 'xseed': rng.randrange(10 ** 6)})

        for x64 in (False, True):
            dts = DT32 + DT64 if x64 else DT32
            for kind in KIND:
                for d in dts:
                    for md in dts:
                        if x64 and d in DT32 and md in DT32:
                            continue       # the same pair without x64 is in the other half
                        shapes = ['bare', rng.choice(multi)] if quick else list(SHAPES)
                        for shape in shapes:
                            arity = SHAPES[shape][0]
                            fx = {'k': rng.choice(['dense', 'dense', 'user']), 'd': d, 'md': md, 'r': rng.randint(1, 3),
                                  'c': rng.randint(1, 3), 'seed': rng.randrange(10 ** 6)}
                            add(kind, shape, dt_gen_blocks(rng, dts, kind, arity, fixed=(rng.randrange(arity), fx)), x64)
                for shape in SHAPES:
                    for _ in range(1 if quick else 12):
                        add(kind, shape, dt_gen_blocks(rng, dts, kind, SHAPES[shape][0]), x64)
        return out

    _typed_cache: dict = {}

    def _typed(self):
        if not self._typed_cache:
            for n, o in ENV().items():
                if isinstance(o, A.Unbuildable):
                    continue
                self._typed_cache[n] = (G.key(o.in_structure()), G.key(o.out_structure()))
        return self._typed_cache

    def _shared(self, kind, name):
        t = self._typed()[name]
        return t[1] if kind == 'row' else t[0]

    def extra(self):
        bad = self.stats.get('unbuildable_operands') or {}
        if bad:
            raise RuntimeError(f'operands of the alphabet cannot be constructed on this tree: {bad}')
        return {}

    def rule(self):
        return (
            'block row / diagonal / column operators over 9 container shapes (bare operator, [A], (A,), {a:A}, [A,B], '
            '(A,B,C), {b:A,a:B}, [[A,B],C], {x:[A,B],y:(C,)}) x blocks drawn from dense square/wide/tall, block-row and '
            'block-column blocks (pytree in/out), identity, scalar, diagonal, QU rotation, HWP: every block alone in the '
            'single-block containers, sampled matching and mismatching assignments for the others; per operator: '
            'constructor outcome, structures, dense matrix by basis vectors, mv on a random integer input, .T, .I, '
            'as_matrix(), reduce(); ordered pairs of ~50 block operators multiplied and reduced (all compatible pairs in '
            'the thorough tier, sampled incompatible ones). Shared pytree structures: 30 variants (one / two / three leaves '
            'in tuple, list, dict with other keys or insertion order, nested either way, singleton, Stokes I/QU/IQU, '
            'float16 or longer leaf) carried by identity, scalar, block-diagonal, block-row and block-column blocks; every '
            'ordered pair of different variants with equally many leaves (all pairs in the thorough tier) must be refused '
            'by the row (outputs) and column (inputs) constructors at the first or a random position of every multi-block '
            'container, equal variants accepted. Wrapper blocks: ~45 blocks covering every lazy wrapper class (plain '
            'TransposeOperator of user-defined / broadcast-diagonal / index / dense operators, ReshapeTranspose, '
            'QURotationTranspose, DiagonalInverse, InverseOperator) and compositions / sums / block operators over them, each '
            'at a random position of the bare, one single-block and one or two multi-block containers (all nine in the '
            'thorough tier) of every block class that admits it; every operator goes through .T, .T.T and (block-diagonal, '
            'square blocks) .I, .T.I, .I.T, .I.I, .T.I.T with the result compared block by block and as a dense matrix with '
            'NumPy transposes / inverses of the blocks\' matrices. Mismatch cases: construction and later use (structures, mv, '
            'reduce, as_matrix, .T) observed separately, refusal required AT construction. Dtype stream (~200 quick cases, '
            'implementation-side): every ordered pair (data dtype, matrix dtype) over float16/float32/complex64 and, under '
            'x64, float64/complex128 as a dense or user-defined block at a random position of the bare and one multi-block '
            'container of each block operator among conforming companions (compositions, diagonal, scalar, identity, nested '
            'block operators, pytree shared sides), plus one independent draw per operator x container x {x64, not}: '
            'structures, as_matrix() values and dtype, mv matrix, mv on a Gaussian-integer input, .T, reduce() against NumPy '
            'stacking in complex128 / numpy.result_type. Products: also all pairs of arity-one operators with equal '
            'containers. Non-trivial: constructor refusal, arity one, nested or dict '
            'container, pytree-valued or wrapper block, or a product rewritten by a block rule.'
        )

    def distribution(self, cases):
        d = {}
        for c in cases:
            k = c['kind'] + ('/' + c['block'] + '/' + c['shape'] if 'block' in c else '')
            d[k] = d.get(k, 0) + 1
        return d

    # -- implementation ----------------------------------------------------------------------------
    def run_impl(self, case):
        if case['kind'] in ('single', 'mismatch'):
            return self.run_single(case)
        if case['kind'] == 'dtype':
            return self.run_dtype(case)
        return self.run_product(case)

    def run_dtype(self, case):
        import contextlib
        import warnings

        j = A.J()
        jax, jnp = j['jax'], j['jnp']
        kind = case['block']
        with (jax.enable_x64(True) if case['x64'] else contextlib.nullcontext()), warnings.catch_warnings():
            warnings.simplefilter('ignore')
            built = {f'b{i}': dt_build(sp) for i, sp in enumerate(case['blocks'])}
            cont = case['container']
            order = [built[n] for n in leaf_order(cont)]
            ref = _stack(kind, [b[1] for b in order]).astype(np.complex128)
            want_dt = rt(*[b[2] for b in order])
            want_in = order[0][3] if kind == 'col' else cont_desc(cont, {n: b[3] for n, b in built.items()})
            want_out = order[0][4] if kind == 'row' else cont_desc(cont, {n: b[4] for n, b in built.items()})
            obs = {'ref': cmat(ref), 'want_dtype': want_dt, 'want_in': want_in, 'want_out': want_out,
                   'block_dtypes': [b[2] for b in order]}
            blocks = A.container(cont, {n: b[0] for n, b in built.items()})
            try:
                op = getattr(j['blocks'], KIND[kind][0])(blocks)
            except Exception as e:
                obs['ctor'] = f'raised {_exc(e)}'
                return obs
            obs['ctor'] = 'ok'

            def attempt(name, f):
                try:
                    obs[name] = f()
                except Exception as e:
                    obs[name] = {'err': _exc(e)}

            def asmat(o):
                m = o.as_matrix()
                return {'dtype': str(np.dtype(m.dtype)), 'val': cmat(np.asarray(m))}

            attempt('in', lambda: desc_of(op.in_structure()))
            attempt('out', lambda: desc_of(op.out_structure()))
            attempt('asmat', lambda: asmat(op))

            def mvmat():
                # the matrix of the operator's own action, one basis vector (in the dtype of its leaf) at a time
                cols, first = [], None
                for x in A.basis_inputs(op.in_structure()):
                    y = op.mv(x)
                    first = y if first is None else first
                    cols.append(np.concatenate([np.asarray(l).astype(np.complex128).ravel() for l in jax.tree.leaves(y)]))
                return {'val': cmat(np.stack(cols, axis=1)), 'value': desc_of(first)}

            attempt('mvmat', mvmat)

            def mvx():
                # one Gaussian-integer input (complex where the leaf is complex)
                x, xv = dt_rand_input(op.in_structure(), random.Random(case['xseed']))
                return {'x': cmat(xv), 'y': cmat(dt_flat(op.mv(x))), 'want': cmat(ref @ xv)}

            attempt('mvx', mvx)

            def transposed():
                # .T against the blocks' own transposes (each taken ALONE, never through the block operator)
                tkind = {'row': 'col', 'col': 'row', 'bdiagop': 'bdiagop'}[kind]
                names = leaf_order(cont)
                try:
                    alone = [b[0].T for b in order]
                    shared = [] if tkind == 'bdiagop' else [
                        desc_of(t.out_structure() if tkind == 'row' else t.in_structure()) for t in alone]
                except Exception as e:
                    return {'skipped': f'a block alone cannot be transposed: {_exc(e)}'}
                if any(sh != shared[0] for sh in shared):
                    # the transposed blocks (a transposed dtype-changing block does not return to the dtype of its input)
                    # do not share a structure: their block row / column must be refused
                    try:
                        return {'unshared': shared, 'outcome': f'returned a {type(op.T).__name__}'}
                    except Exception as e:
                        return {'unshared': shared, 'outcome': type(e).__name__}
                t = op.T
                res = {'cls': type(t).__name__}
                r = random.Random(case['xseed'] + 1)
                if tkind == 'col':
                    y, _ = dt_rand_input(alone[0].in_structure(), r)
                    outs = [a.mv(y) for a in alone]
                    want, wdt = np.concatenate([dt_flat(o) for o in outs]), [dt_dtypes(o) for o in outs]
                else:
                    ys = [dt_rand_input(a.in_structure(), r)[0] for a in alone]
                    y = A.container(cont, dict(zip(names, ys)))
                    outs = [a.mv(yb) for a, yb in zip(alone, ys)]
                    if tkind == 'row':
                        want = sum(dt_flat(o) for o in outs)
                        wdt = [[rt(*ds) for ds in zip(*[dt_dtypes(o) for o in outs])]]
                    else:
                        want, wdt = np.concatenate([dt_flat(o) for o in outs]), [dt_dtypes(o) for o in outs]
                got = t.mv(y)
                res.update({'y': cmat(dt_flat(y)), 'got': cmat(dt_flat(got)), 'got_dtypes': dt_dtypes(got), 'want': cmat(want),
                            'want_dtypes': [d for ds in wdt for d in ds]})
                if case['xseed'] % 4 == 0:
                    # (a quarter of the cases: the generic as_matrix of every block is compiled anew each time)
                    mats = [np.asarray(a.as_matrix()) for a in alone]
                    res['asmat'] = asmat(t)
                    res['want_asmat'] = {'dtype': rt(*[str(m.dtype) for m in mats]), 'val': cmat(_stack(tkind, mats))}
                return res

            attempt('T', transposed)

            def reduced():
                red = op.reduce()
                x, xv = dt_rand_input(op.in_structure(), random.Random(case['xseed'] + 2))
                y = red.mv(x)
                return {'cls': type(red).__name__, 'in': desc_of(red.in_structure()), 'out': desc_of(red.out_structure()),
                        'x': cmat(xv), 'y': cmat(dt_flat(y)), 'value': desc_of(y), 'want': cmat(ref @ xv)}

            attempt('reduce', reduced)
        return obs

    def run_single(self, case):
        j = A.J()
        env = ENV()
        enc = A.Encoder()
        kind = case['block']
        cls = getattr(j['blocks'], KIND[kind][0])
        blocks = A.container(case['container'], env)
        leaves = tree_leaves(blocks)
        terms = [enc.term(b) for b in leaves]
        td = enc.treedef(blocks)
        obs = {}
        ctor = observe(lambda: cls(blocks), enc)
        op = ctor.pop('_op', None)
        obs['ctor'] = ctor
        if case['kind'] == 'mismatch':
            # the harness's own (independent) view of the shared structures, dict keys included
            obs['shared'] = sorted({G.key(b.out_structure() if kind == 'row' else b.in_structure()) for b in leaves})
            # CONSTRUCTION and LATER USE observed separately: the clause is "refused at construction"
            obs['construction'] = f'raised {ctor["err"]}' if op is None else 'returned an operator'
            if op is not None:
                obs['later'] = later_use(kind, op, blocks, leaves, case['xseed'])
        if 'late_error' in ctor:
            op = None        # (single) reported by the oracle: structures of a constructed operator cannot be obtained
        case['_l'] = clist(terms, str)
        case['_td'] = td
        case['_x'] = None
        case['_seqs'] = []
        if op is not None and case['kind'] == 'single':
            ref = stacked_reference(kind, leaves)
            obs['ref'] = A.mat_json(A.frac_matrix(ref))
            tm = j['jax'].tree.map
            want_in = blocks_in = tm(lambda b: b.in_structure(), blocks, is_leaf=is_op)
            want_out = tm(lambda b: b.out_structure(), blocks, is_leaf=is_op)
            if kind == 'row':
                want_out = leaves[0].out_structure()
            if kind == 'col':
                want_in = leaves[0].in_structure()
            _ = blocks_in
            obs['want_in'], obs['want_out'] = A.struct_repr(want_in), A.struct_repr(want_out)
            # the same comparison with the dict keys (struct_repr, like the model's show_struct, omits them)
            obs['keys'] = {'in': G.key(op.in_structure()), 'out': G.key(op.out_structure()),
                           'want_in': G.key(want_in), 'want_out': G.key(want_out)}
            # mv on an integer input
            x = rand_input(op.in_structure(), random.Random(case['xseed']))
            case['_x'] = value_coq(x)
            try:
                y = op.mv(x)
                obs['mv'] = value_repr(y)
                obs['mv_key'] = tree_key(y, lambda v: int(np.size(v)))
                obs['out_key'] = tree_key(op.out_structure(), lambda l: int(np.prod(l.shape)))
                obs['mv_flat'] = [A.frac_json(A.to_frac(v)) for v in A.flat(y)]
            except Exception as e:
                obs['mv'] = None
                obs['mv_error'] = f'{type(e).__name__}: {str(e)[:200]}'
            obs['mv_ref'] = [A.frac_json(A.to_frac(v)) for v in ref @ A.flat(x)]
            tobs = observe(lambda: op.T, enc, want_matrix=False)
            if '_op' in tobs and 'err' not in tobs:
                tobs['keys'] = {'in': G.key(tobs['_op'].in_structure()), 'out': G.key(tobs['_op'].out_structure())}
                # the transpose of an iterative solver cannot be applied (unsupported by the library): its matrix is
                # then only evaluated from its structure (obs['seq']['T'])
                tobs['exact'] = exact_mv(tobs['_op'])
                tobs['mat'] = None
                if tobs['exact']:
                    try:
                        tobs['mat'] = A.mat_json(A.frac_matrix(A.dense(tobs['_op'])))
                    except Exception as e:
                        tobs['mat_error'] = f'{type(e).__name__}: {str(e)[:200]}'
            obs['T'] = strip(tobs)
            closed = closed_inverse(case)
            with A.quiet_config():
                inv = observe(lambda: op.I, enc, want_matrix=closed)
                iop = inv.pop('_op', None)
                if iop is not None and 'err' not in inv and kind == 'bdiagop' and isinstance(iop, j['blocks'].BlockDiagonalOperator):
                    inv['blockwise'] = [A.skeleton(b.I, enc) for b in leaves]
            inv['squares'] = [bool(b.in_structure() == b.out_structure()) for b in leaves]
            inv['square'] = bool(op.in_structure() == op.out_structure())
            obs['I'] = inv
            try:
                obs['asmat'] = A.mat_json(A.frac_matrix(np.asarray(op.as_matrix(), dtype=np.float64)))
            except Exception as e:
                obs['asmat'] = None
                obs['asmat_error'] = f'{type(e).__name__}: {str(e)[:200]}'
            obs['reduce'] = strip(observe(lambda: op.reduce(), enc))
            # sequences of .T / .I: structure, block-by-block skeleton and dense matrix against NumPy on the blocks' matrices
            seqs = SEQS_SQUARE if kind == 'bdiagop' and all(inv['squares']) else SEQS_OTHER
            ms = [A.reference_matrix(b) for b in leaves]
            case['_seqs'] = list(seqs)
            with_asmat = () if not case.get('deep') else ('TI',) if self.tier == 'quick' else ('I', 'TI', 'II')
            obs['seq'] = {q: self.run_seq(kind, op, leaves, ms, q, enc, asmat=q in with_asmat) for q in seqs}
        add_transposed_entries(enc)
        case['_table'] = enc.table_coq()
        case['_unsupported'] = enc.unsupported
        return obs

    def run_seq(self, kind, op, leaves, ms, seq, enc, asmat=False):
        o = observe(lambda: apply_seq(op, seq), enc, want_matrix=False)
        res = o.pop('_op', None)
        if res is None or 'err' in o:
            return o
        blocks = A.J()['blocks']
        o['keys'] = {'in': G.key(res.in_structure()), 'out': G.key(res.out_structure())}
        # the same steps on every block ALONE (never through the block operator)
        try:
            o['blockwise'] = [A.skeleton(apply_seq(b, seq), enc) for b in leaves]
        except Exception as e:
            o['blockwise_error'] = f'{type(e).__name__}: {str(e)[:200]}'
        # expected: NumPy transposes / inverses of the blocks' matrices, stacked
        try:
            wb = [numpy_seq(m, seq) for m in ms]
            k = kind if seq.count('T') % 2 == 0 else {'row': 'col', 'col': 'row', 'bdiagop': 'bdiagop'}[kind]
            o['want'] = A.mat_json(A.frac_matrix(_stack(k, wb)))
            o['want_blocks'] = [A.mat_json(A.frac_matrix(m)) for m in wb]
        except np.linalg.LinAlgError:
            o['want'] = None
        # obtained: the result evaluated from its structure, applied to basis vectors, and its own as_matrix()
        o['mat'] = None
        try:
            o['mat'] = A.mat_json(A.frac_matrix(result_matrix(res)))
            if isinstance(res, blocks.AbstractBlockOperator):
                o['blocks'] = [A.mat_json(A.frac_matrix(result_matrix(b))) for b in res.block_leaves]
        except Exception as e:
            o['mat_error'] = f'{type(e).__name__}: {str(e)[:200]}'
        try:
            if exact_mv(res):
                o['dense'] = A.mat_json(A.frac_matrix(A.dense(res)))
            if asmat and exact_asmat(res):
                o['asmat'] = A.mat_json(A.frac_matrix(np.asarray(res.as_matrix(), dtype=np.float64)))
        except Exception as e:
            o['apply_error'] = f'{type(e).__name__}: {str(e)[:200]}'
        return o

    def run_product(self, case):
        env = ENV()
        enc = A.Encoder()
        a, b = env[case['a']], env[case['b']]
        ta, tb = enc.term(a), enc.term(b)
        obs = {}
        prod = observe(lambda: a @ b, enc)
        p = prod.pop('_op', None)
        if 'err' in prod:
            p = None
        obs['product'] = prod
        if p is not None:
            obs['reduced'] = strip(observe(lambda: p.reduce(), enc))
            obs['ref'] = A.mat_json(A.frac_matrix(A.reference_matrix(a) @ A.reference_matrix(b)))
            obs['same_treedef'] = bool(
                A.J()['jax'].tree.structure(a.blocks, is_leaf=is_op) == A.J()['jax'].tree.structure(b.blocks, is_leaf=is_op)
            )
        case['_a'], case['_b'] = ta, tb
        case['_table'] = enc.table_coq()
        case['_unsupported'] = enc.unsupported
        return obs

    # -- model -----------------------------------------------------------------------------------
    def model_term(self, case):
        if case.get('_unsupported') or '_table' not in case:
            return None
        tb = case['_table']
        if case['kind'] in ('single', 'mismatch'):
            B = KIND[case['block']][1]
            head = f'let l := {case["_l"]} in let tb := {tb} in let td := {case["_td"]} in let e := Block 0 {B} td l in '
            ctor = f'observe tb (x_mk_block {B} td l)'
            if case['_x'] is None:
                return f'({head}{ctor})'
            return (
                f'({head}({ctor}, obs_mv tb e {case["_x"]}, observe tb (Ok (x_transpose e)), '
                f'observe tb (x_binv default_order e), x_stacked tb {B} l, observe tb (x_reduce default_order e), wfo e, '
                f'{clist(self._seqs(case), _seq_term)}))'
            )
        a, b = case['_a'], case['_b']
        return (
            f'(let tb := {tb} in (observe tb (x_matmul {a} {b}), '
            f'observe tb (bind (x_matmul {a} {b}) (x_reduce default_order))))'
        )

    def _seqs(self, case):
        return case.get('_seqs') or []

    def decode(self, case, v):
        if case['kind'] in ('single', 'mismatch'):
            if case['_x'] is None:
                return {'ctor': A.decode_observation(v)}
            ctor, mv, tr, inv, stacked, red, wf, sq = v
            d = {
                'ctor': A.decode_observation(ctor), 'mv': decode_value(mv), 'T': A.decode_observation(tr),
                'I': A.decode_observation(inv), 'asmat': decode_rows(stacked), 'reduce': A.decode_observation(red), 'wf': wf,
            }
            if not closed_inverse(case):
                d['I'].pop('mat', None)
            # the matrix of a sequence result is compared where the model has one (lazy inverses as exact inverses,
            # Model/Inverse.v imat; none for the transpose of a lazy inverse created by the model)
            d['seq'] = {q: A.decode_observation(o) for q, o in zip(self._seqs(case), sq)}
            case['_seqmat'] = {q: o.get('mat') is not None for q, o in d['seq'].items()}
            for q, o in d['seq'].items():
                if not case['_seqmat'][q]:
                    o.pop('mat', None)
            return d
        prod, red = v
        d = {'product': A.decode_observation(prod)}
        if 'err' not in d['product']:
            d['reduced'] = A.decode_observation(red)
        return d

    def comparable(self, case, obs):
        if not isinstance(obs, dict) or 'harness_error' in obs:
            return obs

        def part(o, mat=True):
            if 'err' in o:
                return {'err': o['err']}
            return {k: o[k] for k in (('skel', 'in', 'out', 'mat') if mat else ('skel', 'in', 'out'))}

        if case['kind'] in ('single', 'mismatch'):
            d = {'ctor': part(obs['ctor'])}
            if 'err' in obs['ctor'] or case['kind'] == 'mismatch':
                return d
            closed = closed_inverse(case)
            d.update({'mv': obs['mv'], 'T': part(obs['T']), 'I': part(obs['I'], closed), 'asmat': obs['asmat'],
                      'reduce': part(obs['reduce']), 'wf': True})
            sm = case.get('_seqmat') or {}
            d['seq'] = {q: part(o, bool(sm.get(q))) for q, o in obs['seq'].items()}
            return d
        d = {'product': part(obs['product'])}
        if 'reduced' in obs:
            d['reduced'] = part(obs['reduced'])
        return d

    def nontrivial(self, case, obs):
        if not isinstance(obs, dict):
            return False
        if case['kind'] in ('mismatch', 'product-mismatch', 'dtype'):
            return True
        if case['kind'] == 'single':
            return case['shape'] != 'list2' or any(n in ('BR', 'BRw', 'BC', 'BCt', 'BD') or n in WRAPPERS for n in case['names'])
        return 'reduced' in obs and obs['reduced'].get('skel') != obs['product'].get('skel')

    def finding_key(self, case, obs):
        return None

    # -- oracle -----------------------------------------------------------------------------------
    def oracle(self, case, obs):
        if not isinstance(obs, dict) or 'harness_error' in obs:
            return None
        if case['kind'] == 'mismatch':
            if obs['ctor'].get('err') != 'ValueError':
                side = 'output' if case['block'] == 'row' else 'input'
                if obs.get('construction') == 'returned an operator':
                    return (f'blocks with mismatching shared ({side}) structures {obs.get("shared")} were NOT REFUSED AT '
                            f'CONSTRUCTION: {KIND[case["block"]][0]}(blocks) returned an operator; used afterwards: '
                            f'{obs.get("later")}')
                return (f'blocks with mismatching shared ({side}) structures {obs.get("shared")} were not refused with '
                        f'ValueError at construction: {obs.get("construction")}')
            return None
        if case['kind'] == 'single':
            return self.oracle_single(case, obs)
        if case['kind'] == 'dtype':
            return self.oracle_dtype(case, obs)
        if case['kind'] == 'product-mismatch':
            if obs['product'].get('err') != 'ValueError':
                return f'incompatible block operators were multiplied: {obs["product"].get("err") or obs["product"].get("skel")}'
            return None
        p = obs['product']
        if 'err' in p:
            return f'compatible block operators could not be multiplied: {p["err"]}'
        r = obs['reduced']
        if 'err' in r:
            return f'reduce() of the product raised {r["err"]}'
        if p.get('mat') is None:
            return f'the product cannot be applied: {p.get("mat_error")}'
        if not A.mat_close(p['mat'], obs['ref']):
            return f'matrix of the product {p["mat"]} differs from the product of the stacked matrices {obs["ref"]}'
        if r.get('mat') is None:
            return f'the reduced product cannot be applied: {r.get("mat_error")}'
        if not A.mat_close(r['mat'], obs['ref']):
            return f'matrix of the reduced product {r["mat"]} differs from the product of the stacked matrices {obs["ref"]}'
        if r['in'] != p['in'] or r['out'] != p['out']:
            return 'structures changed by reduce()'
        return None

    def oracle_single(self, case, obs):
        kind = case['block']
        c = obs['ctor']
        if 'late_error' in c:
            return f'blocks with matching structures: the operator was {c["late_error"]}'
        if 'err' in c:
            return f'blocks with matching structures were refused: {c["err"]}'
        ref = obs['ref']
        if c['in'] != obs['want_in'] or c['out'] != obs['want_out']:
            return f'declared structures {c["in"]} -> {c["out"]} are not those of the blocks {obs["want_in"]} -> {obs["want_out"]}'
        k = obs['keys']
        if k['in'] != k['want_in'] or k['out'] != k['want_out']:
            return f'declared structures {k["in"]} -> {k["out"]} are not those of the blocks {k["want_in"]} -> {k["want_out"]} (dict keys)'
        if c.get('mat') is None:
            return f'the block operator cannot be applied to basis vectors: {c.get("mat_error")}'
        if not A.mat_close(c['mat'], ref):
            return f'dense matrix {c["mat"]} is not the stacked matrix of the blocks {ref}'
        if obs['mv'] is None:
            return f'mv failed on an input of the declared structure: {obs.get("mv_error")}'
        if not A.mat_close([obs['mv_flat']], [obs['mv_ref']]):
            return f'mv returned {obs["mv_flat"]}, the stacked matrix gives {obs["mv_ref"]}'
        if _shape_of_value(obs['mv']) != _shape_of_struct(c['out']):
            return f'mv returned a value of structure {obs["mv"]}, declared {c["out"]}'
        if obs['mv_key'] != obs['out_key']:
            return f'mv returned a value of structure {obs["mv_key"]}, declared {obs["out_key"]} (dict keys)'
        if obs['asmat'] is None:
            return f'as_matrix() failed: {obs.get("asmat_error")}'
        if not A.mat_close(obs['asmat'], ref):
            return f'as_matrix() {obs["asmat"]} is not the stacked matrix of the blocks {ref}'
        t = obs['T']
        if 'err' in t:
            return f'.T raised {t["err"]}'
        if t['skel'][0] != TKIND[kind] or len(t['skel'][3]) != len(c['skel'][3]):
            return f'.T is {t["skel"][0]} with {len(t["skel"][3])} blocks'
        if t['in'] != c['out'] or t['out'] != c['in']:
            return '.T does not swap the structures'
        if t['keys']['in'] != k['out'] or t['keys']['out'] != k['in']:
            return f'.T does not swap the structures (dict keys): {t["keys"]} vs {k["in"]} -> {k["out"]}'
        refT = [list(r) for r in zip(*ref)] if ref and ref[0] else []
        if t['exact'] and (t.get('mat') is None or (refT and not A.mat_close(t['mat'], refT))):
            return f'matrix of .T {t.get("mat")} is not the transposed stacked matrix {refT} ({t.get("mat_error")})'
        r = obs['reduce']
        if 'err' in r:
            return f'reduce() raised {r["err"]}'
        if r.get('mat') is None or not A.mat_close(r['mat'], ref):
            return f'matrix of reduce() {r.get("mat")} differs from the stacked matrix {ref}'
        if r['in'] != c['in'] or r['out'] != c['out']:
            return 'structures changed by reduce()'
        inv = obs['I']
        if kind == 'bdiagop' and all(inv['squares']):
            if 'err' in inv:
                return f'.I of a block-diagonal operator with square blocks raised {inv["err"]}'
            if inv['skel'][0] != 'BlockDiagonalOperator' or inv['skel'][3] != inv.get('blockwise'):
                return f'.I is not the block-diagonal operator of the blocks\' inverses: {inv["skel"]} vs {inv.get("blockwise")}'
            if 'mat' in inv and inv['mat'] is not None:
                prod = np.array([[float(Fraction(x)) for x in row] for row in inv['mat']]) @ np.array(
                    [[float(Fraction(x)) for x in row] for row in ref])
                if not np.allclose(prod, np.eye(len(ref)), atol=1e-5):
                    return f'.I times the operator is not the identity: {prod.tolist()}'
        elif not inv['square']:
            if inv.get('err') != 'ValueError':
                return f'.I of a non-square block operator did not raise ValueError: {inv.get("err") or inv.get("skel")}'
        elif 'err' in inv:
            return f'.I of a square block operator raised {inv["err"]}'
        for q, o in obs['seq'].items():
            msg = self.oracle_seq(kind, q, o, c, k)
            if msg:
                return msg
        return None

    def oracle_dtype(self, case, obs):
        """Blocks of mixed / dtype-changing dtypes: the block operator's structures, as_matrix() (values AND dtype), its
        action on basis vectors and on a Gaussian-integer input, .T and reduce() against the NumPy stacked matrix of the
        matrices the blocks were built from (complex128) and numpy.result_type of the blocks' matrix dtypes."""
        name = KIND[case['block']][0]
        stacked = {'row': 'horizontally stacked', 'col': 'vertically stacked', 'bdiagop': 'block-diagonal'}[case['block']]
        if obs['ctor'] != 'ok':
            return f'{name} of blocks with matching structures (mixed dtypes) {obs["ctor"]}'
        for side in ('in', 'out'):
            if obs[side] != obs['want_' + side]:
                return f'declared {side}put structure {obs[side]} is not that of the blocks {obs["want_" + side]}'
        E, ref = obs['want_dtype'], obs['ref']
        tol = 8 * DT_EPS[E]
        am = obs['asmat']
        if 'err' in am:
            return f'as_matrix() failed: {am["err"]}'
        if not cmat_close(am['val'], ref, tol):
            return (f'as_matrix() (dtype {am["dtype"]}) {am["val"]} is not the {stacked} matrix {ref} of the blocks '
                    f'(block matrix dtypes {obs["block_dtypes"]})')
        if am['dtype'] != E:
            return f'as_matrix() has dtype {am["dtype"]}, the {stacked} matrix of blocks of dtypes {obs["block_dtypes"]} has dtype {E}'
        mm = obs['mvmat']
        if 'err' in mm:
            return f'mv failed on a basis vector of the declared input structure: {mm["err"]}'
        if not cmat_close(mm['val'], ref, 8 * tol):
            return f'mv on the basis vectors gives the matrix {mm["val"]}, not the {stacked} matrix {ref} of the blocks'
        if mm['value'] != obs['out']:
            return f'mv returned a value of structure {mm["value"]}, declared {obs["out"]}'
        mx = obs['mvx']
        if 'err' in mx:
            return f'mv failed on an input of the declared structure: {mx["err"]}'
        if not cmat_close(mx['y'], mx['want'], 64 * tol):
            return f'mv({mx["x"]}) = {mx["y"]}, the {stacked} matrix of the blocks gives {mx["want"]}'
        t = obs['T']
        if 'err' in t:
            return f'.T failed: {t["err"]}'
        if 'unshared' in t:
            if t['outcome'] != 'ValueError':
                return (f'.T: the transposed blocks have mismatching shared structures {t["unshared"]} but their block '
                        f'operator was not refused with ValueError: {t["outcome"]}')
        elif 'skipped' not in t:
            if t['cls'] != TKIND[case['block']]:
                return f'.T is a {t["cls"]}, expected {TKIND[case["block"]]}'
            ttol = 64 * DT_EPS[rt(*t['want_dtypes'])]
            if not cmat_close(t['got'], t['want'], ttol):
                return f'.T.mv({t["y"]}) = {t["got"]}, the blocks\' own transposes applied one by one give {t["want"]}'
            if t['got_dtypes'] != t['want_dtypes']:
                return f'.T.mv returned leaves of dtypes {t["got_dtypes"]}, the blocks\' own transposes give {t["want_dtypes"]}'
            if 'asmat' in t:
                w = t['want_asmat']
                if not cmat_close(t['asmat']['val'], w['val'], 8 * DT_EPS[w['dtype']]) or t['asmat']['dtype'] != w['dtype']:
                    return (f'.T.as_matrix() (dtype {t["asmat"]["dtype"]}) {t["asmat"]["val"]} is not the stacked matrix of the '
                            f'blocks\' own transposes (dtype {w["dtype"]}) {w["val"]}')
        r = obs['reduce']
        if 'err' in r:
            return f'reduce() / its action failed: {r["err"]}'
        if r['in'] != obs['in'] or r['out'] != obs['out']:
            return f'structures changed by reduce(): {r["in"]} -> {r["out"]}'
        if not cmat_close(r['y'], r['want'], 64 * tol):
            return f'reduce().mv({r["x"]}) = {r["y"]}, the {stacked} matrix of the blocks gives {r["want"]}'
        if r['value'] != obs['out']:
            return f'reduce().mv returned a value of structure {r["value"]}, declared {obs["out"]}'
        return None

    def oracle_seq(self, kind, q, o, c, k):
        """op.<steps> (e.g. 'TI' = op.T.I) is the block operator of the blocks' <steps>: class, container, structures,
        block-by-block skeleton, and dense matrix == NumPy transposes / inverses of the blocks' matrices, stacked."""
        name = '.' + '.'.join(q)
        if 'err' in o:
            return f'{name} raised {o["err"]}'
        odd = q.count('T') % 2 == 1
        want_cls = TKIND[kind] if odd else KIND[kind][0]
        if o['skel'][0] != want_cls or len(o['skel'][3]) != len(c['skel'][3]):
            return f'{name} is {o["skel"][0]} with {len(o["skel"][3])} blocks, expected {want_cls} with {len(c["skel"][3])}'
        wi, wo = (c['out'], c['in']) if odd else (c['in'], c['out'])
        ki, ko = (k['out'], k['in']) if odd else (k['in'], k['out'])
        if o['in'] != wi or o['out'] != wo or o['keys']['in'] != ki or o['keys']['out'] != ko:
            return f'{name} has structures {o["keys"]}, expected {ki} -> {ko}'
        if 'blockwise' in o and o['skel'][3] != o['blockwise']:
            return (f'{name} is not the block operator of the blocks\' {name}: blocks {o["skel"][3]}, '
                    f'the blocks alone give {o["blockwise"]}')
        if o.get('want') is None:
            return None      # a singular block: nothing numeric to compare
        if o.get('mat') is None:
            return f'{name} cannot be evaluated: {o.get("mat_error")}'
        for i, (g, w) in enumerate(zip(o.get('blocks') or [], o['want_blocks'])):
            if not A.mat_close(g, w):
                return f'block {i} of {name} has matrix {g}, NumPy on the matrix of block {i} gives {w}'
        if not A.mat_close(o['mat'], o['want']):
            return f'{name} has matrix {o["mat"]}, NumPy on the blocks\' matrices gives {o["want"]}'
        if 'apply_error' in o:
            return f'{name} cannot be applied: {o["apply_error"]}'
        for form in ('dense', 'asmat'):
            if form in o and not A.mat_close(o[form], o['want'], tol=2e-4):
                return (f'{name}{".as_matrix()" if form == "asmat" else " applied to basis vectors"} gives {o[form]}, '
                        f'NumPy on the blocks\' matrices gives {o["want"]}')
        return None


def _shape_of_value(v):
    if v[0] == 'leaf':
        return ['leaf', len(v[1])]
    k, arg, kids = v
    return [k, len(arg) if k == 'dict' else arg, [_shape_of_value(c) for c in kids]]


def _shape_of_struct(s):
    if s[0] == 'leaf':
        return ['leaf', int(np.prod(s[2])) if s[2] else 1]
    k, arg, kids = s
    return [k, len(kids) if k == 'dict' else arg, [_shape_of_struct(c) for c in kids]]
