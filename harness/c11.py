"""C11 - diagonal operators multiply along the requested axes.

Cases are JSON descriptions (values shape + data, axis_destination, leaf shapes + data); `run_impl` builds
the REAL BroadcastDiagonalOperator / DiagonalOperator / DiagonalInverseOperator from them, `model_term`
the corresponding term of Model/Diagonal.v.  The oracle is an independent NumPy implementation of the
element formula of the property (explicit loops over multi-indices); it never looks at the model.
"""
from __future__ import annotations

import itertools
import random
from fractions import Fraction
from math import prod

import lib
from lib import PropertyCheck, clist, cz

_cache: dict = {}


def fx():
    if 'mods' not in _cache:
        import jax
        import jax.numpy as jnp
        import numpy as np
        from furax._base import diagonal
        from furax._base.core import AbstractLinearOperator

        # exceptions are ordinary observations here; filtering their tracebacks costs ~20 ms each
        jax.config.update('jax_traceback_filtering', 'off')
        _cache['mods'] = (jax, jnp, np, diagonal, AbstractLinearOperator)
    return _cache['mods']


def primes_from(start, n):
    out = []
    k = start
    while len(out) < n:
        if k > 1 and all(k % q for q in range(2, int(k**0.5) + 1)):
            out.append(k)
        k += 1
    return out


# input data: distinct primes larger than every value of the diagonal, so that a product d*x identifies
# both the diagonal entry and the input entry it was made from (a wrong permutation cannot hide)
PRIMES = primes_from(101, 200)


def ddata(vs):
    return list(range(1, prod(vs) + 1))


def xdata(sh):
    return PRIMES[: prod(sh)]


def all_shapes(max_rank, dims=(1, 2, 3), min_rank=0):
    out = []
    for r in range(min_rank, max_rank + 1):
        out += [list(t) for t in itertools.product(dims, repeat=r)]
    return out


def axis_specs(nd, lo=-4, hi=4, scalar_hi=3):
    """every scalar axis in [lo, scalar_hi] and every tuple of nd distinct axes in [lo, hi], any order"""
    return list(range(lo, scalar_hi + 1)) + [list(t) for t in itertools.permutations(range(lo, hi + 1), nd)]


def structure(ins):
    jax, jnp, np, diagonal, ALO = fx()
    key = ('st', tuple(map(tuple, ins)))
    if key not in _cache:
        leaves = [jax.ShapeDtypeStruct(tuple(s), jnp.float32) for s in ins]
        _cache[key] = leaves[0] if len(leaves) == 1 else {chr(97 + i): l for i, l in enumerate(leaves)}
    return _cache[key]


def tree_of(ins, xs):
    jax, jnp, np, diagonal, ALO = fx()
    leaves = [jnp.asarray(np.array(x, dtype=np.float32).reshape(tuple(s))) for s, x in zip(ins, xs)]
    return leaves[0] if len(leaves) == 1 else {chr(97 + i): l for i, l in enumerate(leaves)}


def exact(v):
    """float -> int or Fraction, exactly"""
    v = float(v)
    return int(v) if v == int(v) else Fraction(v)


def datas_of(tree):
    jax, jnp, np, diagonal, ALO = fx()
    out = []
    for l in jax.tree.leaves(tree):
        a = np.asarray(l)
        out.append([list(a.shape), [exact(v) for v in a.ravel().tolist()]])
    return out


def shapes_of(tree):
    jax = fx()[0]
    return [list(l.shape) for l in jax.tree.leaves(tree)]


def attempt(f):
    try:
        return ('ok', f())
    except BaseException as e:
        if isinstance(e, (KeyboardInterrupt, SystemExit)):
            raise
        return ('err', type(e).__name__)


def show(r, f=lambda v: v):
    return {'error': r[1]} if r[0] == 'err' else f(r[1])


def axarg(a):
    return a if isinstance(a, int) else tuple(a)


# ----------------------------------------------------------------------------------------------
# the reference: NumPy's broadcasting meaning of "values laid along the destination axes"


def expand_axes(axes, nd):
    """the two scalar conventions of the documentation"""
    if isinstance(axes, int):
        return list(range(axes, axes + nd)) if axes >= 0 else list(range(axes - nd + 1, axes + 1))
    return list(axes)


def ref_leaf(vs, dd, axes, sh, xd, strict):
    """'illegal' (duplicated / incompatible axes, or a shape change for the strict class) or
    (out_shape, data): out[I] = d[I[L + a_k] (0 on unit axes)] * x[I[L + j] (0 on unit axes)]."""
    np = fx()[2]
    nd = len(vs)
    r = len(sh)
    ax = [a if a >= 0 else r + a for a in axes]
    if len(set(ax)) != len(ax):
        return 'illegal'
    L = -min(0, min(ax))
    R = max(0, max(ax) - r + 1)
    T = L + R + r
    dsh = [1] * T
    for k, a in enumerate(ax):
        dsh[L + a] = vs[k]
    xsh = [1] * L + list(sh) + [1] * R
    osh = []
    for a, b in zip(dsh, xsh):
        if a == b or b == 1:
            osh.append(a)
        elif a == 1:
            osh.append(b)
        else:
            return 'illegal'
    if strict and osh != list(sh):
        return 'illegal'
    d = np.array(dd, dtype=object).reshape(tuple(vs))
    x = np.array(xd, dtype=object).reshape(tuple(sh))
    out = []
    for I in np.ndindex(*osh):
        di = tuple(I[L + a] if vs[k] > 1 else 0 for k, a in enumerate(ax))
        xi = tuple(I[L + j] if sh[j] > 1 else 0 for j in range(r))
        out.append(d[di] * x[xi])
    return [osh, out]


def ref_diag_vector(vs, dd, axes, sh):
    """the diagonal of the dense matrix of an accepted strict operator on one leaf"""
    np = fx()[2]
    r = len(sh)
    ax = [a if a >= 0 else r + a for a in axes]
    d = np.array(dd, dtype=object).reshape(tuple(vs))
    return [d[tuple(I[a] if vs[k] > 1 else 0 for k, a in enumerate(ax))] for I in np.ndindex(*sh)]


def pinv(v):
    v = Fraction(v)
    return Fraction(0) if v == 0 else 1 / v


# (None is a pytree *leaf* for furax.tree.is_leaf and has no .ndim: AttributeError, like a Python scalar -
# outside the type annotation and the model)
VTREES = ('dict', 'list', 'tuple')


class Check(PropertyCheck):
    id = 'C11'
    props = ['C11.v']
    static_targets = ['theories/Lemmas/DiagonalL.vo']
    coq_header = (
        'From Coq Require Import ZArith NArith QArith List.\n'
        'From Furax Require Import Model.Axes Model.Diagonal.\n'
        'Import ListNotations.\nOpen Scope Z_scope.'
    )
    shard = 500
    workers = 5
    trusted = [
        'jnp.moveaxis (canonicalize_axis, order construction, lax.transpose element map) and Array.reshape '
        '(row-major data kept) as specified in Model/Axes.v; jnp.broadcast_shapes / the broadcasting product / '
        'jnp.broadcast_to as specified in Model/Diagonal.v (right-aligned shapes, sizes compatible iff equal or 1, '
        'unit axes read at index 0); jnp.diag, jnp.concatenate, jnp.where: checked against JAX on the enumerated '
        'scope only',
        'jax.tree.map / jax.tree.leaves act leaf by leaf in flattening order and keep the tree definition: a pytree '
        'is modelled by its list of leaves; furax.tree.is_leaf distinguishes an array from a container',
        'jax.eval_shape(self.mv, in_structure) yields the shapes of mv and raises what mv raises',
        'floating point: the model computes in an exact ring (Z, Q); inputs are small integers / dyadic rationals '
        'so that float32 arithmetic is exact and both sides are compared exactly',
        'the `diagonal` argument is a JAX array or a non-leaf container (Python scalars, which have no .ndim, are '
        'outside the type annotation and the model)',
        'correspondence harness harness/c11.py',
    ]

    # ------------------------------------------------------------------------------------------
    def cases(self):
        quick = self.tier == 'quick'
        rng = random.Random(self.seed * 7919 + (0 if quick else 1))
        cases = []

        def add(vs, axes, ins, full=False, dd=None, xs=None, aslist=False):
            c = {
                'kind': 'diag',
                'vs': list(vs),
                'dd': dd if dd is not None else ddata(vs),
                'axes': axes,
                'ins': [list(s) for s in ins],
                'xs': xs if xs is not None else [xdata(s) for s in ins],
            }
            if full:
                c['full'] = True
            if aslist:
                c['aslist'] = True
            cases.append(c)

        vshapes = all_shapes(2, min_rank=1)
        # (a) E: leaf shapes over dims {1,2,3} x value shapes of rank 1-2 x every scalar axis in [-4,3] and every
        #     tuple of distinct axes in [-4,4]: ALL of them for leaves of rank <= 2 (thorough: rank <= 3),
        #     a seeded sample of the rank-3 leaves in the quick tier
        for sh in all_shapes(3):
            r = len(sh)
            for vs in vshapes:
                for axes in axis_specs(len(vs)):
                    if r <= 2 or not quick or rng.random() < 0.06:
                        add(vs, axes, [sh], full=rng.random() < 0.01)
        # (b) pytrees whose leaves have different ranks
        trees = [[[3], [2, 3]], [[2, 3], [3]], [[3, 3], [3]], [[2], [2, 3, 2]], [[], [2]], [[1, 3], [3], [2, 1, 3]]]
        if not quick:
            trees += [[[2, 3, 2], [2, 3]], [[3], [3, 1]], [[2, 2], [2]], [[], [3], [3, 3]], [[2, 3], [2, 3]]]
        tvs = [[2], [3], [1], [2, 3], [3, 3], [3, 2], [3, 1], [2, 2]]
        for ins in trees:
            for vs in tvs:
                for axes in axis_specs(len(vs)):
                    if not quick or rng.random() < (1.0 if len(vs) == 1 else 0.25):
                        add(vs, axes, ins, full=rng.random() < 0.01)
        # (c) malformed stream: repeated axes as written, wrong tuple lengths, the empty tuple, lists
        reps = [[], [3], [2, 3], [3, 3], [2, 3, 2]]
        for sh in reps:
            for vs in ([2], [3], [2, 3], [3, 3], [3, 2]):
                nd = len(vs)
                for a in range(-4, 5):
                    if nd == 2:
                        add(vs, [a, a], [sh])
                add(vs, [], [sh])
                for t in itertools.product(range(-3, 4), repeat=nd + 1):
                    if rng.random() < (0.05 if quick else 0.5):
                        add(vs, list(t), [sh])
                if nd == 2:
                    for a in range(-4, 5):
                        if rng.random() < (0.5 if quick else 1.0):
                            add(vs, [a], [sh])
                for axes in axis_specs(nd):
                    if not isinstance(axes, int) and rng.random() < 0.05:
                        add(vs, axes, [sh], aslist=True)
        # (d) values that are not an array of rank >= 1
        for sh in ([3], [2, 3]):
            for axes in (-1, 0, [0], [0, 1]):
                add([], axes, [sh], dd=[2])
                for t in VTREES:
                    cases.append({'kind': 'diag', 'vtree': t, 'vs': [3], 'dd': [1, 2, 3], 'axes': axes, 'ins': [sh], 'xs': [xdata(sh)]})
        # (e) rank-3 values, ranks up to 4, larger axes: seeded random beyond the enumerated scope
        for _ in range(300 if quick else 6000):
            r = rng.randint(0, 4)
            sh = [rng.choice([1, 2, 3]) for _ in range(r)]
            nd = rng.randint(1, 3)
            if rng.random() < 0.5:
                axes = rng.randint(-6, 5)
                n = nd
            else:
                n = nd if rng.random() < 0.9 else rng.choice([max(0, nd - 1), nd + 1])
                axes = rng.sample(range(-6, 7), n)
            # mostly compatible value shapes: take the size of the axis the value lands on (or 1, or any)
            ex = expand_axes(axes, nd)
            vs = []
            for k in range(nd):
                a = ex[k] if k < len(ex) else 0
                a = a if a >= 0 else r + a
                tgt = sh[a] if 0 <= a < r else rng.choice([1, 2, 3])
                vs.append(rng.choice([tgt, tgt, tgt, 1, rng.choice([1, 2, 3])]))
            if prod(vs) * prod(sh) <= 200:
                add(vs, axes, [sh], full=rng.random() < 0.02)
        # (f) DiagonalInverseOperator: values with zeros, dyadic rationals
        pool = [0, 1, 2, -2, 4, Fraction(1, 2), -4, 8, 0, Fraction(1, 4)]
        ishapes = [([3], [3], 0), ([3], [2, 3], -1), ([2], [2, 3], 0), ([2, 3], [2, 3], 0), ([3, 2], [2, 3], [1, 0]),
                   ([1], [2, 2], 0), ([2], [2], -1), ([2, 1], [2, 3], [0, 1]), ([2], [2, 3, 2], -3), ([2, 3], [3], 0),
                   ([3], [1, 3], 1)]
        for vs, sh, axes in ishapes:
            for rot in range(3 if quick else 8):
                dd = [pool[(i * 3 + rot) % len(pool)] for i in range(prod(vs))]
                cases.append({'kind': 'inverse', 'vs': vs, 'dd': [str(Fraction(v)) for v in dd], 'axes': axes,
                              'ins': [sh], 'xs': [[str(Fraction(v, 1)) for v in [1, 2, -4, 8, 2, -2, 4, 1, 2, 4, 8, -1][: prod(sh)]]]})
        cases.append({'kind': 'inverse', 'vs': [3], 'dd': ['0', '2', '1/2'], 'axes': 0,
                      'ins': [[3], [3, 2]], 'xs': [['1', '2', '4'], ['1', '2', '4', '8', '-2', '-4']]})
        # the thorough tier enumerates scope (a) - the DESIGN scope E - completely (the other streams are samples)
        self.exhaustive = not quick
        return cases

    def search_cases(self):
        if self.tier != 'quick':
            return []
        other = type(self)('thorough', self.seed + 1)
        cs = other.cases()
        random.Random(self.seed).shuffle(cs)
        return cs[:4000]

    def rule(self):
        return (
            'diag: (a) ALL leaf shapes of rank <= 2 (thorough: <= 3) over dims {1,2,3} x ALL value shapes of rank 1-2 '
            'over {1,2,3} x EVERY scalar axis in [-4,3] and EVERY tuple of distinct axes in [-4,4] in every order, both '
            'classes per case (quick: 6% seeded sample of the rank-3 leaves); (b) pytrees with leaves of different '
            'rank x 8 value shapes x the same axis specifications; (c) malformed: repeated axes as written, the empty '
            'tuple, tuples shorter/longer than values.ndim, list-typed axis_destination; (d) rank-0 values, dict / '
            'list / tuple / None values; (e) seeded random: ranks <= 4, rank-3 values, axes in [-6,6]; (f) '
            'DiagonalInverseOperator on values with zeros and dyadic rationals.  Input leaves hold distinct primes '
            '> 100 and the values 1..n, so every product identifies the two entries it came from.  Non-trivial: the '
            'constructor of at least one class accepted, or rejected for a reason other than a malformed value.'
        )

    def distribution(self, cases):
        d: dict = {}
        for c in cases:
            a = c['axes']
            k = f"{c['kind']}/v{len(c['vs'])}/{'int' if isinstance(a, int) else 'tuple' + str(len(a))}/rank" + ','.join(
                str(len(s)) for s in c['ins'])
            if 'vtree' in c:
                k = 'diag/vtree'
            d[k] = d.get(k, 0) + 1
        return d

    def nontrivial(self, case, obs):
        return 'vtree' not in case and len(case['vs']) > 0

    # ------------------------------------------------------------------------------------------
    def values_of(self, case):
        jax, jnp, np, diagonal, ALO = fx()
        if case['kind'] == 'inverse':
            d = jnp.asarray(np.array([float(Fraction(v)) for v in case['dd']], dtype=np.float32).reshape(tuple(case['vs'])))
            return d
        d = jnp.asarray(np.array(case['dd'], dtype=np.float32).reshape(tuple(case['vs'])))
        t = case.get('vtree')
        if t == 'dict':
            return {'a': d}
        if t == 'list':
            return [d, d]
        if t == 'tuple':
            return (d,)
        return d

    def run_impl(self, case):
        jax, jnp, np, diagonal, ALO = fx()
        ins = case['ins']
        st = structure(ins)
        d = self.values_of(case)
        axes = axarg(case['axes'])
        if case.get('aslist'):
            axes = list(axes)
        if case['kind'] == 'inverse':
            return self.run_inverse(case, d, axes, st)
        x = tree_of(ins, case['xs'])
        res = []
        for cls in (diagonal.BroadcastDiagonalOperator, diagonal.DiagonalOperator):
            op = attempt(lambda: cls(d, axis_destination=axes, in_structure=st))
            if op[0] == 'err':
                res.append({'error': op[1]})
                continue
            op = op[1]
            strict = cls is diagonal.DiagonalOperator
            o = [
                [int(a) for a in op.axis_destination],
                show(attempt(lambda: shapes_of(op.out_structure()))),
                show(attempt(lambda: datas_of(op(x)))),
            ]
            if strict:

                def vec():
                    m = np.asarray(op.as_matrix())
                    v = np.diag(m)
                    if m.shape == (v.size, v.size) and (m == np.diag(v)).all():
                        return [exact(t) for t in v.tolist()]
                    return {'not_diagonal': [[exact(t) for t in row] for row in m.tolist()]}

                o.append(show(attempt(vec)))
            else:
                o.append([])
            extra = None
            if case.get('full'):
                # the remaining clause of the property ("depends on nothing but values, axes and input") and the
                # dense form against the generic column-by-column construction
                def more():
                    again = datas_of(op(x))
                    other = cls(self.values_of(case), axis_destination=axes, in_structure=structure(ins))
                    fresh = datas_of(jax.jit(lambda t: other.mv(t))(x))
                    gen = None
                    if strict:
                        gen = bool((np.asarray(op.as_matrix()) == np.asarray(ALO.as_matrix(op))).all())
                    return {'again': again == o[2], 'fresh_jit': fresh == o[2], 'generic_as_matrix': gen}

                extra = show(attempt(more))
            o.append(extra)
            res.append(o)
        return res

    def run_inverse(self, case, d, axes, st):
        jax, jnp, np, diagonal, ALO = fx()
        op = attempt(lambda: diagonal.DiagonalOperator(d, axis_destination=axes, in_structure=st))
        if op[0] == 'err':
            return {'error': op[1]}
        op = op[1]
        iop = attempt(lambda: op.I)
        if iop[0] == 'err':
            return {'error': iop[1]}
        iop = iop[1]
        xs = [[float(Fraction(v)) for v in x] for x in case['xs']]
        x = tree_of(case['ins'], xs)

        def vec():
            m = np.asarray(iop.as_matrix())
            v = np.diag(m)
            if (m == np.diag(v)).all():
                return [exact(t) for t in v.tolist()]
            return {'not_diagonal': m.tolist()}

        return [
            type(iop).__name__,
            [exact(v) for v in np.asarray(iop.diagonal).ravel().tolist()],
            show(attempt(lambda: datas_of(iop(x)))),
            show(attempt(lambda: datas_of(iop(op(x))))),
            show(attempt(vec)),
            iop.I is op,
        ]

    def comparable(self, case, obs):
        if case['kind'] == 'inverse':
            return obs[1:5] if isinstance(obs, list) else obs
        if isinstance(obs, list):
            return [o[:4] if isinstance(o, list) else o for o in obs]
        return obs

    # ------------------------------------------------------------------------------------------
    def model_term(self, case):
        cn = lambda n: f'{int(n)}%nat'
        shp = lambda s: clist(s, cn)
        ins = clist(case['ins'], shp)
        a = case['axes']
        arg = f'(AInt {cz(a)})' if isinstance(a, int) else f'(ASeq {clist(a, cz)})'
        if case['kind'] == 'inverse':
            q = lambda v: lib.cq(Fraction(v))
            xs = clist(case['xs'], lambda x: clist(x, q))
            return f'obs_inverse {shp(case["vs"])} {clist(case["dd"], q)} {arg} {ins} {xs}'
        v = 'VTree' if 'vtree' in case else f'(VLeaf {shp(case["vs"])})'
        xs = clist(case['xs'], lambda x: clist(x, cz))
        return f'obs_both {v} {clist(case["dd"], cz)} {arg} {ins} {xs}'

    def decode(self, case, v):
        def conv(x):
            if isinstance(x, dict) and 'c' in x:
                if x['c'] == 'Ok':
                    return conv(x['a'][0])
                if x['c'] == 'Err':
                    return {'error': x['a'][0]['c']}
                return x['c']
            if isinstance(x, (list, tuple)):
                return [conv(i) for i in x]
            return x

        return conv(v)

    # ------------------------------------------------------------------------------------------
    def oracle(self, case, obs):
        if case['kind'] == 'inverse':
            return self.oracle_inverse(case, obs)
        vs, dd, ins, xs = case['vs'], case['dd'], case['ins'], case['xs']
        what = f'values{"(" + case["vtree"] + ")" if "vtree" in case else ""} shape {vs}, axis_destination={case["axes"]}, leaves {ins}'
        names = ('BroadcastDiagonalOperator', 'DiagonalOperator')
        if 'vtree' in case or len(vs) == 0:
            for nm, o in zip(names, obs):
                if not isinstance(o, dict):
                    return f'{nm}: {"pytree-valued" if "vtree" in case else "scalar"} values accepted ({what})'
            return None
        nd = len(vs)
        axes = expand_axes(case['axes'], nd)
        if len(axes) != nd:
            # not an axis specification in the sense of the documentation ("as many axes as dimensions"):
            # outside the property; modelled and compared all the same
            self.stats['wrong_length_tuples'] = self.stats.get('wrong_length_tuples', 0) + 1
            return None
        for strict, nm, o in zip((False, True), names, obs):
            ref = [ref_leaf(vs, dd, axes, sh, x, strict) for sh, x in zip(ins, xs)]
            if 'illegal' in ref:
                if not isinstance(o, dict):
                    return f'{nm} accepted an illegal specification ({what}): leaf results {ref}'
                continue
            if isinstance(o, dict):
                return f'{nm} rejected a legal specification with {o} ({what}); expected out shapes {[e[0] for e in ref]}'
            stored, out, y, vec, extra = o
            if stored != axes:
                return f'{nm}: axis_destination stored as {stored}, documented tuple {axes} ({what})'
            if out != [e[0] for e in ref]:
                return f'{nm}: out_structure {out}, reference {[e[0] for e in ref]} ({what})'
            if y != lib.canon(ref):
                return f'{nm}: op(x) = {y} differs from the broadcast product {lib.canon(ref)} ({what}; d={dd}, x={xs})'
            if strict:
                dv = lib.canon(sum((ref_diag_vector(vs, dd, axes, sh) for sh in ins), []))
                if vec != dv:
                    return f'{nm}: as_matrix() diagonal {vec}, reference {dv} ({what})'
            if isinstance(extra, dict):
                if 'error' in extra:
                    return f'{nm}: repeated evaluation raised {extra} ({what})'
                if not extra['again'] or not extra['fresh_jit']:
                    return f'{nm}: result depends on something else than values, axes and input: {extra} ({what})'
                if extra['generic_as_matrix'] is False:
                    return f'{nm}: as_matrix() differs from the generic column-by-column dense form ({what})'
        return None

    def oracle_inverse(self, case, obs):
        vs, ins = case['vs'], case['ins']
        dd = [Fraction(v) for v in case['dd']]
        xs = [[Fraction(v) for v in x] for x in case['xs']]
        what = f'DiagonalOperator(values {case["dd"]} shape {vs}, axis_destination={case["axes"]}) on {ins}'
        axes = expand_axes(case['axes'], len(vs))
        ref = [ref_leaf(vs, dd, axes, sh, x, True) for sh, x in zip(ins, xs)]
        if 'illegal' in ref:
            return None if isinstance(obs, dict) else f'{what}: illegal specification accepted'
        if isinstance(obs, dict):
            return f'{what}: .I raised {obs}'
        name, idiag, iy, iopy, vec, back = obs
        di = [pinv(v) for v in dd]
        if name != 'DiagonalInverseOperator' or not back:
            return f'{what}: .I is a {name}, .I.I is the operator: {back}'
        if idiag != lib.canon(di):
            return f'{what}: .I.diagonal = {idiag}, expected where(d != 0, 1/d, 0) = {lib.canon(di)}'
        ri = [ref_leaf(vs, di, axes, sh, x, True) for sh, x in zip(ins, xs)]
        if iy != lib.canon(ri):
            return f'{what}: op.I(x) = {iy}, reference {lib.canon(ri)}'
        # op.I(op(x)) = x where the value is non-zero, 0 elsewhere
        proj = [1 if v != 0 else 0 for v in dd]
        rp = [ref_leaf(vs, proj, axes, sh, x, True) for sh, x in zip(ins, xs)]
        if iopy != lib.canon(rp):
            return f'{what}: op.I(op(x)) = {iopy}, reference {lib.canon(rp)}'
        dv = lib.canon(sum((ref_diag_vector(vs, di, axes, sh) for sh in ins), []))
        if vec != dv:
            return f'{what}: op.I.as_matrix() diagonal {vec}, reference {dv}'
        return None
