"""C11 - diagonal operators multiply along the requested axes.

Cases are JSON descriptions (values shape + data, axis_destination, leaf shapes + data); `run_impl` builds
the REAL BroadcastDiagonalOperator / DiagonalOperator / DiagonalInverseOperator from them, `model_term`
the corresponding term of Model/Diagonal.v.  The oracle is an independent NumPy implementation of the
element formula of the property (explicit loops over multi-indices); it never looks at the model.

Pytrees of several leaves of the SAME rank (stream h) carry `tree` (container) and `solo` (every leaf is also run
alone: no state may be carried from one leaf to the next, the verdict and the results are decided leaf by leaf).

The `dtype` stream (stored values of one dtype x leaves of other dtypes, mixed-dtype pytrees, both x64 modes)
is ORACLE-ONLY: the Coq model computes in an exact ring and has no dtypes.  Its reference is the same explicit
element formula evaluated with NumPy scalars of the JAX-promoted result dtype (closed table `promote`), compared
exactly, result dtype included.  Cases of the x64 mode that is not the driver's run in a worker subprocess
(`python c11.py --worker`, JAX_ENABLE_X64 set accordingly).
"""
from __future__ import annotations

import atexit
import itertools
import json
import os
import random
import subprocess
import sys
import warnings
from fractions import Fraction
from math import prod
from pathlib import Path

sys.path.insert(0, str(Path(__file__).parent))

import lib  # noqa: E402
from lib import PropertyCheck, clist, cz  # noqa: E402

_cache: dict = {}


def fx():
    if 'mods' not in _cache:
        import jax
        import jax.numpy as jnp
        import numpy as np
        from furax._base import diagonal
        from furax._base.core import AbstractLinearOperator

        # exceptions are ordinary observations here; filtering their tracebacks costs ~20 ms each
        jax.config.update('jax_traceback_filtering', 'off')
        _cache['mods'] = (jax, jnp, np, diagonal, AbstractLinearOperator)
    return _cache['mods']


def primes_from(start, n):
    out = []
    k = start
    while len(out) < n:
        if k > 1 and all(k % q for q in range(2, int(k**0.5) + 1)):
            out.append(k)
        k += 1
    return out


# input data: distinct primes larger than every value of the diagonal, so that a product d*x identifies
# both the diagonal entry and the input entry it was made from (a wrong permutation cannot hide)
PRIMES = primes_from(101, 200)


def ddata(vs):
    return list(range(1, prod(vs) + 1))


def xdata(sh):
    return PRIMES[: prod(sh)]


def all_shapes(max_rank, dims=(1, 2, 3), min_rank=0):
    out = []
    for r in range(min_rank, max_rank + 1):
        out += [list(t) for t in itertools.product(dims, repeat=r)]
    return out


def axis_specs(nd, lo=-4, hi=4, scalar_hi=3):
    """every scalar axis in [lo, scalar_hi] and every tuple of nd distinct axes in [lo, hi], any order"""
    return list(range(lo, scalar_hi + 1)) + [list(t) for t in itertools.permutations(range(lo, hi + 1), nd)]


TREES = ('dict', 'list', 'tuple', 'nested')


def box(leaves, tree=None):
    """the pytree holding the leaves, in THIS flattening order (jax.tree.leaves: dict keys sorted, sequences in
    order).  Default: the bare leaf, or a dict 'a', 'b', ... for several leaves."""
    leaves = list(leaves)
    if tree is None:
        return leaves[0] if len(leaves) == 1 else {chr(97 + i): l for i, l in enumerate(leaves)}
    if tree == 'dict':
        return {chr(97 + i): l for i, l in enumerate(leaves)}
    if tree == 'list':
        return leaves
    if tree == 'tuple':
        return tuple(leaves)
    if tree == 'nested':
        return {'a': [leaves[0]], 'b': tuple(leaves[1:])}
    raise ValueError(tree)


def structure(ins, tree=None):
    jax, jnp, np, diagonal, ALO = fx()
    key = ('st', tuple(map(tuple, ins)), tree)
    if key not in _cache:
        _cache[key] = box([jax.ShapeDtypeStruct(tuple(s), jnp.float32) for s in ins], tree)
    return _cache[key]


def tree_of(ins, xs, tree=None):
    jax, jnp, np, diagonal, ALO = fx()
    return box([jnp.asarray(np.array(x, dtype=np.float32).reshape(tuple(s))) for s, x in zip(ins, xs)], tree)


def exact(v):
    """float -> int or Fraction, exactly"""
    v = float(v)
    return int(v) if v == int(v) else Fraction(v)


def datas_of(tree):
    jax, jnp, np, diagonal, ALO = fx()
    out = []
    for l in jax.tree.leaves(tree):
        a = np.asarray(l)
        out.append([list(a.shape), [exact(v) for v in a.ravel().tolist()]])
    return out


def shapes_of(tree):
    jax = fx()[0]
    return [list(l.shape) for l in jax.tree.leaves(tree)]


def attempt(f):
    try:
        return ('ok', f())
    except BaseException as e:
        if isinstance(e, (KeyboardInterrupt, SystemExit)):
            raise
        return ('err', type(e).__name__)


def show(r, f=lambda v: v):
    return {'error': r[1]} if r[0] == 'err' else f(r[1])


def axarg(a):
    return a if isinstance(a, int) else tuple(a)


# ----------------------------------------------------------------------------------------------
# the reference: NumPy's broadcasting meaning of "values laid along the destination axes"


def expand_axes(axes, nd):
    """the two scalar conventions of the documentation"""
    if isinstance(axes, int):
        return list(range(axes, axes + nd)) if axes >= 0 else list(range(axes - nd + 1, axes + 1))
    return list(axes)


def ref_shape(vs, axes, sh):
    """'illegal' (duplicated / incompatible axes) or (ax, L, osh): the normalised axes, the number of axes added on
    the left, and the NumPy broadcast of the values laid along the axes with the leaf"""
    r = len(sh)
    ax = [a if a >= 0 else r + a for a in axes]
    if len(set(ax)) != len(ax):
        return 'illegal'
    L = -min(0, min(ax))
    R = max(0, max(ax) - r + 1)
    T = L + R + r
    dsh = [1] * T
    for k, a in enumerate(ax):
        dsh[L + a] = vs[k]
    xsh = [1] * L + list(sh) + [1] * R
    osh = []
    for a, b in zip(dsh, xsh):
        if a == b or b == 1:
            osh.append(a)
        elif a == 1:
            osh.append(b)
        else:
            return 'illegal'
    return ax, L, osh


def verdict(vs, axes, sh):
    """what the property says of ONE leaf: 'S' legal for both classes (shape kept), 'B' legal for the broadcast
    class only (the shape changes), 'X' illegal"""
    rs = ref_shape(vs, axes, sh)
    return 'X' if rs == 'illegal' else 'S' if rs[2] == list(sh) else 'B'


def ref_leaf(vs, dd, axes, sh, xd, strict):
    """'illegal' (duplicated / incompatible axes, or a shape change for the strict class) or
    (out_shape, data): out[I] = d[I[L + a_k] (0 on unit axes)] * x[I[L + j] (0 on unit axes)]."""
    np = fx()[2]
    r = len(sh)
    rs = ref_shape(vs, axes, sh)
    if rs == 'illegal':
        return 'illegal'
    ax, L, osh = rs
    if strict and osh != list(sh):
        return 'illegal'
    d = np.array(dd, dtype=object).reshape(tuple(vs))
    x = np.array(xd, dtype=object).reshape(tuple(sh))
    out = []
    for I in np.ndindex(*osh):
        di = tuple(I[L + a] if vs[k] > 1 else 0 for k, a in enumerate(ax))
        xi = tuple(I[L + j] if sh[j] > 1 else 0 for j in range(r))
        out.append(d[di] * x[xi])
    return [osh, out]


def ref_diag_vector(vs, dd, axes, sh):
    """the diagonal of the dense matrix of an accepted strict operator on one leaf"""
    np = fx()[2]
    r = len(sh)
    ax = [a if a >= 0 else r + a for a in axes]
    d = np.array(dd, dtype=object).reshape(tuple(vs))
    return [d[tuple(I[a] if vs[k] > 1 else 0 for k, a in enumerate(ax))] for I in np.ndindex(*sh)]


def pinv(v):
    v = Fraction(v)
    return Fraction(0) if v == 0 else 1 / v


# ----------------------------------------------------------------------------------------------
# the dtype stream (oracle-only): stored values of one dtype applied to leaves of other dtypes


def x64_mode() -> bool:
    return bool(fx()[0].config.jax_enable_x64)


DTYPES = ('int32', 'float16', 'float32', 'float64', 'complex64', 'complex128')
# (kind, width of the real component); kinds ordered int < float < complex
DT_INFO = {'int32': ('i', 0), 'float16': ('f', 16), 'float32': ('f', 32), 'float64': ('f', 64),
           'complex64': ('c', 32), 'complex128': ('c', 64)}


def squash(dt: str, x64: bool) -> str:
    """the dtype an array of the requested dtype really has: 64-bit types do not exist with x64 disabled"""
    if x64:
        return dt
    return {'float64': 'float32', 'complex128': 'complex64'}.get(dt, dt)


def promote(a: str, b: str) -> str:
    """JAX's type promotion on the dtypes of this stream, written as a closed rule (NOT NumPy's, which makes
    int32 * float16 a float64): the higher kind wins (int < float < complex), the real component is as wide as
    the widest inexact operand, at least 32 bits for a complex result; integers contribute no width."""
    (ka, wa), (kb, wb) = DT_INFO[a], DT_INFO[b]
    w = max(wa, wb)
    if 'c' in (ka, kb):
        return 'complex128' if w == 64 else 'complex64'
    if 'f' in (ka, kb):
        return f'float{w}'
    return 'int32'


def to_inexact(dt: str) -> str:
    """dtype of 1 / d (true division): an int32 array becomes float32 in both x64 modes"""
    return 'float32' if DT_INFO[dt][0] == 'i' else dt


# entries that make a cast VISIBLE: half-integers (lost in an integer dtype), non-zero imaginary parts (lost in a
# real dtype), 2049 / 4097 (not float16 numbers), 16777217 (not a float32 number), magnitudes > 65504 (inf in float16)
VPOOL = {
    'int32': [3, 2049, -2, 16777217, 5, 1, -4097, 7, 4],
    'float16': [0.5, 1.5, -2.5, 2048.0, 0.25, 3.0, -1.5, 6.5, 2.0],
    'float32': [0.5, 2049.0, -2.5, 1.5, 4097.0, 0.25, 3.0, -1.5, 2.0],
    'float64': [0.5, 16777217.0, -2.5, 2049.0, 1.5, 0.25, 3.0, -1.5, 2.0],
    'complex64': [[1, 2], [0.5, -1], [0, 3], [2049, 1], [-2.5, 0.5], [2, -1], [1.5, 1.5], [-1, -3], [4, 1]],
    'complex128': [[1, 2], [16777217, -1], [0.5, 3], [2049, 1], [-2.5, 0.5], [2, -1], [1.5, 1.5], [-1, -3], [4, 1]],
}
XPOOL = {
    'int32': [2, 3, 5, 7, 1, 4, 6, 9, 8, 10, 11, 12],
    'float16': [1.5, 2.0, -0.5, 3.0, 0.25, 5.0, 2.5, -3.0, 7.0, 0.5, 4.0, 6.0],
    'float32': [1.5, 2.0, -0.5, 3.0, 0.25, 5.0, 2049.0, -3.0, 7.0, 0.5, 4.0, 6.0],
    'float64': [1.5, 16777217.0, -0.5, 3.0, 0.25, 5.0, 2049.0, -3.0, 7.0, 0.5, 4.0, 6.0],
    'complex64': [[1, 1], [2, -1], [0.5, 2], [0, 3], [3, 0.5], [-1, 2], [2049, 1], [1.5, -1.5], [0, -1], [4, 1], [5, 2], [-2, -3]],
    'complex128': [[1, 1], [2, -1], [0.5, 2], [0, 3], [16777217, 0.5], [-1, 2], [2049, 1], [1.5, -1.5], [0, -1], [4, 1], [5, 2], [-2, -3]],
}
# values of the inverse stream: zeros, and entries whose reciprocal is exact (powers of two, Gaussian units)
IPOOL = {
    'int32': [1, 2, -4, 0, 8, -1, 16, 2, 0],
    'float16': [0.5, 2.0, -4.0, 0.0, 0.25, 1.0, -8.0, 16.0, 0.125],
    'float32': [0.5, 2.0, -4.0, 0.0, 0.25, 2.0**-20, -8.0, 16.0, 1.0],
    'float64': [0.5, 2.0, -4.0, 0.0, 0.25, 2.0**-20, -8.0, 2.0**-30, 1.0],
    'complex64': [[1, 1], [0, 2], [-4, 0], [0, 0], [0.5, -0.5], [1, 0], [0, -2], [1, -1], [8, 0]],
    'complex128': [[1, 1], [0, 2], [-4, 0], [0, 0], [0.5, -0.5], [2.0**-30, 0], [0, -2], [1, -1], [8, 0]],
}


def pool_data(pool, dt, n, rot=0):
    p = pool[dt]
    return [p[(i + rot) % len(p)] for i in range(n)]


def np_array(data, dt, shape):
    np = fx()[2]
    flat = [complex(v[0], v[1]) if isinstance(v, list) else v for v in data]
    return np.array(flat, dtype=dt).reshape(tuple(shape))


def enc(v):
    """a NumPy / Python scalar -> exact JSON-able value (complex: [re, im]; non-finite: its name)"""
    np = fx()[2]
    if isinstance(v, (complex, np.complexfloating)):
        return [enc(v.real), enc(v.imag)]
    v = float(v)
    if v != v or v in (float('inf'), float('-inf')):
        return str(v)
    return exact(v)


def enc_array(a):
    np = fx()[2]
    a = np.asarray(a)
    return [str(a.dtype), list(a.shape), [enc(v) for v in a.ravel()]]


def dtype_impl(case):
    """Observation of the real operator on one dtype case (in the process whose x64 mode is the case's)."""
    with warnings.catch_warnings():
        # x64 off: a requested 64-bit dtype is silently its 32-bit counterpart; as_matrix of complex values in a
        # real input dtype warns about the discarded imaginary part
        warnings.simplefilter('ignore')
        return _dtype_impl(case)


def _dtype_impl(case):
    jax, jnp, np, diagonal, ALO = fx()
    assert x64_mode() == bool(case['x64']), 'x64 mode mismatch'
    d = jnp.asarray(np_array(case['dd'], case['vdt'], case['vs']))
    leaves = [jnp.asarray(np_array(x, dt, sh)) for x, dt, sh in zip(case['xs'], case['ldts'], case['ins'])]
    box = lambda ls: ls[0] if len(ls) == 1 else {chr(97 + i): l for i, l in enumerate(ls)}  # noqa: E731
    x = box(leaves)
    st = box([jax.ShapeDtypeStruct(l.shape, l.dtype) for l in leaves])
    axes = axarg(case['axes'])
    cls = diagonal.BroadcastDiagonalOperator if case['cls'] == 'broadcast' else diagonal.DiagonalOperator
    out = {'stored': [str(d.dtype)] + [str(l.dtype) for l in leaves]}
    op = attempt(lambda: cls(d, axis_destination=axes, in_structure=st))
    if op[0] == 'ok' and case['cls'] == 'inverse':
        op = attempt(lambda: op[1].I)
    if op[0] == 'err':
        out['error'] = op[1]
        return out
    op = op[1]
    out['class'] = type(op).__name__
    out['diagonal'] = show(attempt(lambda: enc_array(op.diagonal)))
    out['out'] = show(attempt(lambda: [[str(l.dtype), list(l.shape)] for l in jax.tree.leaves(op.out_structure())]))
    out['y'] = show(attempt(lambda: [enc_array(l) for l in jax.tree.leaves(op(x))]))
    if case.get('jit'):
        out['jit'] = show(attempt(lambda: [enc_array(l) for l in jax.tree.leaves(jax.jit(lambda t: op.mv(t))(x))]))
    if case['cls'] != 'broadcast':

        def mat():
            m = np.asarray(op.as_matrix())
            v = np.diag(m)
            if m.shape == (v.size, v.size) and (m == np.diag(v)).all():
                return enc_array(v)
            return {'not_diagonal': enc_array(m)}

        out['matrix'] = show(attempt(mat))
    return out


def dtype_reference(case):
    """What the property demands, from the case alone: for every leaf, the element formula `ref_leaf` evaluated on
    NumPy scalars of the promoted result dtype (both operands converted to it first, as NumPy/JAX do)."""
    np = fx()[2]
    x64 = bool(case['x64'])
    vdt = squash(case['vdt'], x64)
    ldts = [squash(dt, x64) for dt in case['ldts']]
    with warnings.catch_warnings(), np.errstate(all='ignore'):
        warnings.simplefilter('ignore')
        d = np_array(case['dd'], case['vdt'], case['vs']).astype(vdt)
        if case['cls'] == 'inverse':
            vdt = to_inexact(vdt)
            d = d.astype(vdt)
            one = np.ones((), dtype=vdt)
            d = np.where(d != 0, one / np.where(d != 0, d, one), np.zeros((), dtype=vdt)).astype(vdt)
        axes = expand_axes(case['axes'], len(case['vs']))
        strict = case['cls'] != 'broadcast'
        ys = []
        for sh, dt, xdata_ in zip(case['ins'], ldts, case['xs']):
            rd = promote(vdt, dt)
            xa = np_array(xdata_, case['ldts'][len(ys)], sh).astype(dt).astype(rd)
            r = ref_leaf(case['vs'], list(d.astype(rd).ravel()), axes, sh, list(xa.ravel()), strict)
            if r == 'illegal':
                return {'illegal': True}
            ys.append([rd, r[0], [enc(v) for v in r[1]]])
        ref = {'stored': [squash(case['vdt'], x64)] + ldts, 'vdt': vdt, 'diagonal': [vdt, list(d.shape), [enc(v) for v in d.ravel()]], 'y': ys}
        if strict:
            # the dense form of the @square class is declared in the promoted dtype P of the INPUT leaves; it can
            # hold the stored values only if they are not wider than P (C05's guard `params_not_wider`)
            P = ldts[0]
            for dt in ldts[1:]:
                P = promote(P, dt)
            ref['P'] = P
            if promote(vdt, P) == P:
                dv = []
                for sh in case['ins']:
                    dv += ref_diag_vector(case['vs'], list(d.astype(P).ravel()), axes, sh)
                ref['matrix'] = [P, [len(dv)], [enc(v) for v in dv]]
    return ref


# ---- worker processes (one per x64 mode that differs from the driver's), protocol as in harness/c17.py


def worker_main():
    out = sys.stdout
    sys.stdout = sys.stderr  # keep the protocol channel clean
    for line in sys.stdin:
        req = json.loads(line)
        try:
            res = {'ok': lib.canon(dtype_impl(req['case']))}
        except Exception as e:  # reported to the driver as a harness error
            import traceback

            res = {'err': f'{type(e).__name__}: {e}', 'tb': traceback.format_exc()[-1500:]}
        out.write(json.dumps(res) + '\n')
        out.flush()


_workers: dict = {}


def ask(x64: bool, case: dict):
    if x64 not in _workers:
        env = dict(os.environ)
        env['JAX_ENABLE_X64'] = '1' if x64 else '0'
        env['PYTHONPATH'] = str(lib.REPO / 'src')
        env['JAX_PLATFORMS'] = 'cpu'
        p = subprocess.Popen([sys.executable, str(Path(__file__).resolve()), '--worker'], stdin=subprocess.PIPE,
                             stdout=subprocess.PIPE, stderr=subprocess.DEVNULL, text=True, env=env)
        _workers[x64] = p
        atexit.register(p.kill)
    p = _workers[x64]
    p.stdin.write(json.dumps({'case': case}) + '\n')
    p.stdin.flush()
    line = p.stdout.readline()
    if not line:
        raise RuntimeError('x64 worker died')
    res = json.loads(line)
    if 'err' in res:
        raise RuntimeError(res['err'] + '\n' + res.get('tb', ''))
    return res['ok']


# layouts of the dtype stream: (values shape, axis_destination, leaf shapes); legal except where said
DT_BROADCAST = [([3], 0, [[3]]), ([3], 0, [[3, 2]]), ([2], -2, [[3]]), ([3], 1, [[2]]), ([2, 3], [1, 0], [[3, 2]]),
                ([3], -1, [[3], [2, 3]]), ([2], 0, [[2], [2, 3]]), ([2], [-3], [[2, 2], [3]]),
                ([3], 0, [[3, 2], [1, 2]])]  # same rank, the second leaf changes shape
DT_STRICT = [([3], 0, [[3]]), ([3], 0, [[3, 2]]), ([2, 3], [1, 0], [[3, 2]]), ([3], -1, [[2, 3]]),
             ([3], -1, [[3], [2, 3]]), ([2], 0, [[2], [2, 3], [2, 1]]), ([2, 1], -1, [[2, 3], [3, 2, 2]]),
             ([3], -1, [[2, 3], [1, 3]]),  # same rank, both legal
             ([3], 0, [[3, 2], [1, 2]])]   # same rank, ILLEGAL for the strict classes because of the LATER leaf


# (None is a pytree *leaf* for furax.tree.is_leaf and has no .ndim: AttributeError, like a Python scalar -
# outside the type annotation and the model)
VTREES = ('dict', 'list', 'tuple')


class Check(PropertyCheck):
    id = 'C11'
    props = ['C11.v']
    static_targets = ['theories/Lemmas/DiagonalL.vo']
    coq_header = (
        'From Coq Require Import ZArith NArith QArith List.\n'
        'From Furax Require Import Model.Axes Model.Diagonal.\n'
        'Import ListNotations.\nOpen Scope Z_scope.'
    )
    shard = 500
    workers = 5
    trusted = [
        'jnp.moveaxis (canonicalize_axis, order construction, lax.transpose element map) and Array.reshape '
        '(row-major data kept) as specified in Model/Axes.v; jnp.broadcast_shapes / the broadcasting product / '
        'jnp.broadcast_to as specified in Model/Diagonal.v (right-aligned shapes, sizes compatible iff equal or 1, '
        'unit axes read at index 0); jnp.diag, jnp.concatenate, jnp.where: checked against JAX on the enumerated '
        'scope only',
        'jax.tree.map / jax.tree.leaves act leaf by leaf in flattening order and keep the tree definition: a pytree '
        'is modelled by its list of leaves; furax.tree.is_leaf distinguishes an array from a container',
        'jax.eval_shape(self.mv, in_structure) yields the shapes of mv and raises what mv raises',
        'same-rank pytree stream (cases with `solo`): compared with the model like every diag case (the model decides '
        'every leaf on its own: ctor_decided_leaf_by_leaf, ctor_leaf_order_irrelevant, mv_decided_leaf_by_leaf); in '
        'addition the harness runs the REAL constructor and op(x) on every leaf ALONE and demands, reference-free, that '
        'the pytree is accepted iff every leaf alone is and that each leaf result equals the one-leaf result; the '
        'containers dict / list / tuple / nested dict-of-sequences are flattened by jax.tree.leaves in the order the '
        'harness lists the leaves (dict keys a, b, c sorted)',
        'floating point: the model computes in an exact ring (Z, Q); inputs are small integers / dyadic rationals '
        'so that float32 arithmetic is exact and both sides are compared exactly',
        'the `diagonal` argument is a JAX array or a non-leaf container (Python scalars, which have no .ndim, are '
        'outside the type annotation and the model)',
        'dtype stream (kind `dtype`: int32 / float16 / float32 / float64 / complex64 / complex128 values x leaves of '
        'those dtypes, mixed-dtype pytrees, both x64 modes, for BroadcastDiagonalOperator, DiagonalOperator and '
        'DiagonalInverseOperator) is ORACLE-ONLY - the Coq model is over an exact ring and has no dtypes: op(x) is '
        'compared exactly, result dtype included, with the element formula evaluated on NumPy scalars of the result '
        'dtype given by the closed rule `promote` of harness/c11.py (JAX promotion on these dtypes: int < float < '
        'complex, widest inexact component; 64-bit dtypes are their 32-bit counterparts with x64 off; 1/int32 is '
        'float32); NumPy IEEE arithmetic and conversions are trusted as the reference; the x64 worker subprocess '
        'protocol',
        'as_matrix() of the strict (@square) classes is declared in the promoted dtype of the INPUT leaves: its '
        'values / dtype are compared in the dtype stream only when the stored values are not wider than that dtype '
        '(the boundary C05 calls params_not_wider; counted in stats otherwise)',
        'correspondence harness harness/c11.py',
    ]

    # ------------------------------------------------------------------------------------------
    def cases(self):
        quick = self.tier == 'quick'
        rng = random.Random(self.seed * 7919 + (0 if quick else 1))
        cases = []

        def add(vs, axes, ins, full=False, dd=None, xs=None, aslist=False, tree=None, solo=False):
            c = {
                'kind': 'diag',
                'vs': list(vs),
                'dd': dd if dd is not None else ddata(vs),
                'axes': axes,
                'ins': [list(s) for s in ins],
                'xs': xs if xs is not None else [xdata(s) for s in ins],
            }
            if full:
                c['full'] = True
            if aslist:
                c['aslist'] = True
            if tree:
                c['tree'] = tree
            if solo:
                c['solo'] = True
            cases.append(c)

        vshapes = all_shapes(2, min_rank=1)
        # (a) E: leaf shapes over dims {1,2,3} x value shapes of rank 1-2 x every scalar axis in [-4,3] and every
        #     tuple of distinct axes in [-4,4]: ALL of them for leaves of rank <= 2 (thorough: rank <= 3),
        #     a seeded sample of the rank-3 leaves in the quick tier
        for sh in all_shapes(3):
            r = len(sh)
            for vs in vshapes:
                for axes in axis_specs(len(vs)):
                    if r <= 2 or not quick or rng.random() < 0.06:
                        add(vs, axes, [sh], full=rng.random() < 0.01)
        # (b) pytrees whose leaves have different ranks
        trees = [[[3], [2, 3]], [[2, 3], [3]], [[3, 3], [3]], [[2], [2, 3, 2]], [[], [2]], [[1, 3], [3], [2, 1, 3]]]
        if not quick:
            trees += [[[2, 3, 2], [2, 3]], [[3], [3, 1]], [[2, 2], [2]], [[], [3], [3, 3]], [[2, 3], [2, 3]]]
        tvs = [[2], [3], [1], [2, 3], [3, 3], [3, 2], [3, 1], [2, 2]]
        for ins in trees:
            for vs in tvs:
                for axes in axis_specs(len(vs)):
                    if not quick or rng.random() < (1.0 if len(vs) == 1 else 0.25):
                        add(vs, axes, ins, full=rng.random() < 0.01)
        # (c) malformed stream: repeated axes as written, wrong tuple lengths, the empty tuple, lists
        reps = [[], [3], [2, 3], [3, 3], [2, 3, 2]]
        for sh in reps:
            for vs in ([2], [3], [2, 3], [3, 3], [3, 2]):
                nd = len(vs)
                for a in range(-4, 5):
                    if nd == 2:
                        add(vs, [a, a], [sh])
                add(vs, [], [sh])
                for t in itertools.product(range(-3, 4), repeat=nd + 1):
                    if rng.random() < (0.05 if quick else 0.5):
                        add(vs, list(t), [sh])
                if nd == 2:
                    for a in range(-4, 5):
                        if rng.random() < (0.5 if quick else 1.0):
                            add(vs, [a], [sh])
                for axes in axis_specs(nd):
                    if not isinstance(axes, int) and rng.random() < 0.05:
                        add(vs, axes, [sh], aslist=True)
        # (d) values that are not an array of rank >= 1
        for sh in ([3], [2, 3]):
            for axes in (-1, 0, [0], [0, 1]):
                add([], axes, [sh], dd=[2])
                for t in VTREES:
                    cases.append({'kind': 'diag', 'vtree': t, 'vs': [3], 'dd': [1, 2, 3], 'axes': axes, 'ins': [sh], 'xs': [xdata(sh)]})
        # (e) rank-3 values, ranks up to 4, larger axes: seeded random beyond the enumerated scope
        for _ in range(300 if quick else 6000):
            r = rng.randint(0, 4)
            sh = [rng.choice([1, 2, 3]) for _ in range(r)]
            nd = rng.randint(1, 3)
            if rng.random() < 0.5:
                axes = rng.randint(-6, 5)
                n = nd
            else:
                n = nd if rng.random() < 0.9 else rng.choice([max(0, nd - 1), nd + 1])
                axes = rng.sample(range(-6, 7), n)
            # mostly compatible value shapes: take the size of the axis the value lands on (or 1, or any)
            ex = expand_axes(axes, nd)
            vs = []
            for k in range(nd):
                a = ex[k] if k < len(ex) else 0
                a = a if a >= 0 else r + a
                tgt = sh[a] if 0 <= a < r else rng.choice([1, 2, 3])
                vs.append(rng.choice([tgt, tgt, tgt, 1, rng.choice([1, 2, 3])]))
            if prod(vs) * prod(sh) <= 200:
                add(vs, axes, [sh], full=rng.random() < 0.02)
        # (f) DiagonalInverseOperator: values with zeros, dyadic rationals
        pool = [0, 1, 2, -2, 4, Fraction(1, 2), -4, 8, 0, Fraction(1, 4)]
        ishapes = [([3], [3], 0), ([3], [2, 3], -1), ([2], [2, 3], 0), ([2, 3], [2, 3], 0), ([3, 2], [2, 3], [1, 0]),
                   ([1], [2, 2], 0), ([2], [2], -1), ([2, 1], [2, 3], [0, 1]), ([2], [2, 3, 2], -3), ([2, 3], [3], 0),
                   ([3], [1, 3], 1)]
        for vs, sh, axes in ishapes:
            for rot in range(3 if quick else 8):
                dd = [pool[(i * 3 + rot) % len(pool)] for i in range(prod(vs))]
                cases.append({'kind': 'inverse', 'vs': vs, 'dd': [str(Fraction(v)) for v in dd], 'axes': axes,
                              'ins': [sh], 'xs': [[str(Fraction(v, 1)) for v in [1, 2, -4, 8, 2, -2, 4, 1, 2, 4, 8, -1][: prod(sh)]]]})
        cases.append({'kind': 'inverse', 'vs': [3], 'dd': ['0', '2', '1/2'], 'axes': 0,
                      'ins': [[3], [3, 2]], 'xs': [['1', '2', '4'], ['1', '2', '4', '8', '-2', '-4']]})
        # (h) leaves of the SAME rank and different shapes, in every order: for a specification (values shape, axes)
        #     each leaf shape of rank r over {1,2,3} has a verdict of its own - S legal for both classes, B legal for
        #     the broadcast class only (shape change), X illegal (`verdict`, from the NumPy broadcasting reference).
        #     Every ordered pattern of 2 and of 3 verdicts (SB, BS, SSB, SBS, XSB, ...: the offending leaf first /
        #     middle / last) gets a pytree of same-rank leaves drawn from those classes (distinct shapes where
        #     possible); in a third of the triples the middle leaf has ANOTHER rank (rank seen before, not adjacent).
        #     Containers dict / list / tuple / nested rotate.  Every case also runs each leaf ALONE (`solo`): the
        #     verdict of the pytree is the conjunction of the verdicts of its leaves and every leaf result is the
        #     one-leaf result.  Thorough: 40% of the patterns; quick: ~7% (mixed patterns S-before-B/X favoured).
        pool_by_rank = {r: all_shapes(r, min_rank=r) for r in (1, 2, 3)}
        nh = 0
        for vs in tvs:
            for axes in axis_specs(len(vs), lo=-3, hi=2, scalar_hi=2):
                ex = expand_axes(axes, len(vs))
                cats = {}
                for r, shapes in pool_by_rank.items():
                    cats[r] = {}
                    for sh in shapes:
                        cats[r].setdefault(verdict(vs, ex, sh), []).append(sh)
                for r in (1, 2, 3):
                    present = sorted(cats[r])
                    for n in (2, 3):
                        for pat in itertools.product(present, repeat=n):
                            later_bad = any(pat[i] == 'S' and pat[j] != 'S' for i in range(n) for j in range(i + 1, n))
                            pr = (0.14 if later_bad else 0.05) if quick else 0.4
                            if r == 3:
                                pr *= 0.5
                            if rng.random() >= pr:
                                continue
                            ins = []
                            for c in pat:
                                cand = [sh for sh in cats[r][c] if sh not in ins] or cats[r][c]
                                ins.append(rng.choice(cand))
                            if n == 3 and rng.random() < 0.34:
                                r2 = rng.choice([q for q in (1, 2, 3) if q != r])
                                if pat[1] in cats[r2]:
                                    ins[1] = rng.choice(cats[r2][pat[1]])
                            if prod(vs) * max(prod(sh) for sh in ins) > 120:
                                continue
                            nh += 1
                            add(vs, axes, ins, full=rng.random() < 0.03, tree=TREES[nh % len(TREES)], solo=True)
        # (g) dtype stream (oracle-only): every ordered pair (values dtype, leaf dtype) x both x64 modes x the three
        #     classes on single-leaf layouts (quick: 2 layouts per pair, rotating; thorough: all), and mixed-dtype
        #     pytrees (quick: 3 seeded leaf-dtype tuples per class x values dtype x mode; thorough: all tuples of
        #     two-leaf layouts and 12 seeded ones of three-leaf layouts)
        def dt_case(cls, x64, vdt, layout, ldts, rot):
            vs, axes, ins = layout
            pool = IPOOL if cls == 'inverse' else VPOOL
            c = {'kind': 'dtype', 'cls': cls, 'x64': x64, 'vs': list(vs), 'vdt': vdt, 'dd': pool_data(pool, vdt, prod(vs), rot),
                 'axes': axes, 'ins': [list(s) for s in ins], 'ldts': list(ldts),
                 'xs': [pool_data(XPOOL, dt, prod(s), rot + 5 * k) for k, (s, dt) in enumerate(zip(ins, ldts))]}
            if rng.random() < (0.1 if quick else 0.03):
                c['jit'] = True
            cases.append(c)

        n = 0
        for cls, layouts in (('broadcast', DT_BROADCAST), ('strict', DT_STRICT), ('inverse', DT_STRICT)):
            single = [l for l in layouts if len(l[2]) == 1]
            multi = [l for l in layouts if len(l[2]) > 1]
            for x64 in (False, True):
                for vdt in DTYPES:
                    for ldt in DTYPES:
                        n += 1
                        for k, lay in enumerate(single):
                            if not quick or (k - n) % len(single) < 2:
                                dt_case(cls, x64, vdt, lay, [ldt], n + k)
                    for lay in multi:
                        m = len(lay[2])
                        if quick:
                            tuples = [[rng.choice(DTYPES) for _ in range(m)] for _ in range(2 if m == 2 else 1)]
                        elif m == 2:
                            tuples = [list(t) for t in itertools.product(DTYPES, repeat=2)]
                        else:
                            tuples = [[rng.choice(DTYPES) for _ in range(m)] for _ in range(12)]
                        for t in tuples:
                            n += 1
                            dt_case(cls, x64, vdt, lay, t, n)
        # the thorough tier enumerates scope (a) - the DESIGN scope E - completely (the other streams are samples)
        self.exhaustive = not quick
        return cases

    def search_cases(self):
        if self.tier != 'quick':
            return []
        other = type(self)('thorough', self.seed + 1)
        cs = other.cases()
        random.Random(self.seed).shuffle(cs)
        return cs[:4000]

    def rule(self):
        return (
            'diag: (a) ALL leaf shapes of rank <= 2 (thorough: <= 3) over dims {1,2,3} x ALL value shapes of rank 1-2 '
            'over {1,2,3} x EVERY scalar axis in [-4,3] and EVERY tuple of distinct axes in [-4,4] in every order, both '
            'classes per case (quick: 6% seeded sample of the rank-3 leaves); (b) pytrees with leaves of different '
            'rank x 8 value shapes x the same axis specifications; (c) malformed: repeated axes as written, the empty '
            'tuple, tuples shorter/longer than values.ndim, list-typed axis_destination; (d) rank-0 values, dict / '
            'list / tuple / None values; (e) seeded random: ranks <= 4, rank-3 values, axes in [-6,6]; (f) '
            'DiagonalInverseOperator on values with zeros and dyadic rationals; (h) pytrees (dict / list / tuple / nested) of '
            '2-3 leaves of the SAME rank (1-3) and different shapes: per specification (8 value shapes x scalar axes in '
            '[-3,2] and tuples over [-3,2]) every leaf shape has its own verdict S / B / X (legal for both classes / '
            'broadcast only / illegal) and every ordered pattern of verdicts - offending leaf first, middle, last, after '
            'a leaf of its rank was accepted, with a leaf of another rank in between - is drawn (quick ~7%, thorough '
            '40% of the patterns), each also run leaf by leaf ALONE: pytree verdict = conjunction of the leaf verdicts, '
            'leaf results = one-leaf results; (g) dtype stream, oracle-only: every '
            'ordered pair (values dtype, leaf dtype) over int32 / float16 / float32 / float64 / complex64 / complex128 x '
            'x64 on and off x {Broadcast, strict, inverse} on single-leaf layouts (left / right extension, permuted '
            'tuple) and mixed-dtype pytrees with leaves of different rank, with half-integers, non-zero imaginary parts, '
            '2049 / 4097 / 16777217 among the values and the data, op(x) and jit(mv)(x) compared exactly with the NumPy '
            'product in the promoted dtype (result dtype included), out_structure and as_matrix where defined.  '
            'Input leaves of the other streams hold distinct primes '
            '> 100 and the values 1..n, so every product identifies the two entries it came from.  Non-trivial: the '
            'constructor of at least one class accepted, or rejected for a reason other than a malformed value.'
        )

    def distribution(self, cases):
        d: dict = {}
        for c in cases:
            a = c['axes']
            if c['kind'] == 'dtype':
                k = f"dtype/{c['cls']}/{'x64' if c['x64'] else 'x32'}/{'mixed-pytree' if len(c['ins']) > 1 else 'leaf'}"
                d[k] = d.get(k, 0) + 1
                continue
            k = f"{c['kind']}/v{len(c['vs'])}/{'int' if isinstance(a, int) else 'tuple' + str(len(a))}/rank" + ','.join(
                str(len(s)) for s in c['ins'])
            if c.get('solo'):
                k = f"diag/same-rank-pytree/{c['tree']}/{len(c['ins'])} leaves"

            if 'vtree' in c:
                k = 'diag/vtree'
            d[k] = d.get(k, 0) + 1
        return d

    def nontrivial(self, case, obs):
        return 'vtree' not in case and len(case['vs']) > 0

    # ------------------------------------------------------------------------------------------
    def values_of(self, case):
        jax, jnp, np, diagonal, ALO = fx()
        if case['kind'] == 'inverse':
            d = jnp.asarray(np.array([float(Fraction(v)) for v in case['dd']], dtype=np.float32).reshape(tuple(case['vs'])))
            return d
        d = jnp.asarray(np.array(case['dd'], dtype=np.float32).reshape(tuple(case['vs'])))
        t = case.get('vtree')
        if t == 'dict':
            return {'a': d}
        if t == 'list':
            return [d, d]
        if t == 'tuple':
            return (d,)
        return d

    def run_impl(self, case):
        jax, jnp, np, diagonal, ALO = fx()
        if case['kind'] == 'dtype':
            return dtype_impl(case) if x64_mode() == bool(case['x64']) else ask(bool(case['x64']), case)
        ins = case['ins']
        tree = case.get('tree')
        st = structure(ins, tree)
        d = self.values_of(case)
        axes = axarg(case['axes'])
        if case.get('aslist'):
            axes = list(axes)
        if case['kind'] == 'inverse':
            return self.run_inverse(case, d, axes, st)
        x = tree_of(ins, case['xs'], tree)
        res = []
        for cls in (diagonal.BroadcastDiagonalOperator, diagonal.DiagonalOperator):
            op = attempt(lambda: cls(d, axis_destination=axes, in_structure=st))
            solo = None
            if case.get('solo'):
                # every leaf ALONE (bare leaf as the structure): construction outcome and result
                def alone(sh, xd):
                    o1 = cls(d, axis_destination=axes, in_structure=structure([sh]))
                    return datas_of(o1(tree_of([sh], [xd])))[0]

                solo = [show(attempt(lambda: alone(sh, xd))) for sh, xd in zip(ins, case['xs'])]
            if op[0] == 'err':
                res.append({'error': op[1], 'solo': solo} if solo is not None else {'error': op[1]})
                continue
            op = op[1]
            strict = cls is diagonal.DiagonalOperator
            o = [
                [int(a) for a in op.axis_destination],
                show(attempt(lambda: shapes_of(op.out_structure()))),
                show(attempt(lambda: datas_of(op(x)))),
            ]
            if strict:

                def vec():
                    m = np.asarray(op.as_matrix())
                    v = np.diag(m)
                    if m.shape == (v.size, v.size) and (m == np.diag(v)).all():
                        return [exact(t) for t in v.tolist()]
                    return {'not_diagonal': [[exact(t) for t in row] for row in m.tolist()]}

                o.append(show(attempt(vec)))
            else:
                o.append([])
            extra = None
            if case.get('full'):
                # the remaining clause of the property ("depends on nothing but values, axes and input") and the
                # dense form against the generic column-by-column construction
                def more():
                    again = datas_of(op(x))
                    other = cls(self.values_of(case), axis_destination=axes, in_structure=structure(ins, tree))
                    fresh = datas_of(jax.jit(lambda t: other.mv(t))(x))
                    gen = None
                    if strict:
                        gen = bool((np.asarray(op.as_matrix()) == np.asarray(ALO.as_matrix(op))).all())
                    return {'again': again == o[2], 'fresh_jit': fresh == o[2], 'generic_as_matrix': gen}

                extra = show(attempt(more))
            if solo is not None:
                extra = dict(extra or {}, solo=solo)
            o.append(extra)
            res.append(o)
        return res

    def run_inverse(self, case, d, axes, st):
        jax, jnp, np, diagonal, ALO = fx()
        op = attempt(lambda: diagonal.DiagonalOperator(d, axis_destination=axes, in_structure=st))
        if op[0] == 'err':
            return {'error': op[1]}
        op = op[1]
        iop = attempt(lambda: op.I)
        if iop[0] == 'err':
            return {'error': iop[1]}
        iop = iop[1]
        xs = [[float(Fraction(v)) for v in x] for x in case['xs']]
        x = tree_of(case['ins'], xs)

        def vec():
            m = np.asarray(iop.as_matrix())
            v = np.diag(m)
            if (m == np.diag(v)).all():
                return [exact(t) for t in v.tolist()]
            return {'not_diagonal': m.tolist()}

        return [
            type(iop).__name__,
            [exact(v) for v in np.asarray(iop.diagonal).ravel().tolist()],
            show(attempt(lambda: datas_of(iop(x)))),
            show(attempt(lambda: datas_of(iop(op(x))))),
            show(attempt(vec)),
            iop.I is op,
        ]

    def comparable(self, case, obs):
        if case['kind'] == 'inverse':
            return obs[1:5] if isinstance(obs, list) else obs
        if isinstance(obs, list):
            return [o[:4] if isinstance(o, list) else {'error': o['error']} if isinstance(o, dict) and 'error' in o else o
                    for o in obs]
        return obs

    # ------------------------------------------------------------------------------------------
    def model_term(self, case):
        if case['kind'] == 'dtype':
            return None  # oracle-only: the model has no dtypes
        cn = lambda n: f'{int(n)}%nat'
        shp = lambda s: clist(s, cn)
        ins = clist(case['ins'], shp)
        a = case['axes']
        arg = f'(AInt {cz(a)})' if isinstance(a, int) else f'(ASeq {clist(a, cz)})'
        if case['kind'] == 'inverse':
            q = lambda v: lib.cq(Fraction(v))
            xs = clist(case['xs'], lambda x: clist(x, q))
            return f'obs_inverse {shp(case["vs"])} {clist(case["dd"], q)} {arg} {ins} {xs}'
        v = 'VTree' if 'vtree' in case else f'(VLeaf {shp(case["vs"])})'
        xs = clist(case['xs'], lambda x: clist(x, cz))
        return f'obs_both {v} {clist(case["dd"], cz)} {arg} {ins} {xs}'

    def decode(self, case, v):
        def conv(x):
            if isinstance(x, dict) and 'c' in x:
                if x['c'] == 'Ok':
                    return conv(x['a'][0])
                if x['c'] == 'Err':
                    return {'error': x['a'][0]['c']}
                return x['c']
            if isinstance(x, (list, tuple)):
                return [conv(i) for i in x]
            return x

        return conv(v)

    # ------------------------------------------------------------------------------------------
    def oracle(self, case, obs):
        if case['kind'] == 'inverse':
            return self.oracle_inverse(case, obs)
        if case['kind'] == 'dtype':
            return self.oracle_dtype(case, obs)
        vs, dd, ins, xs = case['vs'], case['dd'], case['ins'], case['xs']
        what = f'values{"(" + case["vtree"] + ")" if "vtree" in case else ""} shape {vs}, axis_destination={case["axes"]}, leaves {ins}'
        names = ('BroadcastDiagonalOperator', 'DiagonalOperator')
        if 'vtree' in case or len(vs) == 0:
            for nm, o in zip(names, obs):
                if not isinstance(o, dict):
                    return f'{nm}: {"pytree-valued" if "vtree" in case else "scalar"} values accepted ({what})'
            return None
        nd = len(vs)
        axes = expand_axes(case['axes'], nd)
        if len(axes) != nd:
            # not an axis specification in the sense of the documentation ("as many axes as dimensions"):
            # outside the property; modelled and compared all the same
            self.stats['wrong_length_tuples'] = self.stats.get('wrong_length_tuples', 0) + 1
            return None
        for strict, nm, o in zip((False, True), names, obs):
            ref = [ref_leaf(vs, dd, axes, sh, x, strict) for sh, x in zip(ins, xs)]
            if 'illegal' in ref:
                if not isinstance(o, dict):
                    bad = [i for i, e in enumerate(ref) if e == 'illegal']
                    return (f'{nm} accepted a specification that is illegal for leaf/leaves {bad} of the pytree ({what}): '
                            f'out_structure {o[1]}, leaf results by NumPy broadcasting {ref}')
                continue
            if isinstance(o, dict):
                return f'{nm} rejected a legal specification with {o} ({what}); expected out shapes {[e[0] for e in ref]}'
            stored, out, y, vec, extra = o
            if stored != axes:
                return f'{nm}: axis_destination stored as {stored}, documented tuple {axes} ({what})'
            if out != [e[0] for e in ref]:
                return f'{nm}: out_structure {out}, reference {[e[0] for e in ref]} ({what})'
            if y != lib.canon(ref):
                return f'{nm}: op(x) = {y} differs from the broadcast product {lib.canon(ref)} ({what}; d={dd}, x={xs})'
            if strict:
                dv = lib.canon(sum((ref_diag_vector(vs, dd, axes, sh) for sh in ins), []))
                if vec != dv:
                    return f'{nm}: as_matrix() diagonal {vec}, reference {dv} ({what})'
            if isinstance(extra, dict):
                if 'error' in extra:
                    return f'{nm}: repeated evaluation raised {extra} ({what})'
                if 'again' in extra and (not extra['again'] or not extra['fresh_jit']):
                    return f'{nm}: result depends on something else than values, axes and input: {extra} ({what})'
                if extra.get('generic_as_matrix') is False:
                    return f'{nm}: as_matrix() differs from the generic column-by-column dense form ({what})'
        # no state carried from leaf to leaf, reference-free: the pytree is accepted iff every leaf ALONE is, and each
        # leaf of the result is the result of the one-leaf call ("depends on nothing but values, axes and input")
        for nm, o in zip(names, obs):
            solo = o.get('solo') if isinstance(o, dict) else (o[4] or {}).get('solo') if isinstance(o[4], dict) else None
            if solo is None:
                continue
            alone_bad = [i for i, e in enumerate(solo) if isinstance(e, dict)]
            if isinstance(o, dict):
                if not alone_bad:
                    return f'{nm} rejected the pytree with {o["error"]} although it accepts every leaf alone ({what})'
                continue
            if alone_bad:
                return (f'{nm} accepted the pytree although it rejects leaf/leaves {alone_bad} alone '
                        f'({[solo[i] for i in alone_bad]}): the verdict depends on the other leaves / their order ({what})')
            if isinstance(o[2], list) and o[2] != solo:
                return f'{nm}: op(x) = {o[2]} on the pytree, but leaf by leaf alone {solo}: a leaf result depends on the other leaves ({what})'
        return None

    def oracle_inverse(self, case, obs):
        vs, ins = case['vs'], case['ins']
        dd = [Fraction(v) for v in case['dd']]
        xs = [[Fraction(v) for v in x] for x in case['xs']]
        what = f'DiagonalOperator(values {case["dd"]} shape {vs}, axis_destination={case["axes"]}) on {ins}'
        axes = expand_axes(case['axes'], len(vs))
        ref = [ref_leaf(vs, dd, axes, sh, x, True) for sh, x in zip(ins, xs)]
        if 'illegal' in ref:
            return None if isinstance(obs, dict) else f'{what}: illegal specification accepted'
        if isinstance(obs, dict):
            return f'{what}: .I raised {obs}'
        name, idiag, iy, iopy, vec, back = obs
        di = [pinv(v) for v in dd]
        if name != 'DiagonalInverseOperator' or not back:
            return f'{what}: .I is a {name}, .I.I is the operator: {back}'
        if idiag != lib.canon(di):
            return f'{what}: .I.diagonal = {idiag}, expected where(d != 0, 1/d, 0) = {lib.canon(di)}'
        ri = [ref_leaf(vs, di, axes, sh, x, True) for sh, x in zip(ins, xs)]
        if iy != lib.canon(ri):
            return f'{what}: op.I(x) = {iy}, reference {lib.canon(ri)}'
        # op.I(op(x)) = x where the value is non-zero, 0 elsewhere
        proj = [1 if v != 0 else 0 for v in dd]
        rp = [ref_leaf(vs, proj, axes, sh, x, True) for sh, x in zip(ins, xs)]
        if iopy != lib.canon(rp):
            return f'{what}: op.I(op(x)) = {iopy}, reference {lib.canon(rp)}'
        dv = lib.canon(sum((ref_diag_vector(vs, di, axes, sh) for sh in ins), []))
        if vec != dv:
            return f'{what}: op.I.as_matrix() diagonal {vec}, reference {dv}'
        return None

    def oracle_dtype(self, case, obs):
        names = {'broadcast': 'BroadcastDiagonalOperator', 'strict': 'DiagonalOperator', 'inverse': 'DiagonalOperator(...).I'}
        what = (f'{names[case["cls"]]}: values {case["vdt"]} {case["dd"]} shape {case["vs"]}, axis_destination={case["axes"]}, '
                f'leaves {list(zip(case["ldts"], case["ins"]))} = {case["xs"]}, x64 {"on" if case["x64"] else "off"}')
        obs = lib.canon(obs)  # (idempotent; a replay hands the raw observation over)
        ref = lib.canon(dtype_reference(case))
        if ref.get('illegal'):
            return None if 'error' in obs else f'{what}: illegal specification accepted'
        if obs['stored'] != ref['stored']:
            return f'harness: arrays stored as {obs["stored"]}, expected {ref["stored"]} ({what})'
        if 'error' in obs:
            return f'{what}: legal specification rejected with {obs["error"]}'
        if case['cls'] == 'inverse':
            if obs['class'] != 'DiagonalInverseOperator':
                return f'{what}: .I is a {obs["class"]}'
            if obs['diagonal'] != ref['diagonal']:
                return f'{what}: .I.diagonal = {obs["diagonal"]}, expected where(d != 0, 1/d, 0) = {ref["diagonal"]}'
        elif obs['diagonal'] != ref['diagonal']:
            return f'{what}: stored values read back as {obs["diagonal"]}, given {ref["diagonal"]}'
        if obs['y'] != ref['y']:
            return (f'{what}: op(x) = {obs["y"]} differs from the NumPy product values_laid_out * leaf in the promoted '
                    f'dtype, {ref["y"]}')
        if 'jit' in obs and obs['jit'] != ref['y']:
            return f'{what}: jit(op.mv)(x) = {obs["jit"]} differs from the NumPy product {ref["y"]}'
        shapes = [[e[0], e[1]] for e in ref['y']]
        if isinstance(obs['out'], dict) or [e[1] for e in obs['out']] != [e[1] for e in shapes]:
            return f'{what}: out_structure {obs["out"]}, reference {shapes}'
        if case['cls'] == 'broadcast':
            if obs['out'] != shapes:
                return f'{what}: out_structure {obs["out"]}, the result has {shapes}'
            return None
        # @square classes declare out_structure = in_structure: it is the structure of the result only where the
        # stored values are not wider than the leaf (C05's params_not_wider boundary)
        for o, e, ldt in zip(obs['out'], shapes, ref['stored'][1:]):
            if e[0] == ldt and o != e:
                return f'{what}: out_structure {obs["out"]}, the result has {shapes}'
            if e[0] != ldt:
                self.stats['dtype_values_wider_than_leaf_out_structure_not_compared'] = (
                    self.stats.get('dtype_values_wider_than_leaf_out_structure_not_compared', 0) + 1)
        if 'matrix' in ref:
            if obs['matrix'] != ref['matrix']:
                return f'{what}: as_matrix() diagonal {obs["matrix"]}, reference {ref["matrix"]}'
        else:
            self.stats['dtype_values_wider_than_input_as_matrix_not_compared'] = (
                self.stats.get('dtype_values_wider_than_input_as_matrix_not_compared', 0) + 1)
        return None


if __name__ == '__main__':
    if '--worker' in sys.argv:
        worker_main()
