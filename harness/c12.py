"""C12 - indexing and packing select, and their transposes scatter-add.

Cases are JSON descriptions; `run_impl` builds the REAL furax operators (IndexOperator, PackOperator, their
lazy transposes, the compositions P @ P.T and P.T @ P and their reduce()) from them, `model_term` the
corresponding term of Model/Index.v.  The oracle judges the implementation against NumPy (`x[idx]`,
`np.add.at`, explicit 0/1 selection matrices) and against itself (dense matrix of the reduced composition
vs dense matrix of the unreduced one), never against the model.

Index entries: ['i', z] int, ['s', start, stop, step] slice, ['e'] Ellipsis, ['a', shape, data] integer
array, ['m', shape, bits] boolean mask.  A pytree is given by the list of its leaf shapes (one leaf: a bare
array; several: a dict, or the container named by case['cont']).

TYPE / DTYPE of the entries (what IndexOperator.__init__, indexed_axes and the rules inspect with isinstance /
.dtype): ['a', shape, data, dtype] is a JAX array of that integer dtype (default int32; JDT lists the kinds
available with x64 off), ['a', shape, data, dtype, 'np'] / ['m', shape, bits, 'np'] a NumPy array,
['i', z, nptype] a NumPy integer scalar, ['b', bool] a Python bool (an `int` for isinstance).  The model has no
dtype: an XArr stands for an integer array of EVERY integer dtype, so the JAX-array cases of every dtype are
compared with the same model term (a decision that depends on the integer kind shows as a disagreement).  NumPy
arrays / scalars are outside the annotated domain (`Integer[Array]`, `int`): those cases are `lenient` (an
exception anywhere is accepted, a value that is returned must be right) and are judged by the NumPy oracle only;
Python bools and rank-0 masks are judged strictly by the oracle only (`nomodel`).  The NumPy reference always
indexes with int64 / bool / int, never with the dtype under test.
"""
from __future__ import annotations

import itertools
from math import prod

import lib
from lib import PropertyCheck, cbool, clist, cnat, copt, cz

_cache: dict = {}


def fx():
    if 'mods' not in _cache:
        import jax
        import jax.numpy as jnp
        import numpy as np
        from furax._base import core, diagonal, indices, linear

        jax.config.update('jax_traceback_filtering', 'off')
        _cache['mods'] = (jax, jnp, np, indices, linear, core, diagonal)
    return _cache['mods']


def attempt(f):
    try:
        return ('ok', f())
    except BaseException as e:  # NoReduction derives from BaseException
        if isinstance(e, (KeyboardInterrupt, SystemExit)):
            raise
        return ('err', type(e).__name__)


def show(r, f=lambda v: v):
    return {'error': r[1]} if r[0] == 'err' else f(r[1])


# ----------------------------------------------------------------------------------------------
# builders: JSON -> Python objects / NumPy reference / Coq terms


JDT = ['int8', 'int16', 'int32', 'uint8', 'uint16', 'uint32']  # JAX integer kinds with x64 off
NDT = JDT + ['int64', 'uint64']


def ent_py(e, xp, ref=False):
    """The Python object of an entry: for the implementation (xp = jnp; dtype and library as described by the
    entry) or, with ref=True, for the NumPy reference (int64 / bool arrays, Python ints)."""
    np = fx()[2]
    k = e[0]
    if k == 'i':
        if len(e) > 2 and not ref:
            return getattr(np, e[2])(e[1])
        return int(e[1])
    if k == 'b':
        return bool(e[1])
    if k == 's':
        return slice(e[1], e[2], e[3])
    if k == 'e':
        return Ellipsis
    if k == 'a':
        if ref:
            return np.asarray(e[2], dtype='int64').reshape(tuple(e[1]))
        lib_ = np if len(e) > 4 and e[4] == 'np' else xp
        return lib_.asarray(e[2], dtype=e[3] if len(e) > 3 else 'int32').reshape(tuple(e[1]))
    if k == 'm':
        lib_ = np if (ref or (len(e) > 3 and e[3] == 'np')) else xp
        return lib_.asarray(e[2], dtype=bool).reshape(tuple(e[1]))
    raise ValueError(k)


def foreign(e):
    """NumPy arrays / NumPy scalars: outside the annotated domain of IndexOperator."""
    return (e[0] == 'a' and len(e) > 4 and e[4] == 'np') or (e[0] == 'm' and len(e) > 3 and e[3] == 'np') or (
        e[0] == 'i' and len(e) > 2
    )


def unmodelled(e):
    """Entries Model/Index.v does not express: Python bools, rank-0 masks."""
    return e[0] == 'b' or (e[0] == 'm' and list(e[1]) == [])


def arr(shape, data, dt='int32', lib_='j'):
    """Entry of an integer array; the default kind keeps the historical 3-element form."""
    if lib_ == 'np':
        return ['a', list(shape), list(data), dt, 'np']
    return ['a', list(shape), list(data)] if dt == 'int32' else ['a', list(shape), list(data), dt]


def ent_coq(e):
    k = e[0]
    if k == 'i':
        return f'(XInt {cz(e[1])})'
    if k == 's':
        return f'(XSlice {copt(e[1], cz)} {copt(e[2], cz)} {copt(e[3], cz)})'
    if k == 'e':
        return 'XEll'
    if k == 'a':
        return f'(XArr {clist(e[1], cnat)} {clist(e[2], cz)})'
    if k == 'm':
        return f'(XMask {clist(e[1], cnat)} {clist(e[2], cbool)})'
    raise ValueError(k)


def cshape(s):
    return clist(s, cnat)


def container(leaves, cont):
    if cont == 'leaf' or (cont is None and len(leaves) == 1):
        assert len(leaves) == 1
        return leaves[0]
    if cont in (None, 'dict'):
        return {chr(97 + i): l for i, l in enumerate(leaves)}
    if cont == 'list':
        return list(leaves)
    if cont == 'tuple':
        return tuple(leaves)
    if cont in ('stokesI', 'stokesIQU'):
        from furax.landscapes import StokesIPyTree, StokesIQUPyTree

        return (StokesIPyTree if cont == 'stokesI' else StokesIQUPyTree)(*leaves)
    raise ValueError(cont)


def structure(shapes, cont=None):
    jax, jnp = fx()[:2]
    return container([jax.ShapeDtypeStruct(tuple(s), jnp.float32) for s in shapes], cont)


def arange_tree(shapes, cont=None, start=0):
    jnp = fx()[1]
    return container([jnp.arange(start, start + prod(s), dtype=jnp.float32).reshape(tuple(s)) for s in shapes], cont)


def leaves_of(tree):
    return fx()[0].tree.leaves(tree)


def ints_of(a):
    np = fx()[2]
    a = np.asarray(a)
    return [int(v) for v in a.ravel().tolist()]


def datas_of(tree):
    np = fx()[2]
    return [[list(np.asarray(l).shape), ints_of(l)] for l in leaves_of(tree)]


def np_index(sh, idx):
    """NumPy reference of leaf[idx] as a gather: [out shape, flat positions] (None when NumPy rejects)."""
    np = fx()[2]
    x = np.arange(prod(sh)).reshape(tuple(sh))
    t = tuple(ent_py(e, np, ref=True) for e in idx)
    try:
        r = x[t]
    except Exception:
        return None
    r = np.asarray(r)
    return [list(r.shape), [int(v) for v in r.ravel().tolist()]]


def np_scatter(sh, idx, y):
    """np.add.at(zeros(sh), idx, y)."""
    np = fx()[2]
    z = np.zeros(tuple(sh), dtype=np.int64)
    t = tuple(ent_py(e, np, ref=True) for e in idx)
    np.add.at(z, t, np.asarray(y, dtype=np.int64).reshape(np.asarray(z[t]).shape))
    return [int(v) for v in z.ravel().tolist()]


def dense(op):
    """Dense matrix of the operator from its action on the basis vectors (rows of ints)."""
    jax, jnp, np = fx()[:3]
    st = op.in_structure()
    leaves, treedef = jax.tree.flatten(st)
    sizes = [prod(l.shape) for l in leaves]
    n = sum(sizes)
    cols = []
    for j in range(n):
        parts = []
        off = 0
        for l, s in zip(leaves, sizes):
            v = np.zeros(s, dtype=np.float32)
            if off <= j < off + s:
                v[j - off] = 1
            parts.append(jnp.asarray(v).reshape(l.shape))
            off += s
        out = op.mv(jax.tree.unflatten(treedef, parts))
        cols.append(np.concatenate([np.asarray(o).ravel() for o in jax.tree.leaves(out)]) if jax.tree.leaves(out) else np.zeros(0))
    m = np.stack(cols, axis=1) if cols else np.zeros((0, 0))
    return [[int(v) for v in row] for row in m.tolist()]


def shapes_of(tree):
    return [list(l.shape) for l in leaves_of(tree)]


def classify(op):
    jax, jnp, np, indices, linear, core, diagonal = fx()
    if isinstance(op, core.IdentityOperator):
        return 'I'
    if isinstance(op, diagonal.DiagonalOperator):
        ax = list(op.axis_destination)
        return ['D', ax[0] if len(ax) == 1 else ax, ints_of(op.diagonal)]
    if isinstance(op, core.TransposeOperator):
        return 'T'
    if isinstance(op, core.CompositionOperator):
        return 'C'
    return type(op).__name__


LEVELS = {'ctor': 4, 'lite': 6, 'full': 8}


def observe(op, case, is_pack=False):
    """[unique, indexed_axes, out shapes, mv, T.mv, reduce is identity, (P@P.T).reduce(), (P.T@P).reduce(), extras]
    for an IndexOperator; the same layout (with None for the fields a PackOperator does not have) for a pack."""
    jax, jnp, np, indices, linear, core, diagonal = fx()
    ins = case['ins']
    cont = case.get('cont')
    level = LEVELS[case.get('level', 'full')]
    x = arange_tree(ins, cont)
    extras: dict = {}
    res = [None] * 8
    if not is_pack:
        res[0] = bool(op.unique_indices)
        res[1] = show(attempt(lambda: [int(a) for a in op.indexed_axes]))
    outs = attempt(lambda: shapes_of(op.out_structure()))
    res[2] = show(outs)
    y = attempt(lambda: op.mv(x))
    res[3] = show(y, datas_of)
    if y[0] == 'ok' and level >= 6:
        outshapes = shapes_of(y[1])
        tdef = jax.tree.structure(y[1])
        yy = jax.tree.unflatten(
            tdef, [jnp.arange(1, 1 + prod(s), dtype=jnp.float32).reshape(tuple(s)) for s in outshapes]
        )
        t = attempt(lambda: op.T)
        res[4] = show(attempt(lambda: [ints_of(l) for l in leaves_of(t[1].mv(yy))])) if t[0] == 'ok' else show(t)
        if not is_pack:
            res[5] = show(attempt(lambda: isinstance(op.reduce(), core.IdentityOperator)))
        if level >= 8 and t[0] == 'ok':
            for slot, name, mk in ((6, 'ppt', lambda: op @ t[1]), (7, 'ptp', lambda: t[1] @ op)):
                full = attempt(mk)
                if full[0] == 'err':
                    res[slot] = show(full)
                    continue
                red = attempt(lambda: full[1].reduce())
                res[slot] = show(red, classify)
                if red[0] == 'ok':
                    extras[name] = {
                        'full': show(attempt(lambda: dense(full[1]))),
                        'red': show(attempt(lambda: dense(red[1]))),
                        'structs': show(
                            attempt(
                                lambda: [
                                    red[1].in_structure() == full[1].in_structure(),
                                    red[1].out_structure() == full[1].out_structure(),
                                ]
                            )
                        ),
                    }
    elif not is_pack and level >= 6:
        res[5] = show(attempt(lambda: isinstance(op.reduce(), core.IdentityOperator)))
    return res + [extras]


# ----------------------------------------------------------------------------------------------
# generators


def rand_slice(rng, n):
    vals = [None, 0, 1, -1, 2, -2, n, -n, n + 1, -n - 1]
    return ['s', rng.choice(vals), rng.choice(vals), rng.choice([None, None, 1, -1, 2, -2, 3])]


def rand_dtype(rng, vals, p=0.5):
    """int32 with probability 1 - p, else any JAX integer kind that can hold the values."""
    if rng.random() >= p:
        return 'int32'
    return rng.choice(JDT if min(vals, default=0) >= 0 else [d for d in JDT if d[0] == 'i'])


def rand_arr(rng, n, unique=False, dt=None):
    a = _rand_arr(rng, n, unique)
    return arr(a[1], a[2], dt or rand_dtype(rng, a[2]))


def _rand_arr(rng, n, unique=False):
    shape = rng.choice([[1], [2], [3], [2], [3], [4], [2, 2], [1, 2], [2, 1]])
    size = prod(shape)
    if unique:
        if size > n:
            shape, size = [n], n
        vals = rng.sample(range(n), size)
        vals = [v - n if rng.random() < 0.4 else v for v in vals]
    else:
        vals = [rng.randrange(-n, n) for _ in range(size)]
    return ['a', shape, vals]


def rand_mask(rng, dims):
    return ['m', list(dims), [rng.random() < 0.5 for _ in range(prod(dims))]]


def rand_tuple(rng, sh, maxlen=3, arrays='any'):
    """A legal index tuple for the leaf shape: entries are drawn knowing the axis they apply to."""
    r = len(sh)
    n_ent = rng.randint(0, min(maxlen, r))
    use_ell = rng.random() < 0.45
    # axes covered before / after the ellipsis
    before = rng.randint(0, n_ent) if use_ell else n_ent
    after = n_ent - before
    axes = list(range(before)) + list(range(r - after, r))
    out = []
    narr = 0
    k = 0
    while k < len(axes):
        ax = axes[k]
        n = sh[ax]
        kind = rng.choice(['i', 's', 's', 'all', 'a', 'a', 'm'])
        if kind in ('a', 'm') and (arrays == 'none' or (arrays == 'one' and narr >= 1)):
            kind = rng.choice(['i', 's'])
        if kind == 'i':
            out.append(['i', rng.randrange(-n, n)])
        elif kind == 's':
            out.append(rand_slice(rng, n))
        elif kind == 'all':
            out.append(['s', None, None, None])
        elif kind == 'a':
            out.append(rand_arr(rng, n))
            narr += 1
        else:
            # a rank-2 mask over this axis and the next when both belong to the same side
            if k + 1 < len(axes) and axes[k + 1] == ax + 1 and rng.random() < 0.3:
                out.append(rand_mask(rng, [n, sh[ax + 1]]))
                k += 1
            else:
                out.append(rand_mask(rng, [n]))
            narr += 1
        k += 1
    if use_ell:
        # number of entries placed for the `before` axes (a rank-2 mask covers two axes with one entry)
        pos = 0
        cov = 0
        while pos < len(out) and cov < before:
            cov += len(out[pos][1]) if out[pos][0] == 'm' else 1
            pos += 1
        out.insert(pos, ['e'])
    return out


def rand_multi(rng, sh):
    """An index tuple with (usually) two or more array entries for the leaf shape: integer arrays of shapes that
    broadcast to a common shape B (suffixes of B, some dimensions 1), masks of rank 1 / 2 whose number of True
    entries is the last dimension of B (or 1), ints, slices, full slices, an optional Ellipsis.  Mostly legal;
    NumPy rejects a few (mask count / broadcast mismatch): those go to the malformed stream."""
    r = len(sh)
    B = rng.choice([[2], [3], [2], [1], [2, 2], [1, 2], [2, 1], [3, 1], []])
    L = B[-1] if B else 1
    use_ell = rng.random() < 0.4
    if use_ell:
        before = rng.randint(0, r)
        after = rng.randint(0, r - before)
    else:
        before = rng.randint(min(2, r), r)
        after = 0
    axes = list(range(before)) + list(range(r - after, r))
    out = []
    k = 0
    while k < len(axes):
        ax = axes[k]
        n = sh[ax]
        kind = rng.choice(['a', 'a', 'a', 'm', 'm', 'i', 's', 'all'])
        if kind == 'a':
            shp = list(B[rng.randint(0, len(B)):])
            shp = [1 if rng.random() < 0.25 else d for d in shp]
            vals = [rng.randrange(-n, n) for _ in range(prod(shp))]
            out.append(arr(shp, vals, rand_dtype(rng, vals)))
        elif kind == 'm':
            two = k + 1 < len(axes) and axes[k + 1] == ax + 1 and rng.random() < 0.35
            dims = [n, sh[ax + 1]] if two else [n]
            size = prod(dims)
            cnt = min(L if rng.random() < 0.8 else 1, size)
            bits = [False] * size
            for p in rng.sample(range(size), cnt):
                bits[p] = True
            out.append(['m', dims, bits])
            if two:
                k += 1
        elif kind == 'i':
            out.append(['i', rng.randrange(-n, n)])
        elif kind == 's':
            out.append(rand_slice(rng, n))
        else:
            out.append(['s', None, None, None])
        k += 1
    if use_ell:
        pos = 0
        cov = 0
        while pos < len(out) and cov < before:
            cov += len(out[pos][1]) if out[pos][0] == 'm' else 1
            pos += 1
        out.insert(pos, ['e'])
    return out


def has_kind(idx, k):
    return any(e[0] == k for e in idx)


def n_arrays(idx):
    return sum(1 for e in idx if e[0] in ('a', 'm'))


SHAPES = [[4], [2, 3], [2, 1, 3], [3, 2, 2]]


class Check(PropertyCheck):
    id = 'C12'
    props = ['C12.v']
    static_targets = ['theories/Lemmas/IndexL.vo']
    coq_header = (
        'From Coq Require Import ZArith NArith List.\n'
        'From Furax Require Import Model.Op Model.Algebra Model.Index.\n'
        'Import ListNotations.\nOpen Scope Z_scope.'
    )
    shard = 300
    workers = 8
    partial = (
        'index tuples with np.newaxis/None entries and out-of-bounds integers are outside the model (the property '
        'quantifies over in-bounds int/slice/Ellipsis/array/mask expressions); the broadcast of NumPy advanced indexing '
        '(Model/Index.v:index_adv, tuples with two or more array entries) is a specification validated against NumPy '
        'and JAX on the generated scope, not derived from their source; unique_inference_sound, '
        'gather_positions_in_range, index_T_is_scatter_add_any_tuple and PPt_identity_iff_any_tuple are proved for '
        'every tuple, any number of array entries'
    )
    trusted = [
        'NumPy/JAX native indexing `leaf[indices]` as specified by Model/Index.v:leaf_gather = index_leaf (ints, slices, '
        'one Ellipsis, at most one boolean/integer array, NumPy placement of the advanced dimensions) + index_adv (two or '
        'more array entries: masks as nonzero() index arrays over the merged mask axes, broadcasting of the index arrays '
        'and ints to a common shape, broadcast axes in place of an adjacent advanced block / in front otherwise, '
        'ValueError when the shapes do not broadcast) - a specification validated against NumPy and JAX on the '
        'generated scope (every case is also compared with NumPy by the oracle); out-of-bounds integers are outside '
        'the modelled domain',
        'jax.linear_transpose of a gather is the scatter-add (zeros.at[sel].add(y)) - compared on every case with '
        'op.T.mv and np.add.at, not proved about JAX',
        'jnp.unique(size=n, fill_value=-1, return_counts=True) and .at[].add with wrap-around of negative positions '
        'as specified by Model/Algebra.v:unique_counts/coverage_of; the indices_are_sorted/unique_indices hints do '
        'not change the CPU result',
        'DiagonalOperator(values 1-d, axis_destination=axis) multiplies along that axis (C11): Model/Index.v:diag_along',
        'jax.tree.map / jax.tree.leaves act leaf by leaf in flattening order: a pytree is modelled by its list of leaves; '
        'StokesPyTree containers are registered pytrees',
        'jax.eval_shape yields the shapes of the traced function and raises what it raises',
        'CompositionOperator.reduce / AlgebraicReductionRule restricted to the pairs (P, P.T), (P.T, P) (no other '
        'registered binary rule matches these classes; C01 covers the general driver)',
        'the model has no index dtype: XArr stands for an integer array of any integer kind, XMask for dtype bool '
        '(the code distinguishes only `dtype == bool`); every JAX integer dtype available with x64 off (int8, int16, '
        'int32, uint8, uint16, uint32) is run against the same model term; int64/uint64 JAX index arrays need '
        'jax_enable_x64 and are NOT exercised; NumPy index arrays / NumPy scalars (outside the annotated domain '
        '`Integer[Array]` / `int`: indexed_axes and TransposeIndexRule raise on them), Python bools and rank-0 masks '
        'are judged by the NumPy oracle only, not by the model',
        'correspondence harness harness/c12.py',
    ]

    # ------------------------------------------------------------------------------------------
    def cases(self):
        quick = self.tier == 'quick'
        rng = self.rng
        cases: list[dict] = []
        seen = set()

        def add(idx, ins, single=False, outs='auto', user=None, level='full', cont=None, kind='index', **kw):
            """outs: 'auto' = given iff a mask is present; 'given' / None explicit; a list = those shapes."""
            if outs in ('auto', 'given'):
                need = outs == 'given' or has_kind(idx, 'm')
                if need:
                    refs = [np_index(sh, idx) for sh in ins]
                    outs = None if any(r is None for r in refs) else [r[0] for r in refs]
                else:
                    outs = None
            c = {'kind': kind, 'idx': idx, 'single': single, 'ins': ins, 'outs': outs, 'user': user, 'level': level}
            if cont:
                c['cont'] = cont
            if any(foreign(e) for e in idx):
                c['lenient'] = True
            if any(foreign(e) or unmodelled(e) for e in idx):
                c['nomodel'] = True
            c.update(kw)
            key = lib.case_id(c)
            if key not in seen:
                seen.add(key)
                cases.append(c)

        def keep(p, pt=1.0):
            q = p if quick else pt
            return q >= 1.0 or rng.random() < q

        # (A) single entries ------------------------------------------------------------------
        for sh in SHAPES + [[3], [1], [2]]:
            n = sh[0]
            for z in range(-n, n):
                add([['i', z]], [sh], single=True, level='full' if keep(0.5) else 'lite')
                add([['i', z]], [sh], single=False, level='lite')
                add([['e'], ['i', z % sh[-1] - (sh[-1] if z < 0 else 0)]], [sh], level='lite')
            vals = [None, 0, 1, -1, 2, -2, n, -n - 1]
            for a in vals:
                for b in vals:
                    for st in (None, 1, -1, 2, -2, 3):
                        if keep(0.12, 1.0):
                            add([['s', a, b, st]], [sh], single=rng.random() < 0.5, level='full' if keep(0.08, 0.1) else 'ctor')
            # the DESIGN scope {None,0,1,-1,2}^3 (step 0 excluded) on the ellipsis side
            for a, b, st in itertools.product([None, 0, 1, -1, 2], repeat=3):
                if st != 0 and keep(0.15, 1.0):
                    add([['e'], ['s', a, b, st]], [sh], level='ctor')
            # masks on the first axis: all of them for n <= 4
            for bits in itertools.product([False, True], repeat=n):
                add([['m', [n], list(bits)]], [sh], single=True, level='full' if keep(0.35) else 'lite')
            if len(sh) >= 2:
                for bits in itertools.product([False, True], repeat=n * sh[1]):
                    if keep(6.0 / 2 ** (n * sh[1]), 40.0 / 2 ** (n * sh[1])):
                        add([['m', [n, sh[1]], list(bits)]], [sh], single=True, level='full' if keep(0.5) else 'lite')
                for bits in itertools.product([False, True], repeat=sh[-1]):
                    if keep(0.5):
                        add([['e'], ['m', [sh[-1]], list(bits)]], [sh], level='full' if keep(0.3) else 'lite')
        # integer arrays on one axis: all value tuples over [-n, n) up to length L for n <= 3
        for sh in ([2], [3], [2, 3], [3, 2, 2], [1], [2, 1, 3]):
            n = sh[0]
            L = 3 if (quick or n == 3) else 4
            for length in range(1, L + 1):
                for vals in itertools.product(range(-n, n), repeat=length):
                    if len(sh) > 1 and not keep(0.12, 0.5):
                        continue
                    if len(sh) == 1 and n == 3 and length == 3 and not keep(0.4):
                        continue
                    add([['a', [length], list(vals)]], [sh], single=rng.random() < 0.5,
                        level='full' if (len(sh) == 1 and length <= 2) or keep(0.35, 0.6) else 'lite')
        for sh in SHAPES:  # through the ellipsis, rank-2 arrays, rank-0 array, other axes
            r = len(sh)
            for _ in range(14 if quick else 120):
                ax = rng.randrange(r)
                n = sh[ax]
                ar = rand_arr(rng, n)
                if rng.random() < 0.1:
                    z = rng.randrange(-n, n)
                    ar = arr([], [z], rand_dtype(rng, [z]))
                if rng.random() < 0.5:
                    idx = [['s', None, None, None]] * ax + [ar]
                    if rng.random() < 0.3:
                        idx = idx + [['e']]
                else:
                    idx = [['e'], ar] + [['s', None, None, None]] * (r - 1 - ax)
                add(idx, [sh], user=rng.choice([None, None, False]))
        # truthful / untruthful user flags on integer arrays
        for sh in ([4], [2, 3]):
            n = sh[0]
            for _ in range(10 if quick else 60):
                add([rand_arr(rng, n, unique=True)], [sh], user=True, single=rng.random() < 0.5)
                add([rand_arr(rng, n, unique=True)], [sh], user=rng.choice([None, False]))
                add([rand_arr(rng, n)], [sh], user=True, level='lite')  # possibly untruthful: only the logic is compared
            add([['s', 0, 2, None]], [sh], user=False)  # overridden to True
            add([['i', 0]], [sh], user=False, single=True)
        # (G) integer KIND of the index arrays: every JAX dtype of JDT, repeated and non-repeated values ---------
        FULL = [['s', None, None, None]]
        for dt in JDT:
            lo = 0 if dt[0] == 'u' else None
            # all value tuples of length <= 2 on a (3,) leaf, length 3 sampled (the int32 ones are those of (A))
            for length in (1, 2, 3):
                for vals in itertools.product(range(-3 if lo is None else 0, 3), repeat=length):
                    if length == 3 and not keep(10.0 / (27 if lo == 0 else 216), 0.5):
                        continue
                    add([arr([length], vals, dt)], [[3]], single=rng.random() < 0.5,
                        level='full' if length >= 2 or keep(0.5) else 'lite')
            # arrays of 0/1 of the length of the axis: the same bits as a mask (A) select something else
            for sh in ([2], [3], [2, 3]):
                n = sh[0]
                for bits in itertools.product([0, 1], repeat=n):
                    add([arr([n], bits, dt)], [sh], single=rng.random() < 0.5, outs=rng.choice([None, 'given']),
                        level='full' if keep(0.6) else 'lite')
                    if len(sh) > 1 and keep(0.5):
                        m = sh[-1]
                        add([['e'], arr([m], [b % m for b in bits] + [1] * (m - n), dt)], [sh])
            # rank-0 / rank-2 arrays on every axis, directly and through the Ellipsis; user flags
            for sh in ([2, 3], [3, 2, 2]):
                r = len(sh)
                for k in range(6 if quick else 40):
                    ax = rng.randrange(r)
                    n = sh[ax]
                    a = _rand_arr(rng, n, unique=k % 3 == 0)
                    if lo == 0:
                        a = [a[0], a[1], [v % n for v in a[2]]]
                    if k % 6 == 5:
                        a = ['a', [], a[2][:1]]
                    a = arr(a[1], a[2], dt)
                    idx = [FULL[0]] * ax + [a] + ([['e']] if rng.random() < 0.3 else [])
                    if rng.random() < 0.5:
                        idx = [['e'], a] + [FULL[0]] * (r - 1 - ax)
                    add(idx, [sh], user=rng.choice([None, None, False]))
            for sh in ([4], [2, 3]):
                n = sh[0]
                rep = [1 % n, 0, 1 % n]
                uni = [n - 1, 0]
                for user, vals, lv in ((None, rep, 'full'), (False, rep, 'full'), (True, rep, 'lite'),
                                       (None, uni, 'full'), (False, uni, 'full'), (True, uni, 'full')):
                    add([arr([len(vals)], vals, dt)], [sh], user=user, level=lv, single=rng.random() < 0.5)
                if lo is None:
                    add([arr([2], [1 - n, 1], dt)], [sh], user=None)  # a negative alias of the same element
                    add([arr([2], [-1, 0], dt)], [sh], user=True)
            # together with an int, a slice, a mask, a second array of another kind; in a pytree of two leaves
            other = JDT[(JDT.index(dt) + 2) % len(JDT)]
            for vals in ([1, 0, 1], [0, 1]):
                k = len(vals)
                add([['i', 1], arr([k], vals, dt)], [[2, 3]])
                add([['s', None, None, -1], arr([k], vals, dt)], [[2, 3]])
                add([arr([k], vals, dt), ['s', 0, 2, None]], [[2, 3]])
                add([arr([k], vals, dt), arr([k], [v + 1 for v in vals], other)], [[2, 3]])
                add([arr([k], vals, dt), arr([k], vals, dt)], [[2, 3]])
                add([['m', [2], [True, True]], arr([2], vals[:2], dt)], [[2, 3]])
                add([arr([k], vals, dt)], [[2, 3], [2, 2]], cont=rng.choice([None, 'list', 'tuple']))
                add([['e'], arr([k], vals, dt)], [[2, 3], [2]], cont=rng.choice([None, 'list', 'tuple']))
        # (H) entries of a foreign TYPE (oracle only; NumPy arrays / scalars leniently) --------------------------
        for dt in NDT:
            neg = dt[0] == 'i'
            for sh in ([4], [2, 3]):
                n = sh[0]
                sets = [[1 % n, 0, 1 % n], [n - 1, 0], [0]] + ([[1 - n, 1], [-1, 0]] if neg else [])
                for vals in sets:
                    add([arr([len(vals)], vals, dt, 'np')], [sh], single=rng.random() < 0.5, user=rng.choice([None, None, False]))
                add([arr([2], [n - 1, 0], dt, 'np')], [sh], user=True)
                add([arr([], [1 % n], dt, 'np')], [sh], single=True)
                for z in ([0, n - 1] + ([-1, -n] if neg else [])):
                    add([['i', z, dt]], [sh], single=rng.random() < 0.5)
                    add([['e'], ['i', z % sh[-1], dt]], [sh], level='lite')
            add([['e'], arr([2, 2], [2, 0, 0, 2], dt, 'np')], [[2, 3]])
            add([['e'], arr([2, 2], [2, 0, 1, 2], dt, 'np')], [[2, 3]], user=None)
            add([arr([2], [0, 1], dt, 'np'), arr([2], [1, 1], JDT[NDT.index(dt) % len(JDT)])], [[2, 3]])
            add([['i', 1, dt], ['s', None, None, None], ['i', 0, dt]], [[3, 2, 2]])
        for sh in ([4], [2, 3]):
            n = sh[0]
            for bits in itertools.product([False, True], repeat=n):
                if n > 2 and not keep(0.4):
                    continue
                add([['m', [n], list(bits), 'np']], [sh], single=True)
                add([['m', [n], list(bits), 'np']], [sh], outs=None, level='lite')  # not recognised as a mask
        add([['e'], ['m', [3], [True, False, True], 'np']], [[2, 3]])
        add([['m', [2, 3], [True, False, True, True, False, False], 'np']], [[2, 3]], single=True)
        for sh in ([4], [2, 3], [2, 1, 3]):
            for b in (True, False):
                add([['b', b]], [sh], single=True)
                add([['b', b]], [sh])
                add([['e'], ['b', b]], [sh])
                add([['i', 1], ['b', b]], [sh])
                add([['b', b], ['s', 1, None, None]], [sh])
                add([['m', [], [b]]], [sh], single=True)
                add([['m', [], [b]]], [sh], outs=None, level='ctor')
                add([['i', 0], ['m', [], [b]]], [sh])
        # (B) tuples of up to 3 entries (at most one array entry) --------------------------------
        for sh in SHAPES + [[2, 2], [3, 1, 2], [2, 2, 2, 2]]:
            for _ in range(110 if quick else 900):
                idx = rand_tuple(rng, sh, maxlen=min(3, len(sh)), arrays='one')
                lv = 'full' if has_kind(idx, 'a') and keep(0.5, 0.6) or keep(0.12, 0.25) else 'lite'
                add(idx, [sh], level=lv)
            for _ in range(40 if quick else 300):
                idx = rand_tuple(rng, sh, maxlen=min(3, len(sh)), arrays='none')
                add(idx, [sh], level='full' if keep(0.15, 0.3) else 'ctor')
        # ellipsis at each position of an int/slice/array tuple
        for sh in ([2, 1, 3], [3, 2, 2]):
            base_sets = [
                [['i', 1], ['s', None, None, None]],
                [['i', -1], ['a', [2], [0, 0]]],
                [['s', None, None, None], ['a', [3], [1, 0, 1]]],
                [['i', 0], ['i', 0]],
                [['s', None, None, -1], ['m', [sh[-1]], [True] + [False] * (sh[-1] - 1)]],
            ]
            for base in base_sets:
                for pos in range(len(base) + 1):
                    idx = base[:pos] + [['e']] + base[pos:]
                    if all(np_index(sh, idx) is not None for _ in (0,)):
                        add(idx, [sh])
        # (C) two or more array entries: NumPy advanced indexing with broadcasting (Model/Index.v:index_adv) -----
        for sh in ([2, 3], [3, 2, 2], [2, 1, 3]):
            for _ in range(12 if quick else 100):
                r = len(sh)
                axs = sorted(rng.sample(range(r), 2))
                size = rng.choice([1, 2, 3])
                idx = []
                for ax in range(axs[1] + 1):
                    if ax in axs:
                        n = sh[ax]
                        if rng.random() < 0.25:
                            bits = [False] * n
                            for p in rng.sample(range(n), min(size, n)):
                                bits[p] = True
                            idx.append(['m', [n], bits])
                        else:
                            vs = [rng.randrange(-n, n) for _ in range(size)]
                            idx.append(arr([size], vs, rand_dtype(rng, vs)))
                    else:
                        idx.append(rng.choice([['s', None, None, None], ['i', rng.randrange(-sh[ax], sh[ax])]]))
                if all(np_index(s, idx) is not None for s in [sh]):
                    add(idx, [sh], level='full' if keep(0.5) else 'lite')
        for sh in ([2, 3], [3, 2, 2], [2, 1, 3], [2, 3, 2, 2]):
            got = 0
            tries = 0
            while got < (34 if quick else 300) and tries < 5000:
                tries += 1
                idx = rand_multi(rng, sh)
                if n_arrays(idx) < 2 and rng.random() < 0.9:
                    continue
                if np_index(sh, idx) is not None:
                    add(idx, [sh], level='full' if keep(0.4, 0.5) else 'lite', user=rng.choice([None, None, None, False]))
                    got += 1
                elif rng.random() < 0.3:  # malformed: NumPy rejects (broadcast / mask-count mismatch)
                    add(idx, [sh], level='ctor')
                    add(idx, [sh], level='ctor', outs=[[1]])
        # several masks only (unique_indices inferred True): all pairs of masks with equal counts on a (2,3) leaf
        for b0 in itertools.product([False, True], repeat=2):
            for b1 in itertools.product([False, True], repeat=3):
                if sum(b0) in (sum(b1), 1) or sum(b1) == 1:
                    if keep(0.6):
                        add([['m', [2], list(b0)], ['m', [3], list(b1)]], [[2, 3]], level='full' if keep(0.5) else 'lite')
                    if keep(0.3):
                        add([['m', [2], list(b0)], ['e'], ['m', [3], list(b1)]], [[2, 2, 3]], level='lite')
                    if keep(0.3):
                        add([['m', [2], list(b0)], ['s', None, None, -1], ['m', [3], list(b1)]], [[2, 2, 3]], level='full' if keep(0.3) else 'lite')
        # a mask next to an integer array (the uniqueness inference must not count the array as harmless)
        for bits, vals in (([True, False], [1, 1]), ([True, True], [1, 1]), ([True, True], [2, 0]), ([False, True], [0, -3]),
                           ([True, False], [0]), ([True, True], [-1])):
            for user in (None, False):
                add([['m', [2], bits], arr([len(vals)], vals)], [[2, 3]], user=user)
                add([arr([len(vals)], [v % 2 for v in vals]), ['e'], ['m', [2], bits]], [[2, 3, 2]], user=user)
                add([['m', [2], bits], ['s', None, None, None], arr([len(vals)], [v % 2 for v in vals])], [[2, 3, 2]], user=user, level='lite')
        # (D) pytrees with several leaves -------------------------------------------------------
        multi = [[[2, 3], [2, 3]], [[2, 3], [2, 2]], [[2, 3], [2, 3, 2]], [[4], [4], [4]], [[3, 2, 2], [2, 2]]]
        for ins in multi:
            for _ in range(28 if quick else 250):
                base = ins[rng.randrange(len(ins))]
                idx = rand_tuple(rng, base, maxlen=min(2, len(base)), arrays='one')
                if not all(np_index(s, idx) is not None for s in ins):
                    continue  # out of bounds on some leaf (JAX clamps): outside the property
                add(idx, ins, level='full' if keep(0.5, 0.7) else 'lite', cont=rng.choice([None, 'list', 'tuple']))
            for _ in range(8 if quick else 60):
                n = min(s[0] for s in ins)
                add([rand_arr(rng, n)], ins, single=True)
                n = min(s[-1] for s in ins)
                add([['e'], rand_arr(rng, n)], ins)
        # (E) rejected / malformed ---------------------------------------------------------------
        for sh in ([2, 3], [2, 1, 3]):
            add([['e'], ['e']], [sh], level='ctor')
            add([['e'], ['i', 0], ['e']], [sh], level='ctor', outs=[[2]])
            add([['i', 0], ['e'], ['e'], ['s', None, None, None]], [sh], level='ctor')
            for bits in ([True, False], [True, True]):
                add([['m', [2], bits]], [sh], outs=None, level='ctor')  # mask without out_structure
                add([['m', [2], bits]], [sh], outs=None, single=True, level='ctor')
                add([['i', 0], ['m', [sh[1]], [True] * sh[1]]], [sh], outs=None, level='ctor')
            # too many indices: raised by the abstract evaluation, or only by mv when out_structure is given
            many = [['i', 0]] * (len(sh) + 1)
            add(many, [sh], outs=None, level='ctor')
            add(many, [sh], outs=[[1]], level='ctor')
            add([['s', None, None, None]] * (len(sh) + 1), [sh], outs=None, level='ctor')
            add([['e']] + [['s', None, None, None]] * (len(sh) + 1), [sh], outs=None, level='ctor')
            # an explicit out_structure is taken as given
            add([['i', 0]], [sh], outs=[[7, 7]], level='ctor')
            add([['a', [2], [0, 1]]], [sh], outs='given', level='full')
            add([['s', 0, 1, None]], [sh], outs='given', level='full')
        # empty tuple, lone ellipsis, full slices: no indexed axis
        for sh in SHAPES + [[]]:
            add([], [sh])
            add([['e']], [sh])
            add([['e']], [sh], single=True)
            for k in range(1, len(sh) + 1):
                add([['s', None, None, None]] * k, [sh])
                add([['s', None, None, None]] * k + [['e']], [sh], level='lite')
                add([['e']] + [['s', None, None, None]] * k, [sh], level='lite')
            if sh:
                add([['s', None, None, 1]], [sh])  # a no-op that is not literally slice(None)
                add([['s', 0, None, None]], [sh], level='lite')
        # (F) PackOperator ----------------------------------------------------------------------
        conts = ['leaf', 'dict', 'list', 'tuple', 'stokesI', 'stokesIQU']
        for msh, rests in (([2], [[], [3]]), ([3], [[], [2]]), ([4], [[]]), ([2, 2], [[], [2]]), ([2, 3], [[]])):
            size = prod(msh)
            allbits = list(itertools.product([False, True], repeat=size))
            if size > 4:
                allbits = rng.sample(allbits, 10 if quick else 40)
            for bits in allbits:
                for rest in rests:
                    cont = rng.choice(conts)
                    nleaves = {'leaf': 1, 'stokesI': 1, 'stokesIQU': 3}.get(cont, rng.choice([1, 2]))
                    ins = [msh + rest] * nleaves
                    if cont in ('dict', 'list', 'tuple') and nleaves == 2 and rng.random() < 0.5:
                        ins = [msh + rest, msh + [2]]
                    cases.append({'kind': 'pack', 'msh': msh, 'bits': list(bits), 'ins': ins, 'cont': cont,
                                  'level': 'full' if keep(0.5) else 'lite'})
                    if rng.random() < 0.25:  # the same mask as a NumPy array
                        cases.append(dict(cases[-1], lib='np'))
        cases.append({'kind': 'pack', 'msh': [3], 'bits': [True, False, True], 'ins': [[2, 3]], 'cont': 'leaf', 'level': 'lite'})
        cases.append({'kind': 'pack', 'msh': [2], 'bits': [True, False], 'ins': [[2, 3], [3]], 'cont': 'dict', 'level': 'lite'})
        self.exhaustive = False
        return cases

    def search_cases(self):
        if self.tier != 'quick':
            return []
        other = type(self)('thorough', self.seed + 1)
        cs = other.cases()
        other.rng.shuffle(cs)
        return cs[:1500]

    def rule(self):
        return (
            'index: (A) on leaf shapes (4,),(2,3),(2,1,3),(3,2,2),(3,),(1,),(2,): ALL ints in range of either sign '
            '(bare, 1-tuple, after an Ellipsis); slices over {None,0,1,-1,2,-2,n,-n-1}^2 x steps {None,1,-1,2,-2,3} and the '
            'scope {None,0,1,-1,2}^3 behind an Ellipsis (sampled in quick, all in thorough); ALL boolean masks of the '
            'first axis, sampled rank-2 and last-axis masks; ALL integer arrays over [-n,n) of length <= 3 (4) for n <= 3 '
            '(sampled on rank > 1), arrays of rank 0-2 on every axis directly / through an Ellipsis, truthful and '
            'untruthful unique_indices flags; (B) seeded legal tuples of <= 3 entries mixing ints, slices, full slices, an '
            'Ellipsis and at most one array entry, Ellipsis at every position of fixed tuples; (C) tuples with two or more '
            'array entries, gather COMPUTED by the model (index_adv): seeded tuples on (2,3),(3,2,2),(2,1,3),(2,3,2,2) of '
            'integer arrays of rank 0-2 whose shapes broadcast to a common shape (suffixes, stretched 1s), rank-1/rank-2 '
            'masks, ints, slices and an optional Ellipsis in every order (adjacent block / separated: axes in front), '
            'user flag None/False; ALL pairs of masks with compatible counts on (2,3), also across an Ellipsis / a reversed '
            'slice on (2,2,3) (sampled in quick); a mask next to a repeating / non-repeating integer array; NumPy-rejected '
            'tuples (broadcast or mask-count mismatch) with and without out_structure; (D) pytrees of 2-3 leaves (equal shapes, different shapes, '
            'different ranks; dict/list/tuple); (G) the integer KIND of index arrays: for every JAX dtype in '
            '{int8,int16,int32,uint8,uint16,uint32} (x64 off; the arrays of the random classes B, C, D draw their kind '
            'too): ALL value tuples of length <= 2 (3 sampled) on a (3,) leaf, ALL 0/1 arrays of the length of the axis '
            '(the bit patterns of the masks of (A), as integers), seeded rank-0/1/2 arrays on every axis directly and '
            'through an Ellipsis, repeated / non-repeated / negative-alias values x unique_indices None/False/True, '
            'next to an int, a slice, a mask, a second array of another kind, in a two-leaf pytree - all compared with '
            'the dtype-free model term; (H) oracle only: NumPy index arrays of the 8 integer dtypes and NumPy masks, '
            'NumPy integer scalars (lenient: outside the annotated domain, an exception is accepted, a returned value '
            'must be right), Python bools and rank-0 masks (strict); (E) rejected inputs: two Ellipses, mask without out_structure, too many '
            'indices with/without out_structure, arbitrary explicit out_structure; no-op expressions. pack: ALL masks of '
            'size <= 4 (sampled above) x trailing dims x containers {bare, dict, list, tuple, StokesI, StokesIQU}, a '
            'quarter of them also with the mask as a NumPy array. '
            'Levels: ctor (construction, structures, mv), lite (+ T.mv), full (+ both reductions and the dense matrices). '
            'Non-trivial: the operator selects something other than the whole leaf, or the input is rejected.'
        )

    def distribution(self, cases):
        d: dict = {}
        for c in cases:
            if c['kind'] == 'pack':
                k = 'pack/' + c['cont'] + '/' + c['level']
            else:
                kinds = ''.join(sorted({e[0] for e in c['idx']})) or 'empty'
                k = f'index/{kinds}/leaves{len(c["ins"])}/{c["level"]}'
                for e in c['idx']:  # second tally (not disjoint from the first): kind of every array / scalar entry
                    t = None
                    if e[0] == 'a':
                        t = ('numpy:' if len(e) > 4 else 'jax:') + (e[3] if len(e) > 3 else 'int32')
                    elif e[0] == 'm':
                        t = 'numpy:bool' if len(e) > 3 else 'jax:bool'
                    elif e[0] == 'i' and len(e) > 2:
                        t = 'numpy-scalar:' + e[2]
                    elif e[0] == 'b':
                        t = 'python:bool'
                    if t:
                        d['entry-type/' + t] = d.get('entry-type/' + t, 0) + 1
            d[k] = d.get(k, 0) + 1
        return d

    def nontrivial(self, case, obs):
        if isinstance(obs, dict):
            return True
        mv = obs[3]
        if isinstance(mv, dict):
            return True
        return any(g[1] != list(range(prod(sh))) for g, sh in zip(mv, case['ins']))

    def finding_key(self, case, obs):
        return case.get('key')

    # ------------------------------------------------------------------------------------------
    def run_impl(self, case):
        jax, jnp, np, indices, linear, core, diagonal = fx()
        ins = case['ins']
        cont = case.get('cont')
        if case['kind'] == 'pack':
            mask = (np if case.get('lib') == 'np' else jnp).asarray(case['bits'], dtype=bool).reshape(tuple(case['msh']))
            op = attempt(lambda: linear.PackOperator(mask, structure(ins, cont)))
            if op[0] == 'err':
                return {'error': op[1]}
            return observe(op[1], case, is_pack=True)
        idx = tuple(ent_py(e, jnp) for e in case['idx'])
        arg = idx[0] if case['single'] else idx
        kw = {}
        if case['outs'] is not None:
            kw['out_structure'] = structure(case['outs'], cont if len(case['outs']) == len(ins) else None)
        if case['user'] is not None:
            kw['unique_indices'] = case['user']
        op = attempt(lambda: indices.IndexOperator(arg, in_structure=structure(ins, cont), **kw))
        if op[0] == 'err':
            return {'error': op[1]}
        return observe(op[1], case)

    def comparable(self, case, obs):
        if isinstance(obs, list):
            return obs[:8]
        return obs

    # ------------------------------------------------------------------------------------------
    def model_term(self, case):
        if case.get('nomodel'):
            return None  # NumPy arrays / scalars, Python bools, rank-0 masks: judged by the oracle only
        ins = clist(case['ins'], cshape)
        level = LEVELS[case.get('level', 'full')]
        if case['kind'] == 'pack':
            return f'obs_pack {cshape(case["msh"])} {clist(case["bits"], cbool)} {ins} {self._ys_term(case)}'
        ents = [ent_coq(e) for e in case['idx']]
        arg = f'(ASingle {ents[0]})' if case['single'] else f'(ATuple {clist(ents)})'
        outs = copt(case['outs'], lambda o: clist(o, cshape))
        user = copt(case['user'], cbool)
        return f'obs_index {arg} {ins} {outs} {user} {self._ys_term(case)}'

    def _ys_term(self, case):
        """y = 1..m per output leaf; the output sizes come from the NumPy reference."""
        ys = []
        if case['kind'] == 'pack':
            idx = [['m', case['msh'], case['bits']]]
        else:
            idx = case['idx']
        for k, sh in enumerate(case['ins']):
            r = np_index(sh, idx)
            m = len(r[1]) if r else 0
            ys.append(list(range(1, m + 1)))
        return clist(ys, lambda y: clist(y, cz))

    def decode(self, case, v):
        def conv(x):
            if isinstance(x, dict) and 'c' in x:
                c, a = x['c'], x['a']
                if c == 'Ok':
                    return conv(a[0])
                if c == 'Err':
                    return {'error': a[0]['c']}
                if c == 'RIdentity':
                    return 'I'
                if c == 'RTransposeOnly':
                    return 'T'
                if c == 'RComposition':
                    return 'C'
                if c == 'RDiagonal':
                    return ['D', conv(a[0]), conv(a[1])]
                return c
            if isinstance(x, (list, tuple)):
                return [conv(i) for i in x]
            return x

        v = conv(v)
        level = LEVELS[case.get('level', 'full')]
        if isinstance(v, dict):
            if case['kind'] == 'pack':  # the constructor validates nothing: out_structure() and mv raise
                return [None, None, v, v, None, None, None, None]
            return v
        if case['kind'] == 'pack':
            mv, tmv = v
            out = [None, None, [g[0] for g in mv], mv, tmv if level >= 6 else None, None, None, None]
            if level >= 8:
                out[6] = 'I'  # PackUnpackRule: (pack @ pack.T) -> identity, unconditionally
                out[7] = 'C'  # no rule for pack.T @ pack
            return out
        v = list(v)
        mv_failed = isinstance(v[3], dict)
        for i in range(8):
            if i >= level or (mv_failed and i in (4, 6, 7)):
                v[i] = None
        return v

    # ------------------------------------------------------------------------------------------
    def oracle(self, case, obs):
        if case['kind'] == 'pack':
            idx = [['m', case['msh'], case['bits']]]
            what = f'PackOperator(mask {case["msh"]} {case["bits"]}) on {case.get("cont")} {case["ins"]}'
            return self.oracle_common(case, obs, idx, what, is_pack=True)
        idx = case['idx']
        what = f'IndexOperator({"" if not case["single"] else "bare "}{idx}, user_unique={case["user"]}, outs={case["outs"]}) on {case["ins"]}'
        n_ell = sum(1 for e in idx if e[0] == 'e')
        refs = [np_index(sh, idx) for sh in case['ins']]
        legal = n_ell <= 1 and all(r is not None for r in refs)
        if n_ell > 1:
            if not isinstance(obs, dict):
                return f'{what}: accepted with {n_ell} Ellipses'
            return None
        lenient = bool(case.get('lenient'))  # NumPy arrays / scalars: outside the annotated domain, may raise
        if case['outs'] is None and has_kind(idx, 'm'):
            if lenient:  # a NumPy mask is not recognised as a mask: either refusal or a right operator
                return None if isinstance(obs, dict) else self.oracle_common(case, obs, idx, what)
            if not isinstance(obs, dict) or obs.get('error') != 'ValueError':
                return f'{what}: a mask without out_structure must raise ValueError, got {obs if isinstance(obs, dict) else "an operator"}'
            return None
        if not legal:
            return None  # NumPy rejects the expression for some leaf: outside the property
        if isinstance(obs, dict):
            if lenient:
                return None
            return f'{what}: legal in-bounds index expression rejected with {obs}'
        return self.oracle_common(case, obs, idx, what)

    def oracle_common(self, case, obs, idx, what, is_pack=False):
        np = fx()[2]
        ins = case['ins']
        if isinstance(obs, dict):
            return f'{what}: rejected with {obs}'
        uniq, axes, outs, mv, tmv, rid, ppt, ptp, extras = obs
        refs = [np_index(sh, idx) for sh in ins]
        if any(r is None for r in refs):
            return None
        lenient = bool(case.get('lenient'))

        def raised(v):  # lenient cases: an exception is accepted wherever it occurs, a returned value must be right
            return lenient and isinstance(v, dict) and 'error' in v

        declared_ok = case.get('outs') is None or case['outs'] == [r[0] for r in refs]
        if declared_ok and outs != [r[0] for r in refs] and not raised(outs):
            return f'{what}: out_structure {outs}, NumPy x[idx] has shapes {[r[0] for r in refs]}'
        if mv != refs and not raised(mv):
            return f'{what}: mv(arange) = {mv}, NumPy x[idx] = {refs}'
        if tmv is not None and not raised(tmv):
            exp = [np_scatter(sh, idx, list(range(1, len(r[1]) + 1))) for sh, r in zip(ins, refs)]
            if tmv != exp:
                return f'{what}: T.mv(1..m) = {tmv}, np.add.at gives {exp}'
        sels = [r[1] for r in refs]
        nodup = all(len(set(s)) == len(s) for s in sels)
        noop = all(s == list(range(prod(sh))) and r[0] == list(sh) for s, sh, r in zip(sels, ins, refs))
        if not is_pack:
            if isinstance(axes, dict) and not raised(axes):
                return f'{what}: indexed_axes raised {axes}'
            if rid is True and not noop:
                return f'{what}: reduce() is the IdentityOperator although x[idx] != x'
            truthful = case['user'] is not True or nodup
            if uniq and truthful and not nodup:
                return f'{what}: unique_indices inferred True although an element is selected twice ({sels})'
        else:
            truthful = True
        if not declared_ok:
            return None
        for name, val, lab in (('ppt', ppt, 'P @ P.T'), ('ptp', ptp, 'P.T @ P')):
            if val is None:
                continue
            if raised(val):
                continue
            if isinstance(val, dict):
                return f'{what}: ({lab}).reduce() raised {val}'
            ex = extras.get(name) if isinstance(extras, dict) else None
            if not ex or raised(ex['full']) or raised(ex['red']) or raised(ex['structs']):
                continue
            # explicit selection matrices from the NumPy reference (block diagonal over the leaves)
            m_tot = sum(len(s) for s in sels)
            n_tot = sum(prod(sh) for sh in ins)
            P = np.zeros((m_tot, n_tot), dtype=np.int64)
            ro = co = 0
            for s, sh in zip(sels, ins):
                for j, p in enumerate(s):
                    P[ro + j, co + p] = 1
                ro += len(s)
                co += prod(sh)
            expm = (P @ P.T if name == 'ppt' else P.T @ P).tolist()
            if ex['full'] != expm:
                return f'{what}: dense matrix of {lab} is {ex["full"]}, selection matrices give {expm}'
            if name == 'ppt' and not truthful:
                continue  # an untruthful unique_indices=True flag: outside the property
            if ex['red'] != ex['full']:
                return (f'{what}: ({lab}).reduce() = {val} has dense matrix {ex["red"]} but {lab} has {ex["full"]}')
            if ex['structs'] != [True, True]:
                return f'{what}: ({lab}).reduce() changes the structures: {ex["structs"]}'
            if name == 'ppt' and val == 'I' and not nodup:
                return f'{what}: P @ P.T simplified to the identity although an element is selected twice'
            if name == 'ptp' and isinstance(val, list) and val[0] == 'D':
                pass  # its matrix was compared above; the multiplicities are those of np.bincount by construction
        return None
