"""C13 - axis operators (MoveAxis, Ravel, Reshape and the lazy reshape transpose) are exact relabellings.

Cases are JSON descriptions; `run_impl` builds the REAL furax operators from them, `model_term` the
corresponding term of Model/Axes.v (+ Model/AxesObs.v); the oracle compares the implementation with
numpy.moveaxis / numpy.reshape / an explicit flattening, never with the model.

Every case that calls reduce() on a composition of axis operators (op.T @ op and op @ op.T of every non-lite
operator case, move-axis pairs, ravel / reshape next to a transposed ravel / reshape - same object,
equal-but-distinct objects, different operators sharing one side, both orders -, mixed pairs, chains)
observes what the reduced operator DOES (`red_obs`: class, in / out structures, values on the arange input)
next to the unreduced composition, and `judge_red` compares the two with each other and with the NumPy
relabellings applied one after the other.
"""
from __future__ import annotations

import itertools
from math import prod

import lib
from lib import PropertyCheck, clist, cz

NAMES = {
    'IdentityOperator': 0,
    'MoveAxisOperator': 1,
    'RavelOperator': 2,
    'ReshapeOperator': 3,
    'ReshapeTransposeOperator': 4,
    'CompositionOperator': 5,
}

_cache: dict = {}


def fx():
    if 'mods' not in _cache:
        import jax
        import jax.numpy as jnp
        import numpy as np
        from furax._base import axes

        # exceptions are ordinary observations here; filtering their tracebacks costs ~20 ms each
        jax.config.update('jax_traceback_filtering', 'off')
        _cache['mods'] = (jax, jnp, np, axes)
    return _cache['mods']


# ----------------------------------------------------------------------------------------------
# results with the bind discipline of the model (the first error wins, in evaluation order)


class Err(Exception):
    def __init__(self, kind):
        self.kind = kind


def attempt(f):
    """('ok', value) or ('err', kind)."""
    try:
        return ('ok', f())
    except Err as e:
        return ('err', e.kind)
    except BaseException as e:  # AssertionError, ZeroDivisionError, NoReduction(BaseException) ...
        if isinstance(e, (KeyboardInterrupt, SystemExit)):
            raise
        return ('err', type(e).__name__)


def unwrap(r):
    if r[0] == 'err':
        raise Err(r[1])
    return r[1]


def show(r, f=lambda v: v):
    return {'error': r[1]} if r[0] == 'err' else f(r[1])


def structure(ins):
    jax, jnp, np, axes = fx()
    key = ('st', tuple(map(tuple, ins)))
    if key not in _cache:
        leaves = [jax.ShapeDtypeStruct(tuple(s), jnp.float32) for s in ins]
        _cache[key] = leaves[0] if len(leaves) == 1 else {chr(97 + i): l for i, l in enumerate(leaves)}
    return _cache[key]


def arange_tree(ins):
    jax, jnp, np, axes = fx()
    key = ('ar', tuple(map(tuple, ins)))
    if key not in _cache:
        leaves = [jnp.arange(prod(s), dtype=jnp.float32).reshape(tuple(s)) for s in ins]
        _cache[key] = leaves[0] if len(leaves) == 1 else {chr(97 + i): l for i, l in enumerate(leaves)}
    return _cache[key]


def shapes_of(tree):
    jax = fx()[0]
    return [list(l.shape) for l in jax.tree.leaves(tree)]


def datas_of(tree):
    jax, jnp, np, axes = fx()
    out = []
    for l in jax.tree.leaves(tree):
        a = np.asarray(l)
        out.append([list(a.shape), [int(v) for v in a.ravel().tolist()]])
    return out


def name_of(op):
    return NAMES.get(type(op).__name__, type(op).__name__)


def red_obs(mk):
    """Mirror of AxesObs.obs_red on the real operators; mk() builds the composition c (it may raise):
    {'red': [class of c.reduce(), c.in_structure(), c.out_structure(), c(x), the same three of c.reduce()],
     'same': implementation-only: does c.reduce() have the very in / out structure objects (pytree definition,
     shapes, dtypes) of c}, with x the arange-valued input of c."""
    c = attempt(mk)
    if c[0] == 'err':
        return {'error': c[1]}
    c = c[1]
    ins = attempt(lambda: shapes_of(c.in_structure()))
    if ins[0] == 'err':
        return {'error': ins[1]}
    x = arange_tree(ins[1])
    r = attempt(lambda: c.reduce())
    same = None
    if r[0] == 'ok':
        same = [
            show(attempt(lambda: bool(r[1].in_structure() == c.in_structure()))),
            show(attempt(lambda: bool(r[1].out_structure() == c.out_structure()))),
        ]
    return {
        'red': [
            show(r, name_of),
            ins[1],
            show(attempt(lambda: shapes_of(c.out_structure()))),
            show(attempt(lambda: datas_of(c(x)))),
            show(attempt(lambda: shapes_of(unwrap(r).in_structure()))),
            show(attempt(lambda: shapes_of(unwrap(r).out_structure()))),
            show(attempt(lambda: datas_of(unwrap(r)(x)))),
        ],
        'same': same,
    }


def strip_same(o):
    """The observation without the implementation-only components (not modelled)."""
    if isinstance(o, dict):
        return {k: strip_same(v) for k, v in o.items() if k != 'same'}
    if isinstance(o, list):
        return [strip_same(v) for v in o]
    return o


LITE_KEEP = (0, 1, 3, 6)


def obs_op(op, ins, lite=False):
    """Mirror of Axes.obs_op on the real operator: [out_structure, op(x), structures of op.T, op.T(op(x)),
    red_obs of op.T @ op, red_obs of op @ op.T (AxesObs.red_pair), class of op.reduce(), op(op.T(y))].
    When out_structure() raises, nothing else is observed; `lite` keeps components 0, 1, 3, 6."""
    x = arange_tree(ins)
    out = attempt(lambda: shapes_of(op.out_structure()))
    if out[0] == 'err':
        return [show(out)] + [None] * 7
    y = attempt(lambda: op(x))
    t = attempt(lambda: op.T)

    def tstructs():
        tt = unwrap(t)
        a = shapes_of(tt.in_structure())
        b = shapes_of(tt.out_structure())
        return [a, b]

    def roundtrip():
        tt = unwrap(t)
        yy = unwrap(y)
        return datas_of(tt(yy))

    def red_to():
        return red_obs(lambda: unwrap(t) @ op)

    def red_ot():
        return red_obs(lambda: op @ unwrap(t))

    def roundtrip2():
        tt = unwrap(t)
        outs = unwrap(out)
        return datas_of(op(tt(arange_tree(outs))))

    fs = [
        None,
        None,
        tstructs,
        roundtrip,
        red_to,
        red_ot,
        lambda: name_of(op.reduce()),
        roundtrip2,
    ]
    res = [show(out), show(y, datas_of)]
    for i in range(2, 8):
        if lite and i not in LITE_KEEP:
            res.append(None)
        elif i in (4, 5):
            res.append(fs[i]())
        else:
            res.append(show(attempt(fs[i])))
    return res


def mask_model_obs(o, lite):
    """The model computes every component; keep those the implementation side observed."""
    if isinstance(o[0], dict):
        return [o[0]] + [None] * 7
    return [v if (not lite or i in LITE_KEEP) else None for i, v in enumerate(o)]


def axarg(a):
    return a if isinstance(a, int) else tuple(a)


def astuple(a):
    return [a] if isinstance(a, int) else list(a)


# ----------------------------------------------------------------------------------------------
# references, independent of the model


def np_moveaxis(shape, s, d):
    """numpy.moveaxis on the arange array: (shape, data) or None when numpy rejects the arguments."""
    np = fx()[2]
    a = np.arange(prod(shape)).reshape(tuple(shape))
    try:
        b = np.moveaxis(a, s, d)
    except Exception:
        return None
    return [list(b.shape), [int(v) for v in b.ravel().tolist()]]


def np_reshape(shape, target):
    """numpy.reshape of the arange array for a legal target (sizes >= 0, at most one -1 whose value is
    determined uniquely), else None.  numpy itself reads every negative size as "unknown", hence the
    explicit legality test."""
    np = fx()[2]
    target = list(target)
    if any(v < -1 for v in target) or target.count(-1) > 1:
        return None
    n = prod(shape)
    if -1 in target:
        rest = prod(v for v in target if v != -1)
        if rest == 0 or n % rest != 0:
            return None
        full = [n // rest if v == -1 else v for v in target]
    else:
        full = target
    if prod(full) != n:
        return None
    a = np.arange(n).reshape(tuple(shape))
    b = np.reshape(a, tuple(target))
    assert list(b.shape) == full
    return [full, [int(v) for v in b.ravel().tolist()]]


def flatten_between(shape, first, last):
    """Explicit flattening of axes first..last (given as in the call): None when an axis is out of
    range, 'reject' when the normalised first lies after the last, else the new shape."""
    r = len(shape)
    if not (-r <= first < r and -r <= last < r):
        return None
    f = first + r if first < 0 else first
    l = last + r if last < 0 else last
    if f > l:
        return 'reject'
    return list(shape[:f]) + [prod(shape[f : l + 1])] + list(shape[l + 1 :])


def arange_data(ins):
    return [[list(s), list(range(prod(s)))] for s in ins]


# operand specifications of the composition cases ('comp', 'chain'):
#   {'op': 'move', 's': [..], 'd': [..], 'ins': shapes | None}
#   {'op': 'ravel', 'first': f, 'last': l, 'ins': shapes | None, 'id': k, 'T': bool}
#   {'op': 'reshape', 'shape': [..], 'ins': shapes | None, 'id': k, 'T': bool}
# `ins` None: built on the out structure of the operand applied just before; 'T': the lazy transpose of the
# object; two ravel / reshape specifications with the same 'id' are ONE Python object.


def spec_move(s, d, ins=None):
    return {'op': 'move', 's': list(s), 'd': list(d), 'ins': ins}


def spec_rr(sp, ins, oid, T=False):
    """sp = ('ravel', first, last) | ('reshape', target)."""
    if sp[0] == 'ravel':
        return {'op': 'ravel', 'first': sp[1], 'last': sp[2], 'ins': ins, 'id': oid, 'T': T}
    return {'op': 'reshape', 'shape': list(sp[1]), 'ins': ins, 'id': oid, 'T': T}


def spec_str(sp):
    if sp['op'] == 'move':
        return f'MoveAxis({sp["s"]}, {sp["d"]})' + (f' on {sp["ins"]}' if sp['ins'] is not None else '')
    if sp['op'] == 'ravel':
        t = f'Ravel#{sp["id"]}({sp["first"]}, {sp["last"]})'
    else:
        t = f'Reshape#{sp["id"]}({sp["shape"]})'
    if sp['ins'] is not None:
        t += f' on {sp["ins"]}'
    return f'({t}).T' if sp.get('T') else t


def ref_struct(sp, prev_out=None):
    """NumPy / closed-form reference of an operand: (in shapes, out shapes), or None when the operand is not
    legal for the reference (or has an empty axis: outside the property)."""
    ins = sp['ins'] if sp['ins'] is not None else prev_out
    if ins is None or any(0 in sh for sh in ins):
        return None
    ins = [list(sh) for sh in ins]
    if sp['op'] == 'move':
        outs = [np_moveaxis(sh, tuple(sp['s']), tuple(sp['d'])) for sh in ins]
        if any(o is None for o in outs):
            return None
        return ins, [o[0] for o in outs]
    if sp['op'] == 'ravel':
        outs = [flatten_between(sh, sp['first'], sp['last']) for sh in ins]
        if any(o is None or o == 'reject' for o in outs):
            return None
    else:
        outs = [np_reshape(sh, sp['shape']) for sh in ins]
        if any(o is None for o in outs):
            return None
        outs = [o[0] for o in outs]
    return (outs, ins) if sp.get('T') else (ins, outs)


def ref_chain(ops):
    """Reference of on @ ... @ o1 (ops in application order) on the arange input: {'ins': shapes, 'out':
    [[shape, data]]}; None when an operand is not legal; 'mismatch' when two neighbours do not compose."""
    np = fx()[2]
    prev = None
    structs = []
    for sp in ops:
        st = ref_struct(sp, prev)
        if st is None:
            return None
        if prev is not None and st[0] != prev:
            return 'mismatch'
        structs.append(st)
        prev = st[1]
    x = [np.arange(prod(sh)).reshape(tuple(sh)) for sh in structs[0][0]]
    for sp, st in zip(ops, structs):  # one relabelling after the other
        if sp['op'] == 'move':
            x = [np.moveaxis(a, tuple(sp['s']), tuple(sp['d'])) for a in x]
        else:
            x = [np.reshape(a, tuple(sh)) for a, sh in zip(x, st[1])]
        assert [list(a.shape) for a in x] == st[1]
    return {'ins': structs[0][0], 'out': [[list(a.shape), [int(v) for v in a.ravel().tolist()]] for a in x]}


def build_chain(ops, assoc='l'):
    """The real operators of `ops` (application order) and their composition on @ ... @ o1."""
    axes = fx()[3]
    objs = {}
    built = []
    for sp in ops:
        # evaluation order of AxesObs.obs_comp: the previous operand's out_structure() is taken first
        prev_out = built[-1].out_structure() if built else None
        st = structure(sp['ins']) if sp['ins'] is not None else prev_out
        if sp['op'] == 'move':
            op = axes.MoveAxisOperator(tuple(sp['s']), tuple(sp['d']), in_structure=st)
        else:
            key = sp['id']
            ident = {k: v for k, v in sp.items() if k != 'T'}
            if key in objs:
                assert objs[key][0] == ident, 'one id, two specifications'
                op = objs[key][1]
            else:
                if sp['op'] == 'ravel':
                    op = axes.RavelOperator(sp['first'], sp['last'], in_structure=st)
                else:
                    op = axes.ReshapeOperator(tuple(sp['shape']), in_structure=st)
                objs[key] = (ident, op)
            if sp.get('T'):
                op = op.T
        built.append(op)
    if assoc == 'l':  # ((on @ on-1) @ ...) @ o1
        c = built[-1]
        for op in reversed(built[:-1]):
            c = c @ op
    else:  # on @ (... @ (o2 @ o1))
        c = built[0]
        for op in built[1:]:
            c = op @ c
    return c


# ----------------------------------------------------------------------------------------------
# case generators


def all_shapes(max_rank, dims=(1, 2, 3)):
    out = []
    for r in range(max_rank + 1):
        out += [list(t) for t in itertools.product(dims, repeat=r)]
    return out


def tuples_upto(values, maxlen):
    out = []
    for n in range(maxlen + 1):
        out += [list(t) for t in itertools.product(values, repeat=n)]
    return out


def legal_tuples(rank, length, negatives):
    """Axis tuples of the given length whose normalised entries are distinct and in range."""
    vals = list(range(-rank, rank)) if negatives else list(range(rank))
    out = []
    for t in itertools.product(vals, repeat=length):
        if len({v % rank for v in t}) == length:
            out.append(list(t))
    return out


REP = {0: [], 1: [3], 2: [2, 3], 3: [2, 3, 2], 4: [2, 1, 3, 2]}


def factorizations(n, length):
    if length == 0:
        return [[]] if n == 1 else []
    if length == 1:
        return [[n]]
    out = []
    for f in range(1, n + 1):
        if n % f == 0:
            out += [[f] + rest for rest in factorizations(n // f, length - 1)]
    return out


class Check(PropertyCheck):
    id = 'C13'
    props = ['C13.v']
    static_targets = ['theories/Lemmas/AxesL.vo', 'theories/Model/AxesObs.vo']
    coq_header = (
        'From Coq Require Import ZArith NArith List.\nFrom Furax Require Import Model.Axes Model.AxesObs.\n'
        'Import ListNotations.\nOpen Scope Z_scope.'
    )
    shard = 400
    workers = 6  # the real code runs in 6 processes (cases() is deterministic in (tier, seed))
    trusted = [
        'jnp.moveaxis (canonicalize_axis, order construction, lax.transpose permutation check and element map), '
        'Array.reshape (_compute_newshape, lax.reshape: row-major data kept) as specified in Model/Axes.v; '
        'checked against JAX on the enumerated scope only',
        'jax.tree.map / jax.tree.leaves act leaf by leaf in flattening order and keep the tree definition: a pytree '
        'is modelled by its list of leaves',
        'jax.eval_shape(self.mv, in_structure) yields the shapes of mv and raises what mv raises; dtypes are preserved',
        'float division -prod(leaf)/prod(shape) in ReshapeOperator._normalize_shape read over exact rationals '
        '(array sizes below 2**53)',
        "Python `is` modelled by harness-assigned object identifiers (ReshapeInverseRule)",
        'CompositionOperator.reduce / AlgebraicReductionRule restricted to two operands of the classes of axes.py '
        '(no other registered binary rule matches these classes)',
        'chains of 3-5 axis operators (kind chain) are outside the two-operand model: judged only by the '
        'implementation-side oracle (reduce() vs the unreduced composition vs NumPy relabellings applied one after the other)',
        'the pytree definition / dtype equality of the structures of c.reduce() and c is an implementation-only '
        'observation (the model sees lists of leaf shapes)',
        'correspondence harness harness/c13.py',
    ]

    # ------------------------------------------------------------------------------------------
    def cases(self):
        quick = self.tier == 'quick'
        rng = self.rng
        cases = []
        R = 3 if quick else 4
        L = 2 if quick else 3
        shapes = all_shapes(R)

        def keep(p, pt=1.0):
            q = p if quick else pt
            return q >= 1.0 or rng.random() < q

        def move(s, d, ins, lite=False):
            c = {'kind': 'move', 's': s, 'd': d, 'ins': ins}
            if lite and quick:
                c['lite'] = True
            cases.append(c)

        # -- move axis ------------------------------------------------------------------------
        # (a) source x destination tuples of length <= 2 over [-rank-1, rank] on one shape per rank
        #     (legal and illegal): all of them for rank <= 1 (thorough: rank <= 4), seeded sample above
        for r in range(R + 1):
            vals = list(range(-r - 1, r + 1))
            tl = tuples_upto(vals, 2)
            p = 1.0 if r <= 1 else (0.3 if r == 2 else 0.06)
            for s in tl:
                for d in tl:
                    if keep(p, 1.0 if r <= 3 else 0.25):
                        move(s, d, [REP[r]])
            for a in vals:  # the int form of the constructor arguments
                for b in vals:
                    if keep(0.5):
                        move(a, b, [REP[r]])
                    if a == b:
                        move(a, [b], [REP[r]])
        # (b) every shape x legal tuple pairs in non-negative form (length <= L)
        for sh in shapes:
            r = len(sh)
            for n in range(0, min(L, r) + 1):
                lt = legal_tuples(r, n, False)
                for s in lt:
                    for d in lt:
                        if keep(1.0 if r <= 2 or n <= 1 else 0.34, 1.0 if r <= 3 else 0.1):
                            move(s, d, [sh], lite=True)
        # (c) legal tuples with negative / mixed entries on the representative shapes
        for r in range(1, R + 1):
            for n in range(1, min(L, r) + 1):
                lt = legal_tuples(r, n, True)
                pairs = [(s, d) for s in lt for d in lt if min(s + d) < 0]
                cap = 120 if quick else 1000
                if len(pairs) > cap:
                    pairs = rng.sample(pairs, cap)
                for s, d in pairs:
                    move(s, d, [REP[r]])
        pool = [sh for sh in shapes if len(sh) >= 1]
        for _ in range(150 if quick else 3000):
            sh = rng.choice(pool)
            r = len(sh)
            n = rng.randint(1, min(L, r))
            lt = legal_tuples(r, n, True)
            move(rng.choice(lt), rng.choice(lt), [sh], lite=True)
        # (d) seeded tuples of length <= 3 beyond the enumerated scope (mostly illegal)
        for _ in range(120 if quick else 1500):
            r = rng.randint(1, 4 if quick else 5)
            sh = [rng.choice([1, 2, 3]) for _ in range(r)]
            n = rng.randint(1, 3)
            s = [rng.randint(-r - 1, r) for _ in range(n)]
            d = [rng.randint(-r - 1, r) for _ in range(rng.choice([n, n, n, n - 1, n + 1]))]
            move(s, d, [sh])
        # (e) pytrees with leaves of different rank (legal on both leaves, or on one only)
        two = [[[2, 3], [3, 2, 2]], [[1, 2, 3], [3, 2]]]
        if not quick:
            two += [[[2], [2, 3]], [[2, 3, 2], [2, 2, 3, 1]]]
        for ins in two:
            rmax = max(len(s) for s in ins)
            vals = list(range(-rmax, rmax))
            for n in (1, 2):
                for s in itertools.product(vals, repeat=n):
                    for d in itertools.product(vals, repeat=n):
                        if keep(1.0 if n == 1 else 0.04, 1.0 if n == 1 else 0.3):
                            move(list(s), list(d), ins)
        # (f) pairs of move-axis operators: the inverse rule must fire only on inverse pairs, and what
        #     (left @ right).reduce() does is compared with the unreduced composition (oracle `judge_red`)
        def movepair(s1, d1, s2, d2, ins):
            cases.append({'kind': 'comp', 'cls': 'movepair', 'l': spec_move(s2, d2), 'r': spec_move(s1, d1, ins), 'ins': ins})

        for r in range(1, R + 1):
            sh = REP[r]
            vals = list(range(-r, r))
            singles = [([a], [b]) for a in vals for b in vals]
            for (s1, d1) in singles:
                for (s2, d2) in singles:
                    near = s2 == d1 or d2 == s1
                    if keep(1.0 if r == 1 else (0.5 if near else 0.1) if r == 2 else (0.2 if near else 0.02)):
                        movepair(s1, d1, s2, d2, [sh])
            if r >= 2:
                lt = legal_tuples(r, 2, False)
                for s1 in lt:
                    for d1 in lt:
                        if keep(1.0 if r == 2 else 0.34):
                            for s2, d2 in ((d1, s1), (d1, d1), (s1, s1), (d1[::-1], s1), (d1, s1[::-1])):
                                movepair(s1, d1, s2, d2, [sh])
        # pytrees with several leaves: inverse pairs, the same move twice, sign-form near misses, crossed pairs
        for ins in ([[2, 3], [3, 2, 2]], [[1, 2, 3], [3, 2]], [[2, 3], [3, 2], [2, 2, 3]]):
            rmin = min(len(sh_) for sh_ in ins)
            lt = [t for n in (1, 2) for t in legal_tuples(rmin, n, True)]
            for s1 in lt:
                for d1 in lt:
                    if len(s1) == len(d1) and keep(0.12, 0.6):
                        movepair(s1, d1, d1, s1, ins)
                        movepair(s1, d1, s1, d1, ins)
                        movepair(s1, d1, [v - rmin if v >= 0 else v + rmin for v in d1], s1, ins)
                        movepair(s1, d1, d1[::-1], s1, ins)

        # -- ravel ----------------------------------------------------------------------------
        def ravel(first, last, ins, lite=False):
            c = {'kind': 'ravel', 'first': first, 'last': last, 'ins': ins}
            if lite and quick:
                c['lite'] = True
            cases.append(c)

        rshapes = all_shapes(R)
        full = [REP[r] for r in range(R + 1)] if quick else rshapes
        for sh in full:  # all (first, last) in [-5, 5]^2
            if len(sh) == 4 and not keep(1.0, 0.5):
                continue
            for first in range(-5, 6):
                for last in range(-5, 6):
                    ravel(first, last, [sh])
        if quick:  # every shape x every in-range pair (any sign form)
            for sh in rshapes:
                r = len(sh)
                for first in range(-r, r):
                    for last in range(-r, r):
                        ravel(first, last, [sh], lite=True)
        two_r = [[[2, 3], [3, 2, 2]], [[2], [2, 3]], [[], [2, 2]]]
        if not quick:
            two_r += [[[1, 2, 3], [3, 2]], [[3], [2, 1, 2]], [[2, 3, 1, 2], [3]], [[2, 2], [3, 3]], [[1], [1, 1, 1]]]
        for ins in two_r:
            for first in range(-5, 6):
                for last in range(-5, 6):
                    ravel(first, last, ins, lite=True)
        # leaves with an empty axis (outside the theorems' guard, modelled all the same)
        for sh in ([0], [0, 2], [2, 0], [2, 0, 3], [0, 2, 3], [2, 3, 0]):
            for first in range(-3, 3):
                for last in range(-3, 3):
                    if -len(sh) <= first < len(sh) and -len(sh) <= last < len(sh) or keep(0.3):
                        ravel(first, last, [sh], lite=True)

        # -- reshape --------------------------------------------------------------------------
        seen = set()
        reps = {tuple(v) for v in REP.values()}

        def add_reshape(target, ins, lite=None):
            key = (tuple(target), tuple(map(tuple, ins)))
            if key not in seen:
                seen.add(key)
                c = {'kind': 'reshape', 'shape': list(target), 'ins': ins}
                if lite is None:
                    lite = not (len(ins) == 1 and tuple(ins[0]) in reps)
                if lite and quick:
                    c['lite'] = True
                cases.append(c)

        for sh in rshapes:
            n = prod(sh)
            if len(sh) == 4 and not keep(1.0, 0.35):
                continue
            for length in range(0, 4):
                for f in factorizations(n, length):
                    add_reshape(f, [sh])
                    for i in range(length):  # one entry unknown
                        g = list(f)
                        g[i] = -1
                        add_reshape(g, [sh])
                        if not keep(0.25):
                            continue
                        for j in range(i + 1, length):  # two unknowns: illegal
                            h = list(g)
                            h[j] = -1
                            add_reshape(h, [sh])
                        k = (i + 1) % length
                        if k != i:
                            h = list(g)  # wrong size next to the unknown
                            h[k] = f[k] + 1
                            add_reshape(h, [sh])
                            h = list(g)
                            h[k] = 0  # zero next to the unknown: ZeroDivisionError in the code
                            add_reshape(h, [sh])
                            h = list(g)
                            h[k] = -2
                            add_reshape(h, [sh])
                    if length and keep(0.25):
                        h = list(f)
                        h[0] = f[0] + 1  # wrong size
                        add_reshape(h, [sh])
                        h = list(f)
                        h[-1] = -2
                        add_reshape(h, [sh])
                        h = list(f)
                        h[0] = -f[0]
                        if length > 1:
                            h[1] = -f[1]  # right product, negative sizes
                        add_reshape(h, [sh])
                        add_reshape(list(f) + [0], [sh])
            add_reshape([], [sh])
            add_reshape([0], [sh])
            add_reshape([0, -1], [sh])
            add_reshape([-1, 0], [sh])
            add_reshape([-1, -1], [sh])
        for sh in ([0], [0, 2], [2, 0, 3]):
            for t in ([0], [-1], [0, 2], [2, 0], [-1, 2], [0, -1], [-1, 0], [3, 0, -1], [6, -1], [-1, 3], [1]):
                add_reshape(t, [sh])
        two_s = [[[2, 3], [3, 2]], [[2, 3], [2, 2]], [[1, 2, 3], [3, 2, 2]], [[2, 3], [2, 5]], [[4], [2, 2]], [[2, 3], [3]]]
        for ins in two_s:
            for t in ([-1], [6], [2, -1], [-1, 2], [2, 3], [3, -1], [-1, 3], [1, -1, 2], [2, -1, 1], [-1, 1], [4, -1], [-1, -1], [6, -1], [2, 2], [-2]):
                add_reshape(t, ins, lite=False)
        # -- compositions of two ravel / reshape operators (one of them transposed) -------------------------
        # For every in-structure of STRUCTS all specifications legal on it (SPECS): ravel over every axis range
        # (two sign forms), reshape to every ordered factorisation (<= 3 factors, also with one -1) shared by
        # the leaves.  Classes of pairs, each in BOTH orders (a @ b.T and b.T @ a):
        #   same    one object with its own transpose                        (the rule must fire; identity)
        #   equal   equal-but-distinct objects (the composite IS the identity, whatever reduce() decides)
        #   in      DIFFERENT operators on one in-structure: a @ b.T is a re-chunking, b.T @ a composes only
        #           when the out structures agree too
        #   out     DIFFERENT operators (different in-structures) with one out-structure: b.T @ a
        #   bad     structures that do not compose (ValueError), sampled
        # and every pair is judged by `judge_red` (reduced vs unreduced vs NumPy).
        def rr_specs(ins):
            rmin = min(len(sh_) for sh_ in ins)
            out = []
            for f in range(rmin):
                for l in range(f, rmin):
                    out.append(('ravel', f, l))
            out += [('ravel', 0, -1), ('ravel', -1, -1)]
            if rmin >= 2:
                out += [('ravel', -2, -1), ('ravel', 1, -1)]
            sizes = [prod(sh_) for sh_ in ins]
            targets = [[-1]]
            if len(set(sizes)) == 1:
                targets += factorizations(sizes[0], 1) + factorizations(sizes[0], 2)
                targets += [f for f in factorizations(sizes[0], 3) if 1 not in f or f[1] == sizes[0]][:5]
            for k_ in (1, 2, 3, 4):
                if all(v % k_ == 0 for v in sizes):
                    targets += [[k_, -1], [-1, k_]]
                    if k_ == 2:
                        targets += [[1, k_, -1]]
            seen_t = []
            for t in targets:
                if t not in seen_t:
                    seen_t.append(t)
                    out.append(('reshape', t))
            return [sp for sp in out if ref_struct(spec_rr(sp, ins, 1)) is not None]

        def comp(l, r, cls):
            cases.append({'kind': 'comp', 'cls': cls, 'l': l, 'r': r, 'ins': r['ins']})

        core = [[[2, 3]], [[6]], [[2, 3, 2]], [[2, 3], [3, 2]], [[2, 3, 2], [4, 3]], [[2, 2], [3]]]
        more = [[[3, 2]], [[1, 6]], [[2, 3, 1]], [[4, 3]], [[12]], [[2, 2, 3]], [[2, 3], [2, 2]], [[2, 3], [3, 2], [6]],
                [[2, 3, 2], [2, 3, 2]], [[4], [2, 2]], [[2, 1, 3], [3, 2]]]
        by_out: dict = {}
        for ins in core + more:
            specs = rr_specs(ins)
            p_in = 0.2 if ins in core else 0.05
            for sa in specs:
                a1, a1t = spec_rr(sa, ins, 1), spec_rr(sa, ins, 1, T=True)
                comp(a1t, a1, 'same')
                comp(a1, a1t, 'same')
                comp(spec_rr(sa, ins, 2, T=True), a1, 'equal')
                comp(a1, spec_rr(sa, ins, 2, T=True), 'equal')
                by_out.setdefault(str(ref_struct(a1)[1]), []).append((sa, ins))
                for sb in specs:
                    if sb != sa and keep(p_in, 1.0 if ins in core else 0.5):
                        comp(a1, spec_rr(sb, ins, 2, T=True), 'in')   # a @ b.T: composes, not the identity
                        comp(spec_rr(sb, ins, 2, T=True), a1, 'in')   # b.T @ a: composes iff the outs agree
        for group in by_out.values():
            for sa, ia in group:
                for sb, ib in group:
                    if ia != ib and keep(0.15, 0.6):
                        comp(spec_rr(sb, ib, 2, T=True), spec_rr(sa, ia, 1), 'out')   # b.T @ a
                        comp(spec_rr(sa, ia, 1), spec_rr(sb, ib, 2, T=True), 'bad')   # a @ b.T: in-structures differ
        # the documented examples of the blind spot, always present
        rv = lambda ins, oid, T=False: spec_rr(('ravel', 0, -1), ins, oid, T)
        comp(rv([[2, 3]], 2, True), rv([[3, 2]], 1), 'out')
        comp(spec_rr(('reshape', [3, 2]), [[2, 3]], 1), rv([[2, 3]], 2, True), 'in')
        comp(spec_rr(('ravel', 0, 1), [[2, 3, 4], [4, 3, 2, 2]], 1), spec_rr(('ravel', 1, 2), [[2, 3, 4], [4, 3, 2, 2]], 2, True), 'in')
        # mixed pairs (no rule applies): a move-axis operator next to a ravel / reshape or a transposed one
        for ins in ([[2, 3, 2]], [[2, 3], [3, 2]]):
            for sp in rr_specs(ins):
                if not keep(0.25, 1.0):
                    continue
                a1 = spec_rr(sp, ins, 1)
                comp(spec_move([0], [-1]), a1, 'mixed')                         # move @ a
                comp(spec_move([0], [-1]), spec_rr(sp, ins, 1, T=True), 'mixed')  # move @ a.T
                comp(spec_rr(sp, None, 1), spec_move([-1], [0], ins), 'mixed')  # a(built on the out structure) @ move
                comp(spec_rr(sp, ins, 1, T=True), spec_move([0], [1], ins), 'mixed')  # a.T @ move (composes rarely)

        # -- chains of 3-5 axis operators (implementation-side oracle only: the model has two operands) -------
        # Each step is a legal operand on the current structure (reference `ref_struct`); half of the steps try
        # to provoke a rule on the previous operand: its exact inverse (same object / inverse move), an
        # equal-but-distinct object, or a DIFFERENT operator sharing one side (near miss).
        def next_op(ops, cur, ids):
            rmin = min(len(sh_) for sh_ in cur)
            prev = ops[-1] if ops else None
            kind = rng.choice(['move', 'rr', 'rr', 'T', 'inv', 'inv', 'inv'])
            if kind == 'inv' and prev is not None:
                if prev['op'] == 'move':
                    s_, d_ = prev['s'], prev['d']
                    return spec_move(*rng.choice([(d_, s_), (d_, s_), (s_, d_), (d_[::-1], s_)]))
                pins = prev['ins']
                psp = ('ravel', prev['first'], prev['last']) if prev['op'] == 'ravel' else ('reshape', prev['shape'])
                how = rng.choice(['same', 'same', 'equal', 'other', 'other'])
                if how == 'same':
                    return dict(prev, T=not prev['T'])
                if how == 'equal':
                    return spec_rr(psp, pins, len(ids) + 1, T=not prev['T'])
                if prev['T']:  # a different plain operator on the in-structure of the transposed one
                    return spec_rr(rng.choice(rr_specs(pins)), pins, len(ids) + 1)
                cands = by_out.get(str(cur), [])  # the transpose of a different operator with this out-structure
                if cands:
                    sp_, i_ = rng.choice(cands)
                    return spec_rr(sp_, i_, len(ids) + 1, T=True)
            if kind == 'T':
                cands = by_out.get(str(cur), [])
                if cands:
                    sp_, i_ = rng.choice(cands)
                    return spec_rr(sp_, i_, len(ids) + 1, T=True)
            if kind == 'move' and rmin >= 1:
                lt = legal_tuples(rmin, rng.randint(1, min(2, rmin)), True)
                return spec_move(rng.choice(lt), rng.choice(lt))
            return spec_rr(rng.choice(rr_specs(cur)), cur, len(ids) + 1)

        starts = core + more
        for _ in range(150 if quick else 1500):
            cur = rng.choice(starts)
            ops, ids = [], {}
            for _i in range(rng.randint(3, 5)):
                sp = next_op(ops, cur, ids)
                if sp['ins'] is None and not ops:
                    sp = dict(sp, ins=cur)
                st = ref_struct(sp, cur)
                if st is None or st[0] != cur:
                    continue
                if sp['op'] != 'move':
                    ids.setdefault(sp['id'], sp['ins'])
                ops.append(sp)
                cur = st[1]
            if len(ops) >= 3:
                cases.append({'kind': 'chain', 'ops': ops, 'assoc': rng.choice(['l', 'r']), 'ins': ops[0]['ins']})

        # seeded random beyond the enumerated scope
        for _ in range(100 if quick else 2000):
            r = rng.randint(1, 5)
            sh = [rng.choice([1, 2, 3, 4, 5]) for _ in range(r)]
            ravel(rng.randint(-r, r - 1), rng.randint(-r, r - 1), [sh], lite=True)
            fs = factorizations(prod(sh), rng.randint(1, 4))
            t = list(rng.choice(fs))
            if rng.random() < 0.6:
                t[rng.randrange(len(t))] = -1
            if rng.random() < 0.2:
                t[rng.randrange(len(t))] += rng.choice([-1, 1])
            add_reshape(t, [sh], lite=True)
        self.exhaustive = False
        return cases

    def search_cases(self):
        """Wider stream for the failing-input search when a tie is broken: a seeded sample of the thorough scope."""
        if self.tier != 'quick':
            return []
        other = type(self)('thorough', self.seed + 1)
        cs = other.cases()
        other.rng.shuffle(cs)
        return cs[:4000]

    def rule(self):
        return (
            'move: (a) ALL source x destination tuples of length <= 2 over [-rank-1, rank] (and the int forms) on one '
            'shape per rank <= 3 (thorough 4); (b) ALL shapes of rank <= 3 (4) over dims {1,2,3} x ALL legal tuple pairs '
            'of length <= 2 (3) in non-negative form; (c) ALL legal pairs with negative entries on the representative '
            'shapes (capped at 1500 per rank/length) + seeded sample on all shapes; (d) seeded illegal tuples of length '
            '<= 3, ranks <= 5; (e) two-leaf pytrees of different rank; (f) pairs of move-axis operators (all single-axis '
            'pairs over [-rank, rank) on ranks 1-2, rank 3 filtered in quick; two-axis inverse / non-inverse pairs). '
            'ravel: ALL (first, last) in [-5,5]^2 x ALL shapes of rank <= 3 (4) over {1,2,3}, two-leaf pytrees, leaves with '
            'an empty axis. reshape: for every such shape ALL ordered factorisations of the size into <= 3 factors, each '
            'with one entry -1, two entries -1, wrong size, a zero or a -2 beside the -1, negative sizes, trailing 0; '
            'two-leaf pytrees; seeded random beyond. '
            'compositions (kind comp, compared with AxesObs.obs_comp; every one judged by reduced-vs-unreduced-vs-NumPy): '
            'move-axis pairs (f) also on 2-3 leaf pytrees; for 17 in-structures (1-3 leaves) x ALL ravel ranges and '
            'reshape factorisations legal on them: the same object with its transpose, equal-but-distinct objects, '
            'DIFFERENT operators sharing the in-structure (a @ b.T, b.T @ a; all pairs on 6 core structures sampled at 0.2 in '
            'quick, all in thorough), DIFFERENT operators sharing the out-structure (b.T @ a), non-composable pairs, '
            'move-axis next to ravel / reshape / transposed; chains of 3-5 operators (seeded, implementation-side only). '
            'Non-trivial: the constructor accepted and out_structure() is defined and differs from in_structure, or an '
            'argument was rejected for a reason other than a malformed tuple length.'
        )

    def distribution(self, cases):
        d: dict = {}
        for c in cases:
            k = c['kind'] + ('-' + c['cls'] if 'cls' in c else '') + '/rank' + ','.join(str(len(s)) for s in c['ins'])
            d[k] = d.get(k, 0) + 1
        return d

    def nontrivial(self, case, obs):
        if not isinstance(obs, list):
            return isinstance(obs, dict) and 'error' in obs
        o = obs[3] if case['kind'] == 'move' else obs
        if case['kind'] in ('comp', 'chain'):
            return True
        return isinstance(o[0], list) and o[0] != case['ins'] or isinstance(o[0], dict)

    # ------------------------------------------------------------------------------------------
    def build(self, case, which=None):
        jax, jnp, np, axes = fx()
        ins = case['ins']
        st = structure(ins)
        k = case['kind']
        if k == 'move':
            return axes.MoveAxisOperator(axarg(case['s']), axarg(case['d']), in_structure=st)
        if k == 'ravel':
            return axes.RavelOperator(case['first'], case['last'], in_structure=st)
        if k == 'reshape':
            return axes.ReshapeOperator(tuple(case['shape']), in_structure=st)
        raise ValueError(k)

    def run_impl(self, case):
        jax, jnp, np, axes = fx()
        k = case['kind']
        ins = case['ins']
        if k == 'move':
            op = attempt(lambda: self.build(case))
            if op[0] == 'err':
                return {'error': op[1]}
            op = op[1]
            lite = case.get('lite', False)
            o = obs_op(op, ins, lite)
            tf = None  # fields of the transpose (one more eval_shape): skipped when lite or undefined
            if not lite and not isinstance(o[0], dict):

                def fields():
                    t = op.T
                    return [list(t.source), list(t.destination)]

                tf = show(attempt(fields))
            return [list(op.source), list(op.destination), tf, o]
        if k in ('ravel', 'reshape'):
            op = attempt(lambda: self.build(case))
            if op[0] == 'err':
                return {'error': op[1]}
            return obs_op(op[1], ins, case.get('lite', False))
        if k == 'comp':
            return red_obs(lambda: build_chain([case['r'], case['l']]))
        if k == 'chain':
            return red_obs(lambda: build_chain(case['ops'], case.get('assoc', 'l')))
        raise ValueError(k)

    # ------------------------------------------------------------------------------------------
    def model_term(self, case):
        cn = lambda n: f'{int(n)}%nat'
        ins = clist(case['ins'], lambda s: clist(s, cn))
        zl = lambda l: clist(l, cz)
        k = case['kind']
        if k == 'move':
            arg = lambda a: f'(AInt {cz(a)})' if isinstance(a, int) else f'(ASeq {zl(a)})'
            return f'obs_move2 {arg(case["s"])} {arg(case["d"])} {ins}'
        if k == 'ravel':
            return f'obs_ravel2 {cz(case["first"])} {cz(case["last"])} {ins}'
        if k == 'reshape':
            return f'obs_reshape2 {zl(case["shape"])} {ins}'
        if k == 'comp':

            def operand(sp, var):
                i = var if sp['ins'] is None else clist(sp['ins'], lambda s_: clist(s_, cn))
                if sp['op'] == 'move':
                    return f'mk_move {zl(sp["s"])} {zl(sp["d"])} {i}'
                if sp['op'] == 'ravel':
                    mk = f'(mk_ravel {cz(sp["first"])} {cz(sp["last"])} {i})'
                else:
                    mk = f'(mk_reshape {zl(sp["shape"])} {i})'
                return f'{"mk_T" if sp.get("T") else "mk_P"} {mk} {int(sp["id"])}%N'

            assert case['r']['ins'] is not None
            return f'obs_comp ({operand(case["r"], None)}) (fun ro => {operand(case["l"], "ro")})'
        if k == 'chain':
            return None  # more than two operands: implementation-side oracle only (see `trusted`)
        raise ValueError(k)

    def decode(self, case, v):
        def conv(x):
            if isinstance(x, dict) and 'c' in x:
                if x['c'] == 'Ok':
                    return conv(x['a'][0])
                if x['c'] == 'Err':
                    return {'error': x['a'][0]['c']}
                return x['c']
            if isinstance(x, (list, tuple)):
                return [conv(i) for i in x]
            return x

        v = conv(v)
        lite = case.get('lite', False)
        wrap = lambda r: {'red': r} if isinstance(r, list) else r
        if case['kind'] == 'comp':
            return wrap(v)
        # (the observation of Model/Axes.v, AxesObs.red_pair)
        v, pair = v
        if not isinstance(v, list):
            return v
        pair = [wrap(r) for r in pair] if isinstance(pair, list) else [pair, pair]
        o = v[3] if case['kind'] == 'move' else v
        o[4], o[5] = pair
        if case['kind'] == 'move':
            v[3] = mask_model_obs(v[3], lite)
            if lite or isinstance(v[3][0], dict):
                v[2] = None
        else:
            v = mask_model_obs(v, lite)
        return v

    def comparable(self, case, obs):
        return strip_same(obs)

    # ------------------------------------------------------------------------------------------
    def oracle(self, case, obs):
        k = case['kind']
        ins = case['ins']
        if k == 'move':
            return self.oracle_move(case, obs)
        if k in ('comp', 'chain'):
            ops = [case['r'], case['l']] if k == 'comp' else case['ops']
            what = ' @ '.join(spec_str(sp) for sp in reversed(ops))
            ref = ref_chain(ops)
            if ref == 'mismatch':
                ref = None
            if isinstance(obs, dict) and 'error' in obs:
                if ref is not None:
                    return f'{what}: legal operands that compose were rejected with {obs}'
                return None
            return self.judge_red(what, obs, ref)
        if k == 'ravel':
            return self.oracle_ravel(case, obs)
        if k == 'reshape':
            return self.oracle_reshape(case, obs)
        return None

    def common(self, what, ins, exp, o):
        """Clauses shared by the three operators, given the reference output `exp` [(shape, data)];
        components that were not observed (None) are skipped."""
        out, y, ts, rt, red_to, red_ot, red1, rt2 = o
        exp_shapes = [e[0] for e in exp]
        if out != exp_shapes:
            return f'{what}: out_structure {out}, reference {exp_shapes}'
        if y != exp:
            return f'{what}: values {y} differ from the reference {exp} on arange input'
        if ts is not None and ts != [exp_shapes, ins]:
            return f'{what}: transpose has structures {ts}, expected {[exp_shapes, ins]}'
        if rt is not None and rt != arange_data(ins):
            return f'{what}: T(op(x)) = {rt} is not x'
        if rt2 is not None and rt2 != arange_data(exp_shapes):
            return f'{what}: op(T(y)) = {rt2} is not y'
        for ro, lab, st in ((red_to, 'op.T @ op', ins), (red_ot, 'op @ op.T', exp_shapes)):
            if ro is None:
                continue
            if 'error' in ro:
                return f'{what}: {lab} raised {ro}'
            msg = self.judge_red(f'{what}: {lab}', ro, {'ins': st, 'out': arange_data(st)})
            if msg:
                return msg
        return None

    def reds_only(self, what, o):
        if not isinstance(o, list):
            return None
        for ro, lab in ((o[4], 'op.T @ op'), (o[5], 'op @ op.T')):
            msg = self.judge_red(f'{what}: {lab}', ro)
            if msg:
                return msg
        return None

    def judge_red(self, what, ro, ref=None):
        """The oracle of every case that calls reduce() on a composition c: (1) the unreduced c has the
        structures and the values of the reference `ref` (the relabellings applied one after the other with
        NumPy) when there is one; (2) whenever c is defined on its arange input, c.reduce() is defined, has the
        in / out structures of c and returns the values of c - so a wrong cancellation (or a wrong merge)
        is reported with the concrete operands."""
        if ro is None or 'red' not in ro:
            return None
        cls, cin, cout, cy, rin, rout, ry = ro['red']
        if ref is not None:
            ref_out = [e[0] for e in ref['out']]
            if cin != ref['ins'] or cout != ref_out:
                return f'{what}: the composition has structures {cin} -> {cout}, reference {ref["ins"]} -> {ref_out}'
            if cy != ref['out']:
                return f'{what}: the composition gives {cy} on the arange input, reference {ref["out"]}'
        if isinstance(cout, dict) or isinstance(cy, dict):
            return None  # the unreduced composition is itself undefined (illegal operand): outside the property
        if isinstance(cls, dict):
            return f'{what}: reduce() raised {cls} although the composition is defined'
        if rin != cin or rout != cout:
            return (
                f'{what}: reduce() gives class {cls} with structures {rin} -> {rout}, '
                f'the unreduced composition has {cin} -> {cout}'
            )
        if ry != cy:
            return f'{what}: reduce() gives class {cls} returning {ry} on the arange input, the unreduced composition returns {cy}'
        same = ro.get('same')
        if same is not None and same != [True, True]:
            return f'{what}: reduce() changed the in / out structure objects (pytree definition or dtype): equal = {same}'
        return None

    def oracle_move(self, case, obs):
        ins = case['ins']
        s, d = case['s'], case['d']
        if isinstance(obs, dict):
            return f'MoveAxisOperator({s}, {d}) constructor raised {obs}'
        src, dst, tf, o = obs
        if src != astuple(s) or dst != astuple(d):
            return f'MoveAxisOperator({s}, {d}) stores source={src} destination={dst}'
        exp = [np_moveaxis(sh, axarg(s), axarg(d)) for sh in ins]
        if any(e is None for e in exp):
            # not legal for numpy.moveaxis on some leaf: outside the property (jnp.moveaxis accepts
            # repeated destinations); counted, not judged
            if not isinstance(o[0], dict):
                self.stats['move_accepted_where_numpy_rejects'] = self.stats.get('move_accepted_where_numpy_rejects', 0) + 1
            return self.reds_only(f'MoveAxisOperator({s}, {d}) on {ins}', o)
        what = f'MoveAxisOperator({s}, {d}) on {ins}'
        msg = self.common(what, ins, exp, o)
        if msg:
            return msg
        if o[6] is not None and o[6] != 1:
            return f'{what}: reduce() returned class {o[6]}'
        return None

    def oracle_ravel(self, case, obs):
        ins = case['ins']
        first, last = case['first'], case['last']
        what = f'RavelOperator({first}, {last}) on {ins}'
        exp = [flatten_between(sh, first, last) for sh in ins]
        if any(e is None for e in exp) or any(0 in sh for sh in ins):
            # an axis out of range for some leaf / an empty axis: outside the property (but reduce() must not
            # change what the composition with the transpose does)
            return self.reds_only(what, obs)
        if 'reject' in exp:
            if not isinstance(obs, dict):
                return f'{what}: accepted although the first axis lies after the last one for some leaf'
            return None
        if isinstance(obs, dict):
            return f'{what}: legal arguments rejected with {obs}'
        expd = [[e, list(range(prod(sh)))] for e, sh in zip(exp, ins)]
        msg = self.common(what, ins, expd, obs)
        if msg:
            return msg
        noop = exp == ins
        if obs[6] is not None and (obs[6] == 0) != noop:
            return f'{what}: reduce() gives class {obs[6]} but the shapes are {"un" if noop else ""}changed'
        return None

    def oracle_reshape(self, case, obs):
        ins = case['ins']
        t = case['shape']
        what = f'ReshapeOperator({t}) on {ins}'
        exp = [np_reshape(sh, t) for sh in ins]
        if any(e is None for e in exp):
            if not isinstance(obs, dict):
                return f'{what}: accepted although numpy.reshape rejects it for some leaf'
            return None
        if isinstance(obs, dict):
            return f'{what}: legal arguments rejected with {obs}'
        msg = self.common(what, ins, exp, obs)
        if msg:
            return msg
        noop = [e[0] for e in exp] == ins
        if obs[6] is not None and (obs[6] == 0) != noop:
            return f'{what}: reduce() gives class {obs[6]} but the shapes are {"un" if noop else ""}changed'
        return None
