"""C13 - axis operators (MoveAxis, Ravel, Reshape and the lazy reshape transpose) are exact relabellings.

Cases are JSON descriptions; `run_impl` builds the REAL furax operators from them, `model_term` the
corresponding term of Model/Axes.v; the oracle compares the implementation with numpy.moveaxis /
numpy.reshape / an explicit flattening, never with the model.
"""
from __future__ import annotations

import itertools
from math import prod

import lib
from lib import PropertyCheck, clist, cz

NAMES = {
    'IdentityOperator': 0,
    'MoveAxisOperator': 1,
    'RavelOperator': 2,
    'ReshapeOperator': 3,
    'ReshapeTransposeOperator': 4,
    'CompositionOperator': 5,
}

_cache: dict = {}


def fx():
    if 'mods' not in _cache:
        import jax
        import jax.numpy as jnp
        import numpy as np
        from furax._base import axes

        # exceptions are ordinary observations here; filtering their tracebacks costs ~20 ms each
        jax.config.update('jax_traceback_filtering', 'off')
        _cache['mods'] = (jax, jnp, np, axes)
    return _cache['mods']


# ----------------------------------------------------------------------------------------------
# results with the bind discipline of the model (the first error wins, in evaluation order)


class Err(Exception):
    def __init__(self, kind):
        self.kind = kind


def attempt(f):
    """('ok', value) or ('err', kind)."""
    try:
        return ('ok', f())
    except Err as e:
        return ('err', e.kind)
    except BaseException as e:  # AssertionError, ZeroDivisionError, NoReduction(BaseException) ...
        if isinstance(e, (KeyboardInterrupt, SystemExit)):
            raise
        return ('err', type(e).__name__)


def unwrap(r):
    if r[0] == 'err':
        raise Err(r[1])
    return r[1]


def show(r, f=lambda v: v):
    return {'error': r[1]} if r[0] == 'err' else f(r[1])


def structure(ins):
    jax, jnp, np, axes = fx()
    key = ('st', tuple(map(tuple, ins)))
    if key not in _cache:
        leaves = [jax.ShapeDtypeStruct(tuple(s), jnp.float32) for s in ins]
        _cache[key] = leaves[0] if len(leaves) == 1 else {chr(97 + i): l for i, l in enumerate(leaves)}
    return _cache[key]


def arange_tree(ins):
    jax, jnp, np, axes = fx()
    key = ('ar', tuple(map(tuple, ins)))
    if key not in _cache:
        leaves = [jnp.arange(prod(s), dtype=jnp.float32).reshape(tuple(s)) for s in ins]
        _cache[key] = leaves[0] if len(leaves) == 1 else {chr(97 + i): l for i, l in enumerate(leaves)}
    return _cache[key]


def shapes_of(tree):
    jax = fx()[0]
    return [list(l.shape) for l in jax.tree.leaves(tree)]


def datas_of(tree):
    jax, jnp, np, axes = fx()
    out = []
    for l in jax.tree.leaves(tree):
        a = np.asarray(l)
        out.append([list(a.shape), [int(v) for v in a.ravel().tolist()]])
    return out


def name_of(op):
    return NAMES.get(type(op).__name__, type(op).__name__)


LITE_KEEP = (0, 1, 3, 6)


def obs_op(op, ins, lite=False):
    """Mirror of Axes.obs_op on the real operator: [out_structure, op(x), structures of op.T, op.T(op(x)),
    class of (op.T @ op).reduce(), class of (op @ op.T).reduce(), class of op.reduce(), op(op.T(y))].
    When out_structure() raises, nothing else is observed; `lite` keeps components 0, 1, 3, 6."""
    x = arange_tree(ins)
    out = attempt(lambda: shapes_of(op.out_structure()))
    if out[0] == 'err':
        return [show(out)] + [None] * 7
    y = attempt(lambda: op(x))
    t = attempt(lambda: op.T)

    def tstructs():
        tt = unwrap(t)
        a = shapes_of(tt.in_structure())
        b = shapes_of(tt.out_structure())
        return [a, b]

    def roundtrip():
        tt = unwrap(t)
        yy = unwrap(y)
        return datas_of(tt(yy))

    def red_to():
        tt = unwrap(t)
        return name_of((tt @ op).reduce())

    def red_ot():
        tt = unwrap(t)
        return name_of((op @ tt).reduce())

    def roundtrip2():
        tt = unwrap(t)
        outs = unwrap(out)
        return datas_of(op(tt(arange_tree(outs))))

    fs = [
        None,
        None,
        tstructs,
        roundtrip,
        red_to,
        red_ot,
        lambda: name_of(op.reduce()),
        roundtrip2,
    ]
    res = [show(out), show(y, datas_of)]
    for i in range(2, 8):
        res.append(None if (lite and i not in LITE_KEEP) else show(attempt(fs[i])))
    return res


def mask_model_obs(o, lite):
    """The model computes every component; keep those the implementation side observed."""
    if isinstance(o[0], dict):
        return [o[0]] + [None] * 7
    return [v if (not lite or i in LITE_KEEP) else None for i, v in enumerate(o)]


def axarg(a):
    return a if isinstance(a, int) else tuple(a)


def astuple(a):
    return [a] if isinstance(a, int) else list(a)


# ----------------------------------------------------------------------------------------------
# references, independent of the model


def np_moveaxis(shape, s, d):
    """numpy.moveaxis on the arange array: (shape, data) or None when numpy rejects the arguments."""
    np = fx()[2]
    a = np.arange(prod(shape)).reshape(tuple(shape))
    try:
        b = np.moveaxis(a, s, d)
    except Exception:
        return None
    return [list(b.shape), [int(v) for v in b.ravel().tolist()]]


def np_reshape(shape, target):
    """numpy.reshape of the arange array for a legal target (sizes >= 0, at most one -1 whose value is
    determined uniquely), else None.  numpy itself reads every negative size as "unknown", hence the
    explicit legality test."""
    np = fx()[2]
    target = list(target)
    if any(v < -1 for v in target) or target.count(-1) > 1:
        return None
    n = prod(shape)
    if -1 in target:
        rest = prod(v for v in target if v != -1)
        if rest == 0 or n % rest != 0:
            return None
        full = [n // rest if v == -1 else v for v in target]
    else:
        full = target
    if prod(full) != n:
        return None
    a = np.arange(n).reshape(tuple(shape))
    b = np.reshape(a, tuple(target))
    assert list(b.shape) == full
    return [full, [int(v) for v in b.ravel().tolist()]]


def flatten_between(shape, first, last):
    """Explicit flattening of axes first..last (given as in the call): None when an axis is out of
    range, 'reject' when the normalised first lies after the last, else the new shape."""
    r = len(shape)
    if not (-r <= first < r and -r <= last < r):
        return None
    f = first + r if first < 0 else first
    l = last + r if last < 0 else last
    if f > l:
        return 'reject'
    return list(shape[:f]) + [prod(shape[f : l + 1])] + list(shape[l + 1 :])


def arange_data(ins):
    return [[list(s), list(range(prod(s)))] for s in ins]


# ----------------------------------------------------------------------------------------------
# case generators


def all_shapes(max_rank, dims=(1, 2, 3)):
    out = []
    for r in range(max_rank + 1):
        out += [list(t) for t in itertools.product(dims, repeat=r)]
    return out


def tuples_upto(values, maxlen):
    out = []
    for n in range(maxlen + 1):
        out += [list(t) for t in itertools.product(values, repeat=n)]
    return out


def legal_tuples(rank, length, negatives):
    """Axis tuples of the given length whose normalised entries are distinct and in range."""
    vals = list(range(-rank, rank)) if negatives else list(range(rank))
    out = []
    for t in itertools.product(vals, repeat=length):
        if len({v % rank for v in t}) == length:
            out.append(list(t))
    return out


REP = {0: [], 1: [3], 2: [2, 3], 3: [2, 3, 2], 4: [2, 1, 3, 2]}


def factorizations(n, length):
    if length == 0:
        return [[]] if n == 1 else []
    if length == 1:
        return [[n]]
    out = []
    for f in range(1, n + 1):
        if n % f == 0:
            out += [[f] + rest for rest in factorizations(n // f, length - 1)]
    return out


class Check(PropertyCheck):
    id = 'C13'
    props = ['C13.v']
    static_targets = ['theories/Lemmas/AxesL.vo']
    coq_header = (
        'From Coq Require Import ZArith NArith List.\nFrom Furax Require Import Model.Axes.\n'
        'Import ListNotations.\nOpen Scope Z_scope.'
    )
    shard = 400
    trusted = [
        'jnp.moveaxis (canonicalize_axis, order construction, lax.transpose permutation check and element map), '
        'Array.reshape (_compute_newshape, lax.reshape: row-major data kept) as specified in Model/Axes.v; '
        'checked against JAX on the enumerated scope only',
        'jax.tree.map / jax.tree.leaves act leaf by leaf in flattening order and keep the tree definition: a pytree '
        'is modelled by its list of leaves',
        'jax.eval_shape(self.mv, in_structure) yields the shapes of mv and raises what mv raises; dtypes are preserved',
        'float division -prod(leaf)/prod(shape) in ReshapeOperator._normalize_shape read over exact rationals '
        '(array sizes below 2**53)',
        "Python `is` modelled by harness-assigned object identifiers (ReshapeInverseRule)",
        'CompositionOperator.reduce / AlgebraicReductionRule restricted to two operands of the classes of axes.py '
        '(no other registered binary rule matches these classes)',
        'correspondence harness harness/c13.py',
    ]

    # ------------------------------------------------------------------------------------------
    def cases(self):
        quick = self.tier == 'quick'
        rng = self.rng
        cases = []
        R = 3 if quick else 4
        L = 2 if quick else 3
        shapes = all_shapes(R)

        def keep(p, pt=1.0):
            q = p if quick else pt
            return q >= 1.0 or rng.random() < q

        def move(s, d, ins, lite=False):
            c = {'kind': 'move', 's': s, 'd': d, 'ins': ins}
            if lite and quick:
                c['lite'] = True
            cases.append(c)

        # -- move axis ------------------------------------------------------------------------
        # (a) source x destination tuples of length <= 2 over [-rank-1, rank] on one shape per rank
        #     (legal and illegal): all of them for rank <= 1 (thorough: rank <= 4), seeded sample above
        for r in range(R + 1):
            vals = list(range(-r - 1, r + 1))
            tl = tuples_upto(vals, 2)
            p = 1.0 if r <= 1 else (0.3 if r == 2 else 0.06)
            for s in tl:
                for d in tl:
                    if keep(p, 1.0 if r <= 3 else 0.25):
                        move(s, d, [REP[r]])
            for a in vals:  # the int form of the constructor arguments
                for b in vals:
                    if keep(0.5):
                        move(a, b, [REP[r]])
                    if a == b:
                        move(a, [b], [REP[r]])
        # (b) every shape x legal tuple pairs in non-negative form (length <= L)
        for sh in shapes:
            r = len(sh)
            for n in range(0, min(L, r) + 1):
                lt = legal_tuples(r, n, False)
                for s in lt:
                    for d in lt:
                        if keep(1.0 if r <= 2 or n <= 1 else 0.34, 1.0 if r <= 3 else 0.1):
                            move(s, d, [sh], lite=True)
        # (c) legal tuples with negative / mixed entries on the representative shapes
        for r in range(1, R + 1):
            for n in range(1, min(L, r) + 1):
                lt = legal_tuples(r, n, True)
                pairs = [(s, d) for s in lt for d in lt if min(s + d) < 0]
                cap = 120 if quick else 1000
                if len(pairs) > cap:
                    pairs = rng.sample(pairs, cap)
                for s, d in pairs:
                    move(s, d, [REP[r]])
        pool = [sh for sh in shapes if len(sh) >= 1]
        for _ in range(150 if quick else 3000):
            sh = rng.choice(pool)
            r = len(sh)
            n = rng.randint(1, min(L, r))
            lt = legal_tuples(r, n, True)
            move(rng.choice(lt), rng.choice(lt), [sh], lite=True)
        # (d) seeded tuples of length <= 3 beyond the enumerated scope (mostly illegal)
        for _ in range(120 if quick else 1500):
            r = rng.randint(1, 4 if quick else 5)
            sh = [rng.choice([1, 2, 3]) for _ in range(r)]
            n = rng.randint(1, 3)
            s = [rng.randint(-r - 1, r) for _ in range(n)]
            d = [rng.randint(-r - 1, r) for _ in range(rng.choice([n, n, n, n - 1, n + 1]))]
            move(s, d, [sh])
        # (e) pytrees with leaves of different rank (legal on both leaves, or on one only)
        two = [[[2, 3], [3, 2, 2]], [[1, 2, 3], [3, 2]]]
        if not quick:
            two += [[[2], [2, 3]], [[2, 3, 2], [2, 2, 3, 1]]]
        for ins in two:
            rmax = max(len(s) for s in ins)
            vals = list(range(-rmax, rmax))
            for n in (1, 2):
                for s in itertools.product(vals, repeat=n):
                    for d in itertools.product(vals, repeat=n):
                        if keep(1.0 if n == 1 else 0.04, 1.0 if n == 1 else 0.3):
                            move(list(s), list(d), ins)
        # (f) pairs of move-axis operators: the inverse rule must fire only on inverse pairs
        for r in range(1, R + 1):
            sh = REP[r]
            vals = list(range(-r, r))
            singles = [([a], [b]) for a in vals for b in vals]
            for (s1, d1) in singles:
                for (s2, d2) in singles:
                    near = s2 == d1 or d2 == s1
                    if keep(1.0 if r == 1 else (0.5 if near else 0.1) if r == 2 else (0.2 if near else 0.02)):
                        cases.append({'kind': 'movepair', 's1': s1, 'd1': d1, 's2': s2, 'd2': d2, 'ins': [sh]})
            if r >= 2:
                lt = legal_tuples(r, 2, False)
                for s1 in lt:
                    for d1 in lt:
                        if keep(1.0 if r == 2 else 0.34):
                            for s2, d2 in ((d1, s1), (d1, d1), (s1, s1), (d1[::-1], s1), (d1, s1[::-1])):
                                cases.append({'kind': 'movepair', 's1': s1, 'd1': d1, 's2': s2, 'd2': d2, 'ins': [sh]})

        # -- ravel ----------------------------------------------------------------------------
        def ravel(first, last, ins, lite=False):
            c = {'kind': 'ravel', 'first': first, 'last': last, 'ins': ins}
            if lite and quick:
                c['lite'] = True
            cases.append(c)

        rshapes = all_shapes(R)
        full = [REP[r] for r in range(R + 1)] if quick else rshapes
        for sh in full:  # all (first, last) in [-5, 5]^2
            if len(sh) == 4 and not keep(1.0, 0.5):
                continue
            for first in range(-5, 6):
                for last in range(-5, 6):
                    ravel(first, last, [sh])
        if quick:  # every shape x every in-range pair (any sign form)
            for sh in rshapes:
                r = len(sh)
                for first in range(-r, r):
                    for last in range(-r, r):
                        ravel(first, last, [sh], lite=True)
        two_r = [[[2, 3], [3, 2, 2]], [[2], [2, 3]], [[], [2, 2]]]
        if not quick:
            two_r += [[[1, 2, 3], [3, 2]], [[3], [2, 1, 2]], [[2, 3, 1, 2], [3]], [[2, 2], [3, 3]], [[1], [1, 1, 1]]]
        for ins in two_r:
            for first in range(-5, 6):
                for last in range(-5, 6):
                    ravel(first, last, ins, lite=True)
        # leaves with an empty axis (outside the theorems' guard, modelled all the same)
        for sh in ([0], [0, 2], [2, 0], [2, 0, 3], [0, 2, 3], [2, 3, 0]):
            for first in range(-3, 3):
                for last in range(-3, 3):
                    if -len(sh) <= first < len(sh) and -len(sh) <= last < len(sh) or keep(0.3):
                        ravel(first, last, [sh], lite=True)
        for ins, first, last in [([[2, 3]], 0, -1), ([[2, 3]], 0, 0), ([[2, 3, 2]], 1, 2), ([[2], [3]], 0, -1), ([[2, 2], [3]], 0, -1)]:
            cases.append({'kind': 'distinct', 'op': 'ravel', 'first': first, 'last': last, 'ins': ins})

        # -- reshape --------------------------------------------------------------------------
        seen = set()
        reps = {tuple(v) for v in REP.values()}

        def add_reshape(target, ins, lite=None):
            key = (tuple(target), tuple(map(tuple, ins)))
            if key not in seen:
                seen.add(key)
                c = {'kind': 'reshape', 'shape': list(target), 'ins': ins}
                if lite is None:
                    lite = not (len(ins) == 1 and tuple(ins[0]) in reps)
                if lite and quick:
                    c['lite'] = True
                cases.append(c)

        for sh in rshapes:
            n = prod(sh)
            if len(sh) == 4 and not keep(1.0, 0.35):
                continue
            for length in range(0, 4):
                for f in factorizations(n, length):
                    add_reshape(f, [sh])
                    for i in range(length):  # one entry unknown
                        g = list(f)
                        g[i] = -1
                        add_reshape(g, [sh])
                        if not keep(0.25):
                            continue
                        for j in range(i + 1, length):  # two unknowns: illegal
                            h = list(g)
                            h[j] = -1
                            add_reshape(h, [sh])
                        k = (i + 1) % length
                        if k != i:
                            h = list(g)  # wrong size next to the unknown
                            h[k] = f[k] + 1
                            add_reshape(h, [sh])
                            h = list(g)
                            h[k] = 0  # zero next to the unknown: ZeroDivisionError in the code
                            add_reshape(h, [sh])
                            h = list(g)
                            h[k] = -2
                            add_reshape(h, [sh])
                    if length and keep(0.25):
                        h = list(f)
                        h[0] = f[0] + 1  # wrong size
                        add_reshape(h, [sh])
                        h = list(f)
                        h[-1] = -2
                        add_reshape(h, [sh])
                        h = list(f)
                        h[0] = -f[0]
                        if length > 1:
                            h[1] = -f[1]  # right product, negative sizes
                        add_reshape(h, [sh])
                        add_reshape(list(f) + [0], [sh])
            add_reshape([], [sh])
            add_reshape([0], [sh])
            add_reshape([0, -1], [sh])
            add_reshape([-1, 0], [sh])
            add_reshape([-1, -1], [sh])
        for sh in ([0], [0, 2], [2, 0, 3]):
            for t in ([0], [-1], [0, 2], [2, 0], [-1, 2], [0, -1], [-1, 0], [3, 0, -1], [6, -1], [-1, 3], [1]):
                add_reshape(t, [sh])
        two_s = [[[2, 3], [3, 2]], [[2, 3], [2, 2]], [[1, 2, 3], [3, 2, 2]], [[2, 3], [2, 5]], [[4], [2, 2]], [[2, 3], [3]]]
        for ins in two_s:
            for t in ([-1], [6], [2, -1], [-1, 2], [2, 3], [3, -1], [-1, 3], [1, -1, 2], [2, -1, 1], [-1, 1], [4, -1], [-1, -1], [6, -1], [2, 2], [-2]):
                add_reshape(t, ins, lite=False)
        for ins, t in [([[2, 3]], [-1]), ([[2, 3]], [2, 3]), ([[2, 3]], [3, 2]), ([[2, 3]], [2, -1]), ([[2, 3], [2, 2]], [-1, 2]), ([[4], [2, 2]], [2, 2])]:
            cases.append({'kind': 'distinct', 'op': 'reshape', 'shape': t, 'ins': ins})
        # two different ravel / reshape objects: (b.T @ a) must not be reduced to the identity unless it is one
        specs = [('reshape', [6]), ('reshape', [-1]), ('ravel', 0, -1), ('reshape', [3, 2]), ('reshape', [2, 3]),
                 ('reshape', [1, 6]), ('ravel', 0, 0), ('reshape', [2, -1])]
        leaves = [[2, 3], [3, 2], [6], [1, 6], [2, 3, 1]]
        for sa in specs:
            for sb in specs:
                for ia in leaves:
                    for ib in leaves:
                        if keep(0.25) or (sa == sb and ia != ib and len(ia) == len(ib)):
                            cases.append({'kind': 'rrpair', 'a': list(sa), 'b': list(sb), 'ia': [ia], 'ib': [ib], 'ins': [ia]})
        # seeded random beyond the enumerated scope
        for _ in range(100 if quick else 2000):
            r = rng.randint(1, 5)
            sh = [rng.choice([1, 2, 3, 4, 5]) for _ in range(r)]
            ravel(rng.randint(-r, r - 1), rng.randint(-r, r - 1), [sh], lite=True)
            fs = factorizations(prod(sh), rng.randint(1, 4))
            t = list(rng.choice(fs))
            if rng.random() < 0.6:
                t[rng.randrange(len(t))] = -1
            if rng.random() < 0.2:
                t[rng.randrange(len(t))] += rng.choice([-1, 1])
            add_reshape(t, [sh], lite=True)
        self.exhaustive = False
        return cases

    def search_cases(self):
        """Wider stream for the failing-input search when a tie is broken: a seeded sample of the thorough scope."""
        if self.tier != 'quick':
            return []
        other = type(self)('thorough', self.seed + 1)
        cs = other.cases()
        other.rng.shuffle(cs)
        return cs[:4000]

    def rule(self):
        return (
            'move: (a) ALL source x destination tuples of length <= 2 over [-rank-1, rank] (and the int forms) on one '
            'shape per rank <= 3 (thorough 4); (b) ALL shapes of rank <= 3 (4) over dims {1,2,3} x ALL legal tuple pairs '
            'of length <= 2 (3) in non-negative form; (c) ALL legal pairs with negative entries on the representative '
            'shapes (capped at 1500 per rank/length) + seeded sample on all shapes; (d) seeded illegal tuples of length '
            '<= 3, ranks <= 5; (e) two-leaf pytrees of different rank; (f) pairs of move-axis operators (all single-axis '
            'pairs over [-rank, rank) on ranks 1-2, rank 3 filtered in quick; two-axis inverse / non-inverse pairs). '
            'ravel: ALL (first, last) in [-5,5]^2 x ALL shapes of rank <= 3 (4) over {1,2,3}, two-leaf pytrees, leaves with '
            'an empty axis. reshape: for every such shape ALL ordered factorisations of the size into <= 3 factors, each '
            'with one entry -1, two entries -1, wrong size, a zero or a -2 beside the -1, negative sizes, trailing 0; '
            'two-leaf pytrees; same-object vs equal-but-distinct-object compositions; seeded random beyond. '
            'Non-trivial: the constructor accepted and out_structure() is defined and differs from in_structure, or an '
            'argument was rejected for a reason other than a malformed tuple length.'
        )

    def distribution(self, cases):
        d: dict = {}
        for c in cases:
            k = c['kind'] + '/rank' + ','.join(str(len(s)) for s in c['ins'])
            d[k] = d.get(k, 0) + 1
        return d

    def nontrivial(self, case, obs):
        if not isinstance(obs, list):
            return isinstance(obs, dict) and 'error' in obs
        o = obs[3] if case['kind'] == 'move' else obs
        if case['kind'] in ('movepair', 'distinct', 'rrpair'):
            return True
        return isinstance(o[0], list) and o[0] != case['ins'] or isinstance(o[0], dict)

    # ------------------------------------------------------------------------------------------
    def build(self, case, which=None):
        jax, jnp, np, axes = fx()
        ins = case['ins']
        st = structure(ins)
        k = case['kind']
        if k == 'move':
            return axes.MoveAxisOperator(axarg(case['s']), axarg(case['d']), in_structure=st)
        if k == 'ravel' or (k == 'distinct' and case['op'] == 'ravel'):
            return axes.RavelOperator(case['first'], case['last'], in_structure=st)
        if k == 'reshape' or (k == 'distinct' and case['op'] == 'reshape'):
            return axes.ReshapeOperator(tuple(case['shape']), in_structure=st)
        raise ValueError(k)

    def run_impl(self, case):
        jax, jnp, np, axes = fx()
        k = case['kind']
        ins = case['ins']
        if k == 'move':
            op = attempt(lambda: self.build(case))
            if op[0] == 'err':
                return {'error': op[1]}
            op = op[1]
            lite = case.get('lite', False)
            o = obs_op(op, ins, lite)
            tf = None  # fields of the transpose (one more eval_shape): skipped when lite or undefined
            if not lite and not isinstance(o[0], dict):

                def fields():
                    t = op.T
                    return [list(t.source), list(t.destination)]

                tf = show(attempt(fields))
            return [list(op.source), list(op.destination), tf, o]
        if k == 'movepair':
            st = structure(ins)
            r = axes.MoveAxisOperator(tuple(case['s1']), tuple(case['d1']), in_structure=st)
            outs = attempt(lambda: r.out_structure())
            if outs[0] == 'err':
                return {'error': outs[1]}
            l = axes.MoveAxisOperator(tuple(case['s2']), tuple(case['d2']), in_structure=outs[1])
            return [
                show(attempt(lambda: name_of((l @ r).reduce()))),
                show(attempt(lambda: datas_of(l(r(arange_tree(ins)))))),
                show(attempt(lambda: shapes_of(l.out_structure()))),
            ]
        if k in ('ravel', 'reshape'):
            op = attempt(lambda: self.build(case))
            if op[0] == 'err':
                return {'error': op[1]}
            return obs_op(op[1], ins, case.get('lite', False))
        if k == 'rrpair':

            def mk(spec, ins):
                if spec[0] == 'ravel':
                    return axes.RavelOperator(spec[1], spec[2], in_structure=structure(ins))
                return axes.ReshapeOperator(tuple(spec[1]), in_structure=structure(ins))

            a = attempt(lambda: mk(case['a'], case['ia']))
            if a[0] == 'err':
                return {'error': a[1]}
            b = attempt(lambda: mk(case['b'], case['ib']))
            if b[0] == 'err':
                return {'error': b[1]}
            a, b = a[1], b[1]
            return [
                show(attempt(lambda: name_of((b.T @ a).reduce()))),
                show(attempt(lambda: datas_of(b.T(a(arange_tree(case['ia'])))))),
            ]
        if k == 'distinct':
            a = attempt(lambda: self.build(case))
            if a[0] == 'err':
                return {'error': a[1]}
            a = a[1]
            b = self.build(case)
            assert a is not b
            return [
                show(attempt(lambda: name_of((b.T @ a).reduce()))),
                show(attempt(lambda: name_of((a @ b.T).reduce()))),
                show(attempt(lambda: name_of((a.T @ a).reduce()))),
                show(attempt(lambda: name_of((a @ a.T).reduce()))),
            ]
        raise ValueError(k)

    # ------------------------------------------------------------------------------------------
    def model_term(self, case):
        cn = lambda n: f'{int(n)}%nat'
        ins = clist(case['ins'], lambda s: clist(s, cn))
        zl = lambda l: clist(l, cz)
        k = case['kind']
        if k == 'move':
            arg = lambda a: f'(AInt {cz(a)})' if isinstance(a, int) else f'(ASeq {zl(a)})'
            return f'obs_move {arg(case["s"])} {arg(case["d"])} {ins}'
        if k == 'movepair':
            return f'obs_move_pair {zl(case["s1"])} {zl(case["d1"])} {zl(case["s2"])} {zl(case["d2"])} {ins}'
        if k == 'ravel':
            return f'obs_ravel {cz(case["first"])} {cz(case["last"])} {ins}'
        if k == 'reshape':
            return f'obs_reshape {zl(case["shape"])} {ins}'
        if k == 'rrpair':

            def mk(spec, i):
                sh = clist(i, lambda s_: clist(s_, cn))
                if spec[0] == 'ravel':
                    return f'(mk_ravel {cz(spec[1])} {cz(spec[2])} {sh})'
                return f'(mk_reshape {zl(spec[1])} {sh})'

            return f'obs_rr_pair {mk(case["a"], case["ia"])} {mk(case["b"], case["ib"])}'
        if k == 'distinct':
            if case['op'] == 'ravel':
                return f'obs_distinct (mk_ravel {cz(case["first"])} {cz(case["last"])} {ins})'
            return f'obs_distinct (mk_reshape {zl(case["shape"])} {ins})'
        raise ValueError(k)

    def decode(self, case, v):
        def conv(x):
            if isinstance(x, dict) and 'c' in x:
                if x['c'] == 'Ok':
                    return conv(x['a'][0])
                if x['c'] == 'Err':
                    return {'error': x['a'][0]['c']}
                return x['c']
            if isinstance(x, (list, tuple)):
                return [conv(i) for i in x]
            return x

        v = conv(v)
        lite = case.get('lite', False)
        if case['kind'] == 'move' and isinstance(v, list):
            v[3] = mask_model_obs(v[3], lite)
            if lite or isinstance(v[3][0], dict):
                v[2] = None
        elif case['kind'] in ('ravel', 'reshape') and isinstance(v, list):
            v = mask_model_obs(v, lite)
        return v

    # ------------------------------------------------------------------------------------------
    def oracle(self, case, obs):
        k = case['kind']
        ins = case['ins']
        if k == 'move':
            return self.oracle_move(case, obs)
        if k == 'movepair':
            if isinstance(obs, dict):
                return None
            name, data, louts = obs
            if name == 0:
                if data != arange_data(ins):
                    return (
                        f'(left @ right).reduce() is the IdentityOperator although left(right(x)) != x: '
                        f'right=MoveAxis({case["s1"]},{case["d1"]}) left=MoveAxis({case["s2"]},{case["d2"]}) gives {data}'
                    )
            return None
        if k == 'rrpair':
            if isinstance(obs, dict):
                return None
            name, data = obs
            if name == 0 and data != arange_data(case['ia']):
                return (
                    f'(b.T @ a).reduce() is the IdentityOperator although b.T(a(x)) = {data} is not x: '
                    f'a={case["a"]} on {case["ia"]}, b={case["b"]} on {case["ib"]}'
                )
            return None
        if k == 'ravel':
            return self.oracle_ravel(case, obs)
        if k == 'reshape':
            return self.oracle_reshape(case, obs)
        return None

    def common(self, what, ins, exp, o):
        """Clauses shared by the three operators, given the reference output `exp` [(shape, data)];
        components that were not observed (None) are skipped."""
        out, y, ts, rt, red_to, red_ot, red1, rt2 = o
        exp_shapes = [e[0] for e in exp]
        if out != exp_shapes:
            return f'{what}: out_structure {out}, reference {exp_shapes}'
        if y != exp:
            return f'{what}: values {y} differ from the reference {exp} on arange input'
        if ts is not None and ts != [exp_shapes, ins]:
            return f'{what}: transpose has structures {ts}, expected {[exp_shapes, ins]}'
        if rt is not None and rt != arange_data(ins):
            return f'{what}: T(op(x)) = {rt} is not x'
        if rt2 is not None and rt2 != arange_data(exp_shapes):
            return f'{what}: op(T(y)) = {rt2} is not y'
        for nm, lab in ((red_to, 'op.T @ op'), (red_ot, 'op @ op.T')):
            if isinstance(nm, dict):
                return f'{what}: ({lab}).reduce() raised {nm}'
        return None

    def oracle_move(self, case, obs):
        ins = case['ins']
        s, d = case['s'], case['d']
        if isinstance(obs, dict):
            return f'MoveAxisOperator({s}, {d}) constructor raised {obs}'
        src, dst, tf, o = obs
        if src != astuple(s) or dst != astuple(d):
            return f'MoveAxisOperator({s}, {d}) stores source={src} destination={dst}'
        exp = [np_moveaxis(sh, axarg(s), axarg(d)) for sh in ins]
        if any(e is None for e in exp):
            # not legal for numpy.moveaxis on some leaf: outside the property (jnp.moveaxis accepts
            # repeated destinations); counted, not judged
            if not isinstance(o[0], dict):
                self.stats['move_accepted_where_numpy_rejects'] = self.stats.get('move_accepted_where_numpy_rejects', 0) + 1
            return None
        what = f'MoveAxisOperator({s}, {d}) on {ins}'
        msg = self.common(what, ins, exp, o)
        if msg:
            return msg
        if o[6] is not None and o[6] != 1:
            return f'{what}: reduce() returned class {o[6]}'
        return None

    def oracle_ravel(self, case, obs):
        ins = case['ins']
        first, last = case['first'], case['last']
        what = f'RavelOperator({first}, {last}) on {ins}'
        exp = [flatten_between(sh, first, last) for sh in ins]
        if any(e is None for e in exp) or any(0 in sh for sh in ins):
            return None  # an axis out of range for some leaf / an empty axis: outside the property
        if 'reject' in exp:
            if not isinstance(obs, dict):
                return f'{what}: accepted although the first axis lies after the last one for some leaf'
            return None
        if isinstance(obs, dict):
            return f'{what}: legal arguments rejected with {obs}'
        expd = [[e, list(range(prod(sh)))] for e, sh in zip(exp, ins)]
        msg = self.common(what, ins, expd, obs)
        if msg:
            return msg
        noop = exp == ins
        if obs[6] is not None and (obs[6] == 0) != noop:
            return f'{what}: reduce() gives class {obs[6]} but the shapes are {"un" if noop else ""}changed'
        return None

    def oracle_reshape(self, case, obs):
        ins = case['ins']
        t = case['shape']
        what = f'ReshapeOperator({t}) on {ins}'
        exp = [np_reshape(sh, t) for sh in ins]
        if any(e is None for e in exp):
            if not isinstance(obs, dict):
                return f'{what}: accepted although numpy.reshape rejects it for some leaf'
            return None
        if isinstance(obs, dict):
            return f'{what}: legal arguments rejected with {obs}'
        msg = self.common(what, ins, exp, obs)
        if msg:
            return msg
        noop = [e[0] for e in exp] == ins
        if obs[6] is not None and (obs[6] == 0) != noop:
            return f'{what}: reduce() gives class {obs[6]} but the shapes are {"un" if noop else ""}changed'
        return None
