"""C14 - einsum block operator and its rewritten-subscript transpose agree.

Real code: furax._base.dense.DenseBlockDiagonalOperator (`_get_transposed_subscripts`, `__init__`,
`mv`, `transpose`).  Model: coq/theories/Model/Einsum.v.  Theorems: coq/theories/Props/C14.v.
"""
from __future__ import annotations

import itertools
import zlib

import lib
from lib import PropertyCheck, clist, cstr, cz

LETTERS = ['i', 'j', 'k']
TOKENS = LETTERS + ['...']


# ----------------------------------------------------------------------------------------------
# enumeration of subscript strings


def token_seqs(maxn: int) -> list[str]:
    """All operand subscripts of at most maxn tokens over {i,j,k,...} with at most one ellipsis."""
    out = []
    for n in range(maxn + 1):
        for t in itertools.product(TOKENS, repeat=n):
            if t.count('...') <= 1:
                out.append(''.join(t))
    return out


def tokens_of(s: str):
    """Letters and '...' tokens of an operand subscript; None when it has stray dots."""
    out = []
    i = 0
    while i < len(s):
        if s[i] == '.':
            if s[i : i + 3] != '...':
                return None
            out.append('...')
            i += 3
        else:
            out.append(s[i])
            i += 1
    return out


def spec_split(s: str):
    """Specification-level parse: (l, r, o) token lists, or None when the string is not a
    two-operand explicit einsum subscript string (written independently of dense.py)."""
    if s.count(',') != 1:
        return None
    left, rest = s.split(',')
    if rest.count('->') != 1:
        return None
    right, res = rest.split('->')
    parts = [tokens_of(p) for p in (left, right, res)]
    if any(p is None for p in parts):
        return None
    return parts


def spec_expected(s: str):
    """What the property demands of `_get_transposed_subscripts(s)`: the rewritten string, or None
    (reject).  Token level; independent of the code's character-level algorithm."""
    p = spec_split(s)
    if p is None:
        return None
    l, r, o = p
    L, R, O = (set(x) - {'...'} for x in (l, r, o))
    contracted = sorted(c for c in L if c in R and c not in O)
    free = sorted(c for c in L if c in O and c not in R)
    if len(contracted) != 1 or len(free) != 1:
        return None
    sa, ta = contracted[0], free[0]
    if o.count(ta) != 1:
        return None
    if [sa if t == ta else t for t in o] != r:
        return None
    l2 = [ta if t == sa else sa if t == ta else t for t in l]
    return ''.join(l2) + ',' + ''.join(r) + '->' + ''.join(o)


def einsum_accepts(s: str) -> bool:
    """Static criterion for jnp.einsum accepting the (already transposable) string; confirmed
    against the real einsum by run_impl."""
    p = spec_split(s)
    if p is None:
        return False
    l, r, o = p
    if any(x.count('...') > 1 for x in p):
        return False
    lo = [t for t in o if t != '...']
    if len(set(lo)) != len(lo):
        return False
    if any(t not in l and t not in r for t in lo):
        return False
    if any(not (t.isalpha() and t.isascii()) for x in p for t in x if t != '...'):
        return False
    return True


# ----------------------------------------------------------------------------------------------
# real code


_impl = {}


def impl():
    if _impl:
        return _impl
    import jax
    import jax.numpy as jnp
    import numpy as np
    from furax._base.dense import DenseBlockDiagonalOperator

    # every case compiles new tiny einsums: keep XLA's compile time low and reuse compilations
    # across runs (keyed by the HLO, so a changed furax simply misses the cache)
    jax.config.update('jax_disable_most_optimizations', True)
    try:
        cache = lib.WORK / 'jax-cache-C14'
        cache.mkdir(parents=True, exist_ok=True)
        jax.config.update('jax_compilation_cache_dir', str(cache))
        jax.config.update('jax_persistent_cache_min_compile_time_secs', 0)
        jax.config.update('jax_persistent_cache_min_entry_size_bytes', -1)
    except Exception:
        pass
    _impl.update(jax=jax, jnp=jnp, np=np, D=DenseBlockDiagonalOperator)
    return _impl


def real_transposed(s: str):
    from furax._base.dense import DenseBlockDiagonalOperator as D

    try:
        return D._get_transposed_subscripts(s)
    except Exception as e:  # the outcome kind is the observation
        return {'err': type(e).__name__}


def prod(sh):
    n = 1
    for d in sh:
        n *= d
    return n


def block_data(sh, salt):
    n = prod(sh)
    return [((k * 7 + 3 * salt + 1) % 11) - 5 for k in range(n)]


def vec_data(sh, salt):
    n = prod(sh)
    return [((k * 3 + salt) % 5) - 2 for k in range(n)]


def operand_shape(tokens, dims, ell):
    out = []
    for t in tokens:
        if t == '...':
            out += list(ell)
        else:
            out.append(dims[t])
    return out


def container(kind, items):
    if kind == 'bare':
        return items[0]
    if kind == 'list':
        return list(items)
    if kind == 'dict':
        return {chr(ord('a') + k): v for k, v in enumerate(items)}
    if kind == 'nested':
        return {'p': items[0], 'q': list(items[1:])}
    raise ValueError(kind)


def build_op(case):
    im = impl()
    jnp, jax, np = im['jnp'], im['jax'], im['np']
    leaves = case['leaves']
    f32 = jnp.float32
    Bs = [jnp.asarray(np.array(block_data(lf['shB'], n), dtype=np.float32).reshape(lf['shB'])) for n, lf in enumerate(leaves)]
    structs = [jax.ShapeDtypeStruct(tuple(lf['shx']), f32) for lf in leaves]
    if case['mode'] == 'perleaf':
        blocks = container(case['container'], Bs)
    else:
        blocks = Bs[0]
    op = im['D'](blocks, container(case['container'], structs), case['subs'])
    return op, Bs


def flat_leaves(tree):
    return impl()['jax'].tree.leaves(tree)


def struct_obs(tree):
    jax = impl()['jax']
    leaves, treedef = jax.tree.flatten(tree)
    return {'tree': str(treedef), 'leaves': [[list(lf.shape), str(lf.dtype)] for lf in leaves]}


def dense_matrix(op):
    """Columns op.mv(e_k) over the flattened input pytree (no as_matrix: independent of it)."""
    im = impl()
    jax, jnp, np = im['jax'], im['jnp'], im['np']
    ins, treedef = jax.tree.flatten(op.in_structure())
    sizes = [prod(s.shape) for s in ins]
    cols = []
    for li, s in enumerate(ins):
        for k in range(sizes[li]):
            leaves = []
            for lj, t in enumerate(ins):
                a = np.zeros(sizes[lj], np.float32)
                if lj == li:
                    a[k] = 1
                leaves.append(jnp.asarray(a.reshape(t.shape)))
            y = op.mv(jax.tree.unflatten(treedef, leaves))
            cols.append(np.concatenate([np.asarray(v).ravel() for v in jax.tree.leaves(y)]))
    if not cols:
        return []
    return np.stack(cols, 1).tolist()


def apply_flat(op, datas):
    im = impl()
    jax, jnp, np = im['jax'], im['jnp'], im['np']
    ins, treedef = jax.tree.flatten(op.in_structure())
    leaves = [jnp.asarray(np.array(d, dtype=np.float32).reshape(s.shape)) for d, s in zip(datas, ins)]
    y = op.mv(jax.tree.unflatten(treedef, leaves))
    return [[list(v.shape), np.asarray(v).ravel().tolist()] for v in jax.tree.leaves(y)]


# ----------------------------------------------------------------------------------------------
# Coq printers / decoders


def cnatlist(sh):
    return '[' + '; '.join(str(int(d)) for d in sh) + ']%nat' if sh else '(@nil nat)'


def czlist(xs):
    return '[' + '; '.join(cz(x) for x in xs) + ']%Z' if xs else '(@nil Z)'


def carr(sh, data):
    return f'(mkZ {cnatlist(sh)} {czlist(data)})'


def dec_res(v):
    c, a = v['c'], v['a']
    if c == 'Ok':
        return a[0]
    return {'err': a[0]['c']}


def dec_arrs(v):
    if v is None:
        return None
    return [[list(sh), list(d)] for sh, d in v['a'][0]]


MALFORMED = [
    '', 'ij', 'ijj->i', 'ij,j', 'ij,j,k->i', 'ij,,j->i', ',ij,j->i', 'ij,j->i,', 'ij,j->i->j', 'ij,j->->i',
    'ij,j-->i', 'ij,j->>i', 'ij,j-i', 'ij,j>i', 'ij,j>-i', 'i->j,j->i', 'i-j,j->i', 'ij,->', ',->', ',', '->',
    'ij ,j->i', ' ij,j->i ', 'i j,j->i', 'ij, j -> i', 'ij,j- >i', 'i j , j - > i', 'ij...,j... -> i...',
    'i.,.->i', 'i..j,j->i', 'i....j,j->i', '...i.,.->i', 'iii.,i->.', '..i,.->i', 'i.j,j.->i.', 'ij.,j.->i.',
    'ij...,j..->i...', 'ij...,j...->i..', '.ij,j->i', 'i.j.,j->i.', 'ij......,j...->i...', 'ij,j.....->i.....',
    'Ij,j->I', 'ab,b->a', 'ij,J->i', 'i1,1->i', 'ij,j->i\n', 'ij\t,j->i', 'ij;j->i', 'ij,j=>i', 'ij,j→i',
    'ij,j->ij', 'ij,i->ij', 'ii,i->i', 'ij,ij->', 'ij,->i', ',j->i', 'i,i->', 'ij,ji->', 'ijk,jk->i', 'ijk,k->ij',
    'ij,j->ii', 'ij,jj->ii', 'iij,jj->ii', 'ij,jj->ij',
]


class Check(PropertyCheck):
    id = 'C14'
    props = ['C14.v']
    static_targets = ['theories/Lemmas/EinsumL.vo']
    coq_header = (
        'From Coq Require Import ZArith List String Ascii.\n'
        'From Furax Require Import Model.Einsum.\n'
        'Import ListNotations.\nOpen Scope string_scope.'
    )
    shard = 150
    trusted = [
        'jnp.einsum computes the textbook einsum (Model/Einsum.v `einsum`: sum over all letter assignments; an '
        "ellipsis stands for right-aligned fresh letters); size-1 broadcasting between the ellipsis dimensions of "
        'the blocks and of a leaf is not modelled (see boundary note in the evidence)',
        'Python str.split/replace/index, set operators and their precedence as transcribed in Model/Einsum.v '
        '(characters as 8-bit codes: the enumerated and malformed strings are ASCII)',
        'floating point: block and vector entries are small integers, every sum is exact in float32',
        'correspondence harness (harness/c14.py): real _get_transposed_subscripts / constructor / mv / .T on the '
        'enumerated strings and shapes; NumPy einsum as the independent reference of the oracle',
        'jax.tree.flatten/map leaf order (sorted dict keys) for pytrees of leaves and of block arrays',
    ]

    # ------------------------------------------------------------------------------------------
    def string_batches(self):
        quick = self.tier == 'quick'
        L3 = token_seqs(3)
        batches = []
        if quick:
            S2 = token_seqs(2)
            s2 = set(S2)
            for l in L3:
                for r in S2:
                    batches.append([f'{l},{r}->{o}' for o in S2])
            # deterministic subsample of the rest of the thorough scope
            rest = []
            n = 0
            for l in L3:
                for r in L3:
                    for o in L3:
                        if r in s2 and o in s2:
                            continue
                        n += 1
                        if n % 31 == 0:
                            rest.append(f'{l},{r}->{o}')
            for k in range(0, len(rest), 60):
                batches.append(rest[k : k + 60])
        else:
            for l in L3:
                for r in L3:
                    batches.append([f'{l},{r}->{o}' for o in L3])
        return batches

    def accepted_strings(self):
        """Strings of the full scope (l, r, o <= 3 tokens) that the specification accepts."""
        L3 = token_seqs(3)
        out = []
        for l in L3:
            if len(l.replace('...', '')) < 2:
                continue
            for r in L3:
                for o in L3:
                    s = f'{l},{r}->{o}'
                    if spec_expected(s) is not None:
                        out.append(s)
        return out

    def value_cases(self):
        quick = self.tier == 'quick'
        cases = []
        skipped = 0
        acc = self.accepted_strings()
        dimsets = [dict(zip(LETTERS, d)) for d in itertools.product([2, 3], repeat=3)]
        modes = [('bare', 'shared', 1), ('list', 'shared', 2), ('dict', 'perleaf', 2), ('bare', 'perleaf', 1),
                 ('nested', 'perleaf', 3), ('dict', 'shared', 2)]
        for n, s in enumerate(acc):
            if not einsum_accepts(s):
                skipped += 1
                continue
            l, r, o = spec_split(s)
            used = sorted({t for x in (l, r, o) for t in x if t != '...'})
            # ellipsis shapes (blocks, leaf): the leaf's ellipsis dimensions contain the blocks'
            if '...' in r:
                ells = [([], []), ([], [2]), ([2], [2]), ([2], [3, 2]), ([3, 2], [3, 2])] if '...' in l else [([], []), ([], [2]), ([], [2, 3])]
            else:
                ells = [([], []), ([2], []), ([3, 2], [])] if '...' in l else [([], [])]
            combos = []
            for d in dimsets:
                if any(d[c] != 2 for c in LETTERS if c not in used):
                    continue
                for e in ells:
                    combos.append((d, e))
            h = zlib.crc32(s.encode())
            if quick and n % 3 != 0:
                # every XLA compilation of a new (subscripts, shapes) costs ~0.1 s: the quick tier
                # takes every 3rd accepted string, the thorough tier all of them
                continue
            picks = [combos[h % len(combos)]]
            if not quick:
                picks.append(combos[(h // 7 + 1) % len(combos)])
            # mostly single leaves; pytrees (which multiply the compilations) for one case in four
            single = [m for m in modes if m[2] == 1]
            multi = [m for m in modes if m[2] > 1]
            mode_picks = [multi[(h // 3) % len(multi)] if n % 4 == 0 else single[(h // 3) % len(single)]]
            for ci, (d, (eB, ex)) in enumerate(picks):
                for cont, mode, nl in mode_picks:
                    leaves = []
                    for k in range(nl):
                        # leaves differ by their dimensions (perleaf) or only by ellipsis shape (shared)
                        dk = dict(d)
                        exk, eBk = list(ex), list(eB)
                        if mode == 'perleaf' and k > 0:
                            dk = {c: (5 - v if (k + ord(c)) % 2 else v) for c, v in d.items()}
                        if mode == 'shared' and k > 0 and '...' in r and '...' in o and len(ex) < 2:
                            exk = [3] + exk if len(eBk) <= len(exk) else exk
                        eo = exk if '...' in r else []
                        leaves.append(
                            {
                                'shB': operand_shape(l, dk, eBk),
                                'shx': operand_shape(r, dk, exk),
                                'shy': operand_shape(o, dk, eo),
                            }
                        )
                    if any(len(lf['shB']) < 2 for lf in leaves):
                        continue
                    cases.append({'kind': 'values', 'subs': s, 'mode': mode, 'container': cont, 'leaves': leaves})
        self.stats['accepted_strings_in_scope'] = len(acc)
        self.stats['accepted_strings_einsum_rejects(skipped for values)'] = skipped
        return cases

    def cases(self):
        cases = [{'kind': 'strings', 'subs': b} for b in self.string_batches()]
        for s in MALFORMED:
            cases.append({'kind': 'string1', 'subs': s, 'via': 'static'})
            cases.append({'kind': 'string1', 'subs': s, 'via': 'ctor', 'ranks': [2]})
        for ranks in ([1], [0], [2, 1], [3, 2], [1, 1], [3]):
            for s in ('ij,j->i', 'ij...,j...->i...', 'ij,j', 'i j,j->i'):
                cases.append({'kind': 'string1', 'subs': s, 'via': 'ctor', 'ranks': ranks})
        cases += self.value_cases()
        self.stats['strings_compared'] = sum(len(c['subs']) for c in cases if c['kind'] == 'strings')
        self.exhaustive = True
        return cases

    def rule(self):
        return (
            "strings: every 'l,r->o' with l of <=3 tokens and r, o of <=2 tokens (quick; plus every 31st string of "
            'the rest) / r, o of <=3 tokens (thorough, complete: 74^3 = 405224 strings) over letters {i,j,k} and at '
            'most one ellipsis token per operand at any position, in batches; plus a malformed stream (commas, '
            'arrows, spaces, stray dots, non-letters) through the static method and through the constructor (block '
            'ranks). values: every string of the full scope that the specification accepts and jnp.einsum accepts, '
            'with letter dimensions over {2,3} and ellipsis shapes (), (2), (3,2) for blocks/leaf (1-2 deterministic picks '
            'per string; quick: every 3rd string, thorough: all), as bare leaf / list / dict / nested pytrees, shared block '
            'array or one block array per leaf. Non-trivial: batches containing an accepted string, malformed strings, '
            'all value cases.'
        )

    def distribution(self, cases):
        d = {}
        for c in cases:
            k = c['kind'] + (':' + c['mode'] + '/' + c['container'] if c['kind'] == 'values' else '')
            d[k] = d.get(k, 0) + 1
        return d

    def nontrivial(self, case, obs):
        if case['kind'] == 'strings':
            return any(isinstance(o, str) for o in obs)
        return True

    # ------------------------------------------------------------------------------------------
    def run_impl(self, case):
        if case['kind'] == 'strings':
            return [real_transposed(s) for s in case['subs']]
        if case['kind'] == 'string1':
            if case['via'] == 'static':
                return real_transposed(case['subs'])
            im = impl()
            jnp, jax = im['jnp'], im['jax']
            blocks = [jnp.zeros((2,) * r, jnp.float32) for r in case['ranks']]
            blocks = blocks[0] if len(blocks) == 1 else blocks
            try:
                op = im['D'](blocks, jax.ShapeDtypeStruct((2,), jnp.float32), case['subs'])
                return op.subscripts
            except Exception as e:
                return {'err': type(e).__name__}
        # values
        im = impl()
        np = im['np']
        obs = {}
        try:
            op, Bs = build_op(case)
        except Exception as e:
            return {'ctor_error': type(e).__name__}
        xs = [vec_data(lf['shx'], 1 + n) for n, lf in enumerate(case['leaves'])]
        ys = [vec_data(lf['shy'], 2 + n) for n, lf in enumerate(case['leaves'])]
        try:
            obs['fwd'] = apply_flat(op, xs)
        except Exception as e:
            return {'mv_error': type(e).__name__, 'msg': str(e)[:200]}
        obs['in'] = struct_obs(op.in_structure())
        obs['out'] = struct_obs(op.out_structure())
        try:
            t = op.T
        except Exception as e:
            obs['T'] = {'err': type(e).__name__}
            return obs
        obs['T'] = t.subscripts
        obs['T_in'] = struct_obs(t.in_structure())
        try:
            obs['T_out'] = struct_obs(t.out_structure())
            obs['bwd'] = apply_flat(t, ys)
            obs['M'] = dense_matrix(op)
            obs['MT'] = dense_matrix(t)
            tt = t.T
            obs['TT'] = tt.subscripts
            obs['TT_fwd'] = apply_flat(tt, xs)
            obs['same_blocks'] = bool(t.blocks is op.blocks) or all(
                a is b for a, b in zip(flat_leaves(t.blocks), flat_leaves(op.blocks))
            )
        except Exception as e:
            obs['T_error'] = f'{type(e).__name__}: {str(e)[:200]}'
        # reference for the first clause of the property: einsum(subscripts, blocks, leaf) per leaf
        ref = []
        shared = case['mode'] != 'perleaf'
        for n, lf in enumerate(case['leaves']):
            B = np.asarray(Bs[0 if shared else n], dtype=np.float64)
            x = np.array(xs[n], dtype=np.float64).reshape(lf['shx'])
            y = ref_einsum(case['subs'], B, x)
            ref.append([list(y.shape), y.ravel().tolist()])
        obs['ref_fwd'] = ref
        return obs

    def model_term(self, case):
        if case['kind'] == 'strings':
            return 'map transposed_s ' + clist(case['subs'], cstr)
        if case['kind'] == 'string1':
            try:
                case['subs'].encode('ascii')
            except UnicodeEncodeError:
                return None  # beyond the 8-bit characters of the model (compared by the oracle only)
            if any(ord(ch) < 32 for ch in case['subs']):
                return None
            if case['via'] == 'static':
                return 'transposed_s ' + cstr(case['subs'])
            return f'ctor_s {cnatlist(case["ranks"])} {cstr(case["subs"])}'
        leaves = case['leaves']
        Bs = [carr(lf['shB'], block_data(lf['shB'], n)) for n, lf in enumerate(leaves)]
        xs = [carr(lf['shx'], vec_data(lf['shx'], 1 + n)) for n, lf in enumerate(leaves)]
        ys = [carr(lf['shy'], vec_data(lf['shy'], 2 + n)) for n, lf in enumerate(leaves)]
        bl = f'(PerLeaf {clist(Bs)})' if case['mode'] == 'perleaf' else f'(Shared {Bs[0]})'
        return f'observe_op {cstr(case["subs"])} {bl} {clist(xs)} {clist(ys)}'

    def decode(self, case, v):
        if case['kind'] == 'strings':
            return [dec_res(x) for x in v]
        if case['kind'] == 'string1':
            return dec_res(v)
        if v is None:
            return {'model': 'subscripts do not parse'}
        fwd, res, bwd = v['a'][0]
        return {'fwd': dec_arrs(fwd), 'T': dec_res(res), 'bwd': dec_arrs(bwd)}

    def comparable(self, case, obs):
        if case['kind'] != 'values' or not isinstance(obs, dict) or 'fwd' not in obs:
            return obs
        return {'fwd': obs.get('fwd'), 'T': obs.get('T'), 'bwd': obs.get('bwd')}

    # ------------------------------------------------------------------------------------------
    def check_string(self, s, out):
        """The property on one string and the code's outcome for it."""
        exp = spec_expected(s)
        if isinstance(out, dict):
            if out.get('err') != 'ValueError':
                return f'{s!r}: raised {out.get("err")}, not ValueError'
            if exp is not None:
                return f'{s!r}: rejected although it has one contracted and one free block axis (expected {exp!r})'
            return None
        if spec_split(s) is None:
            # not a well-formed subscript string (stray dots...): nothing is promised beyond "no wrong transpose
            # of a string einsum accepts"; einsum rejects all of these
            if s.count(',') != 1 or s.split(',')[1].count('->') != 1:
                return f'{s!r}: malformed separators but accepted as {out!r}'
            return None
        if exp is None:
            return f'{s!r}: accepted as {out!r} although no rewriting exists'
        msg = numeric_adjoint(s, out)
        if msg:
            return msg
        if out != exp:
            return f'{s!r}: rewritten to {out!r}, expected {exp!r}'
        return None

    def oracle(self, case, obs):
        if case['kind'] == 'strings':
            for s, out in zip(case['subs'], obs):
                msg = self.check_string(s, out)
                if msg:
                    return msg
            return None
        if case['kind'] == 'string1':
            s = case['subs']
            if case['via'] == 'static':
                return self.check_string(s, obs)
            s2 = s.replace(' ', '')
            bad = any(r < 2 for r in case['ranks']) or s2.count(',') != 1 or s2.split(',')[1].count('->') != 1
            if bad and obs != {'err': 'ValueError'}:
                return f'constructor accepted {s!r} with block ranks {case["ranks"]}: {obs!r}'
            if not bad and obs != s2:
                return f'constructor stored {obs!r} for {s!r}'
            return None
        # values
        if 'fwd' not in obs:
            return f'einsum/constructor failed on an accepted string: {obs}'
        if obs['fwd'] != obs.get('ref_fwd'):
            return f'mv differs from einsum(subscripts, blocks, leaf) per leaf: {obs["fwd"]} vs {obs.get("ref_fwd")}'
        if isinstance(obs.get('T'), dict):
            return f'transpose raised {obs["T"]} on a string with one contracted and one free block axis'
        if 'T_error' in obs:
            return f'the transposed operator fails: {obs["T_error"]}'
        if obs['T_in'] != obs['out'] or obs['T_out'] != obs['in']:
            return f'structures of the transpose are not swapped: in {obs["in"]} out {obs["out"]} T_in {obs["T_in"]} T_out {obs["T_out"]}'
        M, MT = obs['M'], obs['MT']
        Mt = [list(r) for r in zip(*M)] if M else []
        if MT != Mt:
            return f'matrix of op.T {MT} is not the transpose of the matrix of op {M} (op.T.subscripts = {obs["T"]!r})'
        if obs['TT_fwd'] != obs['fwd']:
            return f'op.T.T does not act as op: {obs["TT_fwd"]} vs {obs["fwd"]}'
        if obs['TT'] != case['subs'].replace(' ', ''):
            return f'op.T.T has subscripts {obs["TT"]!r}'
        if not obs.get('same_blocks'):
            return 'the transpose does not reuse the block data'
        return None

    def finding_key(self, case, obs):
        """Input class of a failure: D1 = a repeated letter in the blocks' subscript."""
        s = None
        if case['kind'] == 'strings':
            s = next((x for x, o in zip(case['subs'], obs) if self.check_string(x, o)), None)
        elif isinstance(case.get('subs'), str):
            s = case['subs']
        p = spec_split(s.replace(' ', '')) if s else None
        if p and len(set(p[0])) < len(p[0]):
            return 'dense-transpose-repeated-letter-in-blocks-subscript'
        return None

    def shrink(self, case, failing):
        if case['kind'] == 'strings':
            for s in case['subs']:
                if self.check_string(s, real_transposed(s)):
                    return {'kind': 'strings', 'subs': [s]}
        return case

    # ------------------------------------------------------------------------------------------
    def extra(self):
        """Boundary of the property (reported, not a violation): when the ellipsis dimensions of the
        blocks are broadcast against SMALLER ellipsis dimensions of the leaf, no rewriting of the
        subscripts can be the adjoint (it would have to sum over the broadcast axes)."""
        im = impl()
        jnp, jax = im['jnp'], im['jax']
        rows = []
        for shB, shx in (([2, 3, 5], [3, 1]), ([2, 3, 5], [3]), ([2, 3, 2, 2], [3, 2])):
            B = jnp.ones(tuple(shB), jnp.float32)
            op = im['D'](B, jax.ShapeDtypeStruct(tuple(shx), jnp.float32), 'ij...,j...->i...')
            t = op.T
            rows.append(
                {
                    'blocks': shB,
                    'leaf': shx,
                    'out': list(op.out_structure().shape),
                    'T_out': list(t.out_structure().shape),
                    'T_out_equals_in': list(t.out_structure().shape) == shx,
                }
            )
        return {
            'boundary_blocks_ellipsis_broadcast_over_leaf': rows,
            'note': 'outside wf_shapes of Props/C14.v (leaf ellipsis dimensions must contain the blocks\'); '
            'reported to the lead as a candidate finding, not alarmed on',
        }


def ref_einsum(s: str, B, x):
    """Reference einsum for 'l,r->o' written independently of JAX: the ellipsis of each operand is
    expanded into right-aligned fresh letters (A, B, ...), ellipsis dimensions that the output does
    not mention are summed (JAX's behaviour; NumPy refuses them), then NumPy evaluates the
    ellipsis-free string."""
    import numpy as np

    l, r, o = spec_split(s)
    eB = B.ndim - (len(l) - 1) if '...' in l else 0
    ex = x.ndim - (len(r) - 1) if '...' in r else 0
    if eB < 0 or ex < 0:
        raise ValueError('rank')
    m = max(eB, ex)
    fresh = [chr(ord('A') + k) for k in range(m)]

    def exp(ts, e):
        out = []
        for t in ts:
            out += fresh[m - e :] if t == '...' else [t]
        return ''.join(out)

    return np.einsum(f'{exp(l, eB)},{exp(r, ex)}->{exp(o, m)}', B, x)




def numeric_adjoint(s: str, out: str):
    """Independent reference (NumPy einsum): <einsum(s,B,x), y> == <x, einsum(out,B,y)> and the
    transposed map sends the output structure back to the input structure."""
    import numpy as np

    if not einsum_accepts(s):
        return None
    l, r, o = spec_split(s)
    rng = np.random.default_rng(zlib.crc32(s.encode()))
    for dims, ell in (({'i': 2, 'j': 3, 'k': 4}, [2]), ({'i': 3, 'j': 2, 'k': 2}, [3, 2])):
        dims = {**{t: 2 for x in (l, r, o) for t in x}, **dims}
        shB, shx = operand_shape(l, dims, ell), operand_shape(r, dims, ell)
        B = rng.integers(-3, 4, size=shB).astype(np.float64)
        x = rng.integers(-3, 4, size=shx).astype(np.float64)
        try:
            y = ref_einsum(s, B, x)
        except Exception:
            return None
        w = rng.integers(-3, 4, size=y.shape).astype(np.float64)
        try:
            xt = ref_einsum(out, B, w)
        except Exception as e:
            return f'{s!r} -> {out!r}: the rewritten string cannot be applied to the output ({type(e).__name__})'
        if xt.shape != x.shape:
            return f'{s!r} -> {out!r}: transposed map returns shape {xt.shape}, the input has {x.shape}'
        if float((y * w).sum()) != float((x * xt).sum()):
            return f'{s!r} -> {out!r}: <Ax,y> = {float((y * w).sum())} but <x,A^T y> = {float((x * xt).sum())} (dims {dims}, ellipsis {ell})'
    return None
