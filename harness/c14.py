"""C14 - einsum block operator and its rewritten-subscript transpose agree.

Real code: furax._base.dense.DenseBlockDiagonalOperator (`_get_transposed_subscripts`, `__init__`,
`mv`, `transpose`).  Model: coq/theories/Model/Einsum.v.  Theorems: coq/theories/Props/C14.v.
"""
from __future__ import annotations

import itertools
import zlib
from fractions import Fraction

import lib
from lib import PropertyCheck, clist, cstr, cz

LETTERS = ['i', 'j', 'k']
TOKENS = LETTERS + ['...']


# ----------------------------------------------------------------------------------------------
# enumeration of subscript strings


def token_seqs(maxn: int) -> list[str]:
    """All operand subscripts of at most maxn tokens over {i,j,k,...} with at most one ellipsis."""
    out = []
    for n in range(maxn + 1):
        for t in itertools.product(TOKENS, repeat=n):
            if t.count('...') <= 1:
                out.append(''.join(t))
    return out


def tokens_of(s: str):
    """Letters and '...' tokens of an operand subscript; None when it has stray dots."""
    out = []
    i = 0
    while i < len(s):
        if s[i] == '.':
            if s[i : i + 3] != '...':
                return None
            out.append('...')
            i += 3
        else:
            out.append(s[i])
            i += 1
    return out


def spec_split(s: str):
    """Specification-level parse: (l, r, o) token lists, or None when the string is not a
    two-operand explicit einsum subscript string (written independently of dense.py)."""
    if s.count(',') != 1:
        return None
    left, rest = s.split(',')
    if rest.count('->') != 1:
        return None
    right, res = rest.split('->')
    parts = [tokens_of(p) for p in (left, right, res)]
    if any(p is None for p in parts):
        return None
    return parts


def spec_expected(s: str):
    """What the property demands of `_get_transposed_subscripts(s)`: the rewritten string, or None
    (reject).  Token level; independent of the code's character-level algorithm."""
    p = spec_split(s)
    if p is None:
        return None
    l, r, o = p
    L, R, O = (set(x) - {'...'} for x in (l, r, o))
    contracted = sorted(c for c in L if c in R and c not in O)
    free = sorted(c for c in L if c in O and c not in R)
    if len(contracted) != 1 or len(free) != 1:
        return None
    sa, ta = contracted[0], free[0]
    if o.count(ta) != 1:
        return None
    if [sa if t == ta else t for t in o] != r:
        return None
    l2 = [ta if t == sa else sa if t == ta else t for t in l]
    return ''.join(l2) + ',' + ''.join(r) + '->' + ''.join(o)


def einsum_accepts(s: str) -> bool:
    """Static criterion for jnp.einsum accepting the (already transposable) string; confirmed
    against the real einsum by run_impl."""
    p = spec_split(s)
    if p is None:
        return False
    l, r, o = p
    if any(x.count('...') > 1 for x in p):
        return False
    lo = [t for t in o if t != '...']
    if len(set(lo)) != len(lo):
        return False
    if any(t not in l and t not in r for t in lo):
        return False
    if any(not (t.isalpha() and t.isascii()) for x in p for t in x if t != '...'):
        return False
    return True


# ----------------------------------------------------------------------------------------------
# real code


_impl = {}


def impl():
    if _impl:
        return _impl
    import jax
    import jax.numpy as jnp
    import numpy as np
    from furax._base.dense import DenseBlockDiagonalOperator

    # every case compiles new tiny einsums: keep XLA's compile time low and reuse compilations
    # across runs (keyed by the HLO, so a changed furax simply misses the cache)
    jax.config.update('jax_disable_most_optimizations', True)
    try:
        cache = lib.WORK / 'jax-cache-C14'
        cache.mkdir(parents=True, exist_ok=True)
        jax.config.update('jax_compilation_cache_dir', str(cache))
        jax.config.update('jax_persistent_cache_min_compile_time_secs', 0)
        jax.config.update('jax_persistent_cache_min_entry_size_bytes', -1)
    except Exception:
        pass
    _impl.update(jax=jax, jnp=jnp, np=np, D=DenseBlockDiagonalOperator)
    return _impl


def real_transposed(s: str):
    from furax._base.dense import DenseBlockDiagonalOperator as D

    try:
        return D._get_transposed_subscripts(s)
    except Exception as e:  # the outcome kind is the observation
        return {'err': type(e).__name__}


def prod(sh):
    n = 1
    for d in sh:
        n *= d
    return n


def block_data(sh, salt):
    n = prod(sh)
    return [((k * 7 + 3 * salt + 1) % 11) - 5 for k in range(n)]


def vec_data(sh, salt):
    n = prod(sh)
    return [((k * 3 + salt) % 5) - 2 for k in range(n)]


def operand_shape(tokens, dims, ell):
    out = []
    for t in tokens:
        if t == '...':
            out += list(ell)
        else:
            out.append(dims[t])
    return out


def container(kind, items):
    """A pytree of the given kind holding `items` as its leaves, in jax.tree.flatten order."""
    if kind == 'bare':
        return items[0]
    if kind in ('list', 'list1', 'list0'):
        return list(items)
    if kind == 'tuple':
        return tuple(items)
    if kind in ('dict', 'dict1', 'dict0'):
        return {chr(ord('a') + k): v for k, v in enumerate(items)}
    if kind == 'nested':
        return {'p': items[0], 'q': list(items[1:])}
    if kind == 'deep':
        return {'p': {'q': [items[0]]}, 'r': tuple(items[1:])}
    if kind == 'nested0':
        return {'p': [], 'q': {}}
    raise ValueError(kind)


# ----------------------------------------------------------------------------------------------
# array library of the blocks and of the leaves ('bkind' / 'xkind' of a value case): jax.Array,
# numpy.ndarray, or 'mixed' (numpy for the even block arrays / leaves, jax for the odd ones).  Both are
# pytree leaves accepted by jnp.einsum; equinox stores a NumPy block array as it is.  Python nested
# lists / scalars are not array leaves (a list is a pytree container, a scalar has no .shape: the
# constructor's rank test does not accept them) - see `extra()`.

KINDS = ['jax', 'numpy']


def kind_of(spec, n: int) -> str:
    if spec in (None, 'jax'):
        return 'jax'
    if spec == 'numpy':
        return 'numpy'
    if spec == 'mixed':
        return 'numpy' if n % 2 == 0 else 'jax'
    raise ValueError(spec)


def as_kind(a, kind: str):
    """The NumPy array `a` as an array of the given library (same dtype, same values)."""
    im = impl()
    if kind == 'numpy':
        out = im['np'].array(a)
        assert type(out) is im['np'].ndarray
        return out
    out = im['jnp'].asarray(a)
    if str(out.dtype) != str(a.dtype):
        raise AssertionError(f'jax array of dtype {out.dtype}, wanted {a.dtype}')
    return out


# ----------------------------------------------------------------------------------------------
# dtypes and exactly representable data.  Every entry is  numerator / den  with den in
# {1, 2, 2**31}: integers (den 1), half-integers (den 2: a cast to an integer dtype truncates
# them) or, for 64-bit inexact dtypes under jax_enable_x64, integers + {1,2,3} * 2**-31 (a cast to
# a 32-bit float dtype rounds them).  Complex dtypes get an imaginary part of the same form.
# The Coq model computes with the numerators (Z), the observation is scaled back by the
# denominators: einsum is bilinear, every product and sum below is exact in the dtypes used.

DEFAULT_SUBS = 'ij...,j...->i...'
FINE = 2**31


def dt_kind(dt: str) -> str:
    return 'c' if dt.startswith('complex') else 'f' if dt.startswith('float') else 'i'


def dt_wide(dt: str) -> bool:
    return dt in ('float64', 'complex128')


def nums_for(base, den, dt):
    """Numerators over `den` for an array of dtype `dt` from the small integers `base`."""
    if den == 1:
        return list(base)
    if dt_kind(dt) == 'i':
        return [v * den for v in base]
    if den == FINE and dt_wide(dt):
        return [v * den + 1 + (n % 3) for n, v in enumerate(base)]
    return [(2 * v + 1) * (den // 2) for v in base]


def case_dtypes(case):
    """(block dtypes per block array, leaf dtypes per leaf, denB, denx, deny)."""
    nl = len(case['leaves'])
    nb = nl if case['mode'] == 'perleaf' else 1
    bdt = case.get('bdt') or ['float32'] * nb
    xdt = case.get('xdt') or ['float32'] * nl
    return bdt, xdt, case.get('denB', 1), case.get('denx', 1), case.get('deny', 1)


def block_shape(case, n):
    """Shape of the n-th block array (a pytree without leaves still has its shared block array)."""
    return case['leaves'][n]['shB'] if case['leaves'] else case['shB']


def block_nums(case):
    """[(re numerators, im numerators or None)] per block array."""
    bdt, _, denB, _, _ = case_dtypes(case)
    out = []
    for n, dt in enumerate(bdt):
        sh = block_shape(case, n)
        re_ = nums_for(block_data(sh, n), denB, dt)
        im_ = nums_for(block_data(sh, n + 5), denB, dt) if dt_kind(dt) == 'c' else None
        out.append((re_, im_))
    return out


def leaf_nums(case, which):
    """[(re, im or None)] per leaf for the inputs of op ('x') or of op.T ('y': real valued)."""
    bdt, xdt, _, denx, deny = case_dtypes(case)
    out = []
    for n, lf in enumerate(case['leaves']):
        if which == 'x':
            re_ = nums_for(vec_data(lf['shx'], 1 + n), denx, xdt[n])
            im_ = nums_for(vec_data(lf['shx'], 4 + n), denx, xdt[n]) if dt_kind(xdt[n]) == 'c' else None
        else:
            ydt = expected_out_dtype(bdt[n if len(bdt) > 1 else 0], xdt[n])
            re_ = nums_for(vec_data(lf['shy'], 2 + n), deny, ydt)
            im_ = None
        out.append((re_, im_))
    return out


def expected_out_dtype(bdt: str, xdt: str) -> str:
    """dtype of einsum(blocks, leaf): JAX's type promotion (independent of furax)."""
    return str(impl()['jnp'].promote_types(bdt, xdt))


def exact_np(re_, im_, den, sh, dt, strict=True):
    """NumPy array of dtype dt holding re/den (+ 1j*im/den); strict: must be exactly representable."""
    np = impl()['np']
    a = np.array(re_, dtype=np.float64) / den
    if im_ is not None:
        a = a + 1j * (np.array(im_, dtype=np.float64) / den)
    a = a.reshape(sh)
    b = a.astype(dt)
    if strict and not np.array_equal(b.astype(a.dtype), a):
        raise AssertionError(f'case data not representable in {dt}')
    return a, b


def numlist(a):
    """Flat list of the entries; complex entries as [re, im] pairs (no '-0' string artefacts)."""
    np = impl()['np']
    a = np.asarray(a)
    if np.iscomplexobj(a):
        return np.stack([a.real, a.imag], -1).reshape(-1, 2).tolist()
    return a.ravel().tolist()


def build_op(case):
    im = impl()
    jnp, jax = im['jnp'], im['jax']
    leaves = case['leaves']
    bdt, xdt, denB, _, _ = case_dtypes(case)
    Bs, Bex = [], []
    for n, (re_, im_) in enumerate(block_nums(case)):
        ex, a = exact_np(re_, im_, denB, block_shape(case, n), bdt[n])
        B = as_kind(a, kind_of(case.get('bkind'), n))
        if str(B.dtype) != bdt[n]:
            raise AssertionError(f'blocks dtype {B.dtype}, wanted {bdt[n]}')
        Bs.append(B)
        Bex.append(ex)
    structs = [jax.ShapeDtypeStruct(tuple(lf['shx']), jnp.dtype(xdt[n])) for n, lf in enumerate(leaves)]
    if case['mode'] == 'perleaf':
        blocks = container(case['container'], Bs)
    else:
        blocks = Bs[0]
    if case.get('default'):
        # the constructor's default subscripts (the case records the string it must equal)
        op = im['D'](blocks, container(case['container'], structs))
    else:
        op = im['D'](blocks, container(case['container'], structs), case['subs'])
    return op, Bs, Bex


def flat_leaves(tree):
    return impl()['jax'].tree.leaves(tree)


def struct_obs(tree):
    jax = impl()['jax']
    leaves, treedef = jax.tree.flatten(tree)
    return {'tree': str(treedef), 'leaves': [[list(lf.shape), str(lf.dtype)] for lf in leaves]}


def dense_matrix(op, xkind=None):
    """Columns op.mv(e_k) over the flattened input pytree (no as_matrix: independent of it); the unit
    vectors are arrays of the library `xkind`."""
    im = impl()
    jax, np = im['jax'], im['np']
    ins, treedef = jax.tree.flatten(op.in_structure())
    sizes = [prod(s.shape) for s in ins]
    cols = []
    for li, s in enumerate(ins):
        for k in range(sizes[li]):
            leaves = []
            for lj, t in enumerate(ins):
                a = np.zeros(sizes[lj], t.dtype)
                if lj == li:
                    a[k] = 1
                leaves.append(as_kind(a.reshape(t.shape), kind_of(xkind, lj)))
            y = op.mv(jax.tree.unflatten(treedef, leaves))
            cols.append(np.concatenate([np.asarray(v).ravel() for v in jax.tree.leaves(y)]))
    if not cols:
        return []
    M = np.stack(cols, 1)
    return [numlist(row) for row in M]


def matrix_rows(A):
    """Rows of a 2-d array as lists of entries ([] for a matrix without rows or without columns)."""
    np = impl()['np']
    A = np.asarray(A)
    if A.ndim != 2:
        raise ValueError(f'as_matrix returned an array of shape {A.shape}')
    if A.shape[0] == 0 or A.shape[1] == 0:
        return []
    return [numlist(row) for row in A]


def call_mv(op, x, how):
    """op.mv(x) executed eagerly ('eager'), inside jax.jit with the operator closed over ('jit': its
    blocks are constants of the library they were given in) or with the operator as an argument of
    the jitted function ('jitarg': its blocks are tracers)."""
    jax = impl()['jax']
    if how in (None, 'eager'):
        return op.mv(x)
    if how == 'call':
        return op(x)
    if how == 'jit':
        return jax.jit(lambda v: op.mv(v))(x)
    if how == 'jitarg':
        return jax.jit(lambda o, v: o.mv(v))(op, x)
    raise ValueError(how)


def apply_flat(op, datas, den=1, xkind=None, how=None):
    """op.mv on the leaves datas[k] = (re numerators, im numerators or None) / den, in the dtypes of
    op.in_structure() and as arrays of the library `xkind`; observation: [shape, entries] per output
    leaf and the output dtypes."""
    im = impl()
    jax, np = im['jax'], im['np']
    ins, treedef = jax.tree.flatten(op.in_structure())
    leaves = []
    for n, ((re_, im_), s) in enumerate(zip(datas, ins)):
        if im_ is not None and not np.issubdtype(s.dtype, np.complexfloating):
            im_ = None
        leaves.append(as_kind(exact_np(re_, im_, den, s.shape, s.dtype, strict=False)[1], kind_of(xkind, n)))
    x = jax.tree.unflatten(treedef, leaves)
    y = call_mv(op, x, how)
    if jax.tree.structure(y) != treedef:
        raise StructureMismatch(f'the output pytree {jax.tree.structure(y)} does not have the structure of the input {treedef}')
    outs = jax.tree.leaves(y)
    return [[list(v.shape), numlist(v)] for v in outs], [str(v.dtype) for v in outs]


class StructureMismatch(Exception):
    pass


# ----------------------------------------------------------------------------------------------
# Coq printers / decoders


def cnatlist(sh):
    return '[' + '; '.join(str(int(d)) for d in sh) + ']%nat' if sh else '(@nil nat)'


def czlist(xs):
    return '[' + '; '.join(cz(x) for x in xs) + ']%Z' if xs else '(@nil Z)'


def carr(sh, data):
    return f'(mkZ {cnatlist(sh)} {czlist(data)})'


def dec_res(v):
    c, a = v['c'], v['a']
    if c == 'Ok':
        return a[0]
    return {'err': a[0]['c']}


def dec_arrs(v):
    if v is None:
        return None
    return [[list(sh), list(d)] for sh, d in v['a'][0]]


MALFORMED = [
    '', 'ij', 'ijj->i', 'ij,j', 'ij,j,k->i', 'ij,,j->i', ',ij,j->i', 'ij,j->i,', 'ij,j->i->j', 'ij,j->->i',
    'ij,j-->i', 'ij,j->>i', 'ij,j-i', 'ij,j>i', 'ij,j>-i', 'i->j,j->i', 'i-j,j->i', 'ij,->', ',->', ',', '->',
    'ij ,j->i', ' ij,j->i ', 'i j,j->i', 'ij, j -> i', 'ij,j- >i', 'i j , j - > i', 'ij...,j... -> i...',
    'i.,.->i', 'i..j,j->i', 'i....j,j->i', '...i.,.->i', 'iii.,i->.', '..i,.->i', 'i.j,j.->i.', 'ij.,j.->i.',
    'ij...,j..->i...', 'ij...,j...->i..', '.ij,j->i', 'i.j.,j->i.', 'ij......,j...->i...', 'ij,j.....->i.....',
    'Ij,j->I', 'ab,b->a', 'ij,J->i', 'i1,1->i', 'ij,j->i\n', 'ij\t,j->i', 'ij;j->i', 'ij,j=>i', 'ij,j→i',
    'ij,j->ij', 'ij,i->ij', 'ii,i->i', 'ij,ij->', 'ij,->i', ',j->i', 'i,i->', 'ij,ji->', 'ijk,jk->i', 'ijk,k->ij',
    'ij,j->ii', 'ij,jj->ii', 'iij,jj->ii', 'ij,jj->ij',
]


class Check(PropertyCheck):
    id = 'C14'
    props = ['C14.v']
    static_targets = ['theories/Lemmas/EinsumL.vo']
    coq_header = (
        'From Coq Require Import ZArith List String Ascii.\n'
        'From Furax Require Import Model.Einsum.\n'
        'Import ListNotations.\nOpen Scope string_scope.'
    )
    shard = 150
    trusted = [
        'jnp.einsum computes the textbook einsum (Model/Einsum.v `einsum`: sum over all letter assignments; an '
        "ellipsis stands for right-aligned fresh letters); size-1 broadcasting between the ellipsis dimensions of "
        'the blocks and of a leaf is not modelled (see boundary note in the evidence)',
        'Python str.split/replace/index, set operators and their precedence as transcribed in Model/Einsum.v '
        '(characters as 8-bit codes: the enumerated and malformed strings are ASCII)',
        'floating point: block and vector entries are small integers (dtype cases: half-integers, or integers + '
        'k*2^-31 in 64-bit dtypes), every product and sum is exact in the dtypes used; the dtype cases are compared '
        'with the Z model through the numerators (bilinearity of einsum: real and imaginary parts of the blocks and of '
        'the leaves are evaluated separately by the model and recombined by the harness)',
        'dtype of einsum(subscripts, blocks, leaf) = jnp.promote_types(blocks dtype, leaf dtype) (JAX, independent of '
        'furax); the model has no dtypes: result dtypes and the absence of casts are checked by the oracle only '
        '(NumPy float64/complex128 reference on the exact values)',
        'correspondence harness (harness/c14.py): real _get_transposed_subscripts / constructor / mv / .T on the '
        'enumerated strings and shapes; NumPy einsum as the independent reference of the oracle',
        'jax.tree.flatten/map leaf order (sorted dict keys) for pytrees of leaves and of block arrays',
        'the array library of the blocks and of the leaves (jax.Array / numpy.ndarray), the execution mode (eager, jit) '
        'and as_matrix are not modelled: the Z model is compared on the values, which must be the same for every '
        'library and mode; that a legal case does not raise is checked by the oracle (implementation side)',
    ]

    # ------------------------------------------------------------------------------------------
    def string_batches(self):
        quick = self.tier == 'quick'
        L3 = token_seqs(3)
        batches = []
        if quick:
            S2 = token_seqs(2)
            s2 = set(S2)
            for l in L3:
                for r in S2:
                    batches.append([f'{l},{r}->{o}' for o in S2])
            # deterministic subsample of the rest of the thorough scope
            rest = []
            n = 0
            for l in L3:
                for r in L3:
                    for o in L3:
                        if r in s2 and o in s2:
                            continue
                        n += 1
                        if n % 31 == 0:
                            rest.append(f'{l},{r}->{o}')
            for k in range(0, len(rest), 60):
                batches.append(rest[k : k + 60])
        else:
            for l in L3:
                for r in L3:
                    batches.append([f'{l},{r}->{o}' for o in L3])
        return batches

    def accepted_strings(self):
        """Strings of the full scope (l, r, o <= 3 tokens) that the specification accepts."""
        L3 = token_seqs(3)
        out = []
        for l in L3:
            if len(l.replace('...', '')) < 2:
                continue
            for r in L3:
                for o in L3:
                    s = f'{l},{r}->{o}'
                    if spec_expected(s) is not None:
                        out.append(s)
        return out

    def value_cases(self):
        quick = self.tier == 'quick'
        cases = []
        skipped = 0
        acc = self.accepted_strings()
        dimsets = [dict(zip(LETTERS, d)) for d in itertools.product([2, 3], repeat=3)]
        modes = [('bare', 'shared', 1), ('list', 'shared', 2), ('dict', 'perleaf', 2), ('bare', 'perleaf', 1),
                 ('nested', 'perleaf', 3), ('dict', 'shared', 2)]
        for n, s in enumerate(acc):
            if not einsum_accepts(s):
                skipped += 1
                continue
            l, r, o = spec_split(s)
            used = sorted({t for x in (l, r, o) for t in x if t != '...'})
            # ellipsis shapes (blocks, leaf): the leaf's ellipsis dimensions contain the blocks'
            if '...' in r:
                ells = [([], []), ([], [2]), ([2], [2]), ([2], [3, 2]), ([3, 2], [3, 2])] if '...' in l else [([], []), ([], [2]), ([], [2, 3])]
            else:
                ells = [([], []), ([2], []), ([3, 2], [])] if '...' in l else [([], [])]
            combos = []
            for d in dimsets:
                if any(d[c] != 2 for c in LETTERS if c not in used):
                    continue
                for e in ells:
                    combos.append((d, e))
            h = zlib.crc32(s.encode())
            if quick and n % 3 != 0:
                # every XLA compilation of a new (subscripts, shapes) costs ~0.1 s: the quick tier
                # takes every 3rd accepted string, the thorough tier all of them
                continue
            picks = [combos[h % len(combos)]]
            if not quick:
                picks.append(combos[(h // 7 + 1) % len(combos)])
            # mostly single leaves; pytrees (which multiply the compilations) for one case in four
            single = [m for m in modes if m[2] == 1]
            multi = [m for m in modes if m[2] > 1]
            mode_picks = [multi[(h // 3) % len(multi)] if n % 4 == 0 else single[(h // 3) % len(single)]]
            for ci, (d, (eB, ex)) in enumerate(picks):
                for cont, mode, nl in mode_picks:
                    leaves = []
                    for k in range(nl):
                        # leaves differ by their dimensions (perleaf) or only by ellipsis shape (shared)
                        dk = dict(d)
                        exk, eBk = list(ex), list(eB)
                        if mode == 'perleaf' and k > 0:
                            dk = {c: (5 - v if (k + ord(c)) % 2 else v) for c, v in d.items()}
                        if mode == 'shared' and k > 0 and '...' in r and '...' in o and len(ex) < 2:
                            exk = [3] + exk if len(eBk) <= len(exk) else exk
                        eo = exk if '...' in r else []
                        leaves.append(
                            {
                                'shB': operand_shape(l, dk, eBk),
                                'shx': operand_shape(r, dk, exk),
                                'shy': operand_shape(o, dk, eo),
                            }
                        )
                    if any(len(lf['shB']) < 2 for lf in leaves):
                        continue
                    cases.append({'kind': 'values', 'subs': s, 'mode': mode, 'container': cont, 'leaves': leaves})
        self.stats['accepted_strings_in_scope'] = len(acc)
        self.stats['accepted_strings_einsum_rejects(skipped for values)'] = skipped
        return cases

    # ------------------------------------------------------------------------------------------
    # leaf ranks 1-4 (an ellipsis standing for 0-3 axes), sizes shared between distinct axes,
    # default-subscript constructor path

    FOCUS = [DEFAULT_SUBS, 'ji...,j...->i...', 'kij...,kj...->ki...', '...ij,...j->...i', 'ij,...j->...i',
             'ij,j...->i...', 'i...j,j...->i...']
    PROFILES = [
        ('all2', {'i': 2, 'j': 2, 'k': 2}, [2, 2, 2]),
        ('all3', {'i': 3, 'j': 3, 'k': 3}, [3, 3, 3]),
        ('mixA', {'i': 2, 'j': 3, 'k': 2}, [3, 2, 3]),   # leading ellipsis axis = size of j
        ('mixB', {'i': 3, 'j': 2, 'k': 3}, [2, 3, 2]),
    ]
    RANK_MODES = [('bare', 'shared', 1), ('bare', 'perleaf', 1), ('list', 'shared', 2), ('dict', 'perleaf', 2)]

    def rank_case(self, s, rank, prof, neB, mode, default=False):
        """A value case for string s (ellipsis in the leaf's subscript) with a first leaf of the
        given rank; None when the rank is too small for the letters of the leaf."""
        l, r, o = spec_split(s)
        cont, md, nl = mode
        e0 = rank - (len(r) - 1)
        if e0 < 0:
            return None
        leaves = []
        eB = None
        for k in range(nl):
            _, d, ell = self.PROFILES[(prof + (k if md == 'perleaf' else 0)) % len(self.PROFILES)]
            e = e0 if k == 0 else (e0 + 1 if e0 < 3 and rank < 4 else max(e0 - 1, 0))
            ex = ell[3 - e :] if e else []
            if md == 'perleaf' or eB is None:
                # the blocks' ellipsis: the last neB ellipsis dimensions of the leaf (right aligned)
                eB = (ex[len(ex) - min(neB, len(ex)) :] if min(neB, len(ex)) else []) if '...' in l else []
            elif eB and ex[len(ex) - len(eB) :] != eB:
                return None
            leaves.append({'shB': operand_shape(l, d, eB), 'shx': operand_shape(r, d, ex), 'shy': operand_shape(o, d, ex)})
        if any(len(lf['shB']) < 2 for lf in leaves):
            return None
        if md == 'shared' and any(lf['shB'] != leaves[0]['shB'] for lf in leaves):
            return None
        c = {'kind': 'values', 'subs': s, 'mode': md, 'container': cont, 'leaves': leaves, 'cls': 'rank'}
        if default:
            c['default'] = True
        return c

    def rank_cases(self):
        quick = self.tier == 'quick'
        out = []
        # (a) the default string (through the default argument and explicitly), its transpose and a
        #     few named strings: every leaf rank x every size profile x every blocks-ellipsis rank
        n = 0
        for s in self.FOCUS:
            for default in ([True, False] if s == DEFAULT_SUBS else [False]):
                for rank in (1, 2, 3, 4):
                    for prof in range(len(self.PROFILES)):
                        for neB in (0, 1, 2, 3):
                            if neB and ('...' not in spec_split(s)[0] or neB > rank - (len(spec_split(s)[1]) - 1)):
                                continue
                            n += 1
                            modes = self.RANK_MODES if not quick else [self.RANK_MODES[n % len(self.RANK_MODES)]]
                            if quick and s != DEFAULT_SUBS and neB == 3:
                                continue
                            for mode in modes:
                                c = self.rank_case(s, rank, prof, neB, mode, default)
                                if c is None and mode[2] > 1:
                                    c = self.rank_case(s, rank, prof, neB, self.RANK_MODES[0], default)
                                if c is not None:
                                    out.append(c)
        # (b) every accepted string whose leaf subscript has an ellipsis: ranks, profiles and
        #     blocks-ellipsis ranks rotate with the index of the string (quick: every 4th string)
        acc = [s for s in self.accepted_strings() if einsum_accepts(s) and '...' in spec_split(s)[1]]
        for n, s in enumerate(acc):
            if quick and n % 4 != 1:
                continue
            picks = [n // 4] if quick else [n, n // 3 + 5]
            for q in picks:
                nlet = len(spec_split(s)[1]) - 1
                rank = nlet + (q % (5 - nlet)) if nlet < 4 else nlet
                rank = max(rank, 1)
                c = self.rank_case(s, rank, (q // 4) % 4, (q // 16) % 3, self.RANK_MODES[(q // 2) % len(self.RANK_MODES)])
                if c is None:
                    c = self.rank_case(s, rank, (q // 4) % 4, 0, self.RANK_MODES[(q // 2) % 2])
                if c is not None:
                    out.append(c)
        seen, uniq = set(), []
        for c in out:
            k = lib.case_id(c)
            if k not in seen:
                seen.add(k)
                uniq.append(c)
        return uniq

    # ------------------------------------------------------------------------------------------
    # dtype combinations between blocks and leaves

    DT_SUBS = [(DEFAULT_SUBS, True), (DEFAULT_SUBS, False), ('ikj,kj->ki', False), ('...ij,...j->...i', False)]
    DT_LAYOUTS = [('bare', 'shared', 1), ('bare', 'perleaf', 1), ('list', 'shared', 2), ('dict', 'shared', 2),
                  ('dict', 'perleaf', 2), ('nested', 'perleaf', 3)]
    DT32 = ['int32', 'float32', 'complex64']
    DT64 = ['int64', 'float64', 'complex128']

    def dtype_case(self, sub, layout, bdt0, xdt0, x64):
        s, default = sub
        cont, md, nl = layout
        l, r, o = spec_split(s)
        pool = (self.DT32 + self.DT64) if x64 else self.DT32
        d = {'i': 2, 'j': 3, 'k': 2}
        leaves, xdt, bdt = [], [], []
        for k in range(nl):
            ex = [[2], [], [2, 2]][k] if '...' in r else []
            dk = d if md == 'shared' or k == 0 else {'i': 3, 'j': 2, 'k': 2}
            leaves.append({'shB': operand_shape(l, dk, []), 'shx': operand_shape(r, dk, ex), 'shy': operand_shape(o, dk, ex)})
            # the other leaves (and their blocks) take the next dtypes of the pool: mixed pytrees
            xdt.append(pool[(pool.index(xdt0) + k) % len(pool)])
            if md == 'perleaf' or k == 0:
                bdt.append(pool[(pool.index(bdt0) + 2 * k) % len(pool)])
        inexact = lambda dts: any(dt_kind(t) != 'i' for t in dts)
        denB = FINE if any(dt_wide(t) for t in bdt) else 2 if inexact(bdt) else 1
        denx = 2 if inexact(xdt) else 1
        if denB != FINE and any(dt_wide(t) for t in xdt):
            denx = FINE
        c = {'kind': 'values', 'subs': s, 'mode': md, 'container': cont, 'leaves': leaves, 'cls': 'dtype',
             'bdt': bdt, 'xdt': xdt, 'denB': denB, 'denx': denx, 'deny': 2 if inexact(bdt + xdt) else 1}
        if default:
            c['default'] = True
        if x64:
            c['x64'] = True
        return c

    def dtype_cases(self):
        quick = self.tier == 'quick'
        out = []
        pairs32 = [(b, x, False) for b in self.DT32 for x in self.DT32]
        pairs64 = [(b, x, True) for b in self.DT32 + self.DT64 for x in self.DT32 + self.DT64
                   if (b in self.DT64 or x in self.DT64) and not (b in self.DT64 and x in self.DT64 and b != x)]
        for pi, (b, x, x64) in enumerate(pairs32 + pairs64):
            for li, layout in enumerate(self.DT_LAYOUTS):
                subs = [self.DT_SUBS[(pi + li) % len(self.DT_SUBS)]] if quick else self.DT_SUBS
                if quick and x64 and (pi + li) % 2:
                    continue
                for sub in subs:
                    out.append(self.dtype_case(sub, layout, b, x, x64))
        return out

    # ------------------------------------------------------------------------------------------
    # array library of the blocks and of the leaves x every branch of mv x execution mode

    KIND_SUBS = [(DEFAULT_SUBS, True), ('ikj,kj->ki', False), ('...ij,...j->...i', False), ('ji...,j...->i...', False),
                 (DEFAULT_SUBS, False), ('kij...,kj...->ki...', False)]
    # (container, mode, number of leaves): the three branches of mv - a single leaf; a container (of one
    # leaf or more, flat or nested) with one shared block array; a container with one block array per leaf
    KIND_LAYOUTS = [('bare', 'shared', 1), ('bare', 'perleaf', 1),
                    ('list1', 'shared', 1), ('dict1', 'shared', 1), ('list', 'shared', 2), ('tuple', 'shared', 2),
                    ('dict', 'shared', 2), ('nested', 'shared', 3), ('deep', 'shared', 3),
                    ('list1', 'perleaf', 1), ('dict1', 'perleaf', 1), ('list', 'perleaf', 2), ('tuple', 'perleaf', 2),
                    ('dict', 'perleaf', 2), ('nested', 'perleaf', 3), ('deep', 'perleaf', 3)]
    EXECS = [None, 'jit', 'jitarg']

    def kind_case(self, sub, layout, bkind, xkind, how=None, asm=False):
        s, default = sub
        cont, md, nl = layout
        l, r, o = spec_split(s)
        d = {'i': 2, 'j': 3, 'k': 2}
        leaves = []
        for k in range(nl):
            ex = [[2], [], [2, 2]][k] if '...' in r else []
            dk = d if md == 'shared' or k == 0 else [{'i': 3, 'j': 2, 'k': 2}, {'i': 2, 'j': 2, 'k': 3}][k - 1]
            leaves.append({'shB': operand_shape(l, dk, []), 'shx': operand_shape(r, dk, ex), 'shy': operand_shape(o, dk, ex)})
        c = {'kind': 'values', 'subs': s, 'mode': md, 'container': cont, 'leaves': leaves, 'cls': 'kind',
             'bkind': bkind, 'xkind': xkind}
        if how:
            c['exec'] = how
        if asm:
            c['asm'] = True
        if default:
            c['default'] = True
        return c

    def kind_cases(self):
        """Every layout x library of the blocks x library of the leaves ('mixed' where there are several
        block arrays / leaves); the string, the execution mode and as_matrix rotate (thorough: all)."""
        quick = self.tier == 'quick'
        out = []
        n = 0
        for li, layout in enumerate(self.KIND_LAYOUTS):
            cont, md, nl = layout
            bkinds = KINDS + (['mixed'] if md == 'perleaf' and nl > 1 else [])
            xkinds = KINDS + (['mixed'] if nl > 1 else [])
            for bkind in bkinds:
                for xkind in xkinds:
                    n += 1
                    if quick:
                        combos = [(self.KIND_SUBS[n % len(self.KIND_SUBS)], self.EXECS[(n // 2) % 3], n % 2 == 0),
                                  (self.KIND_SUBS[(n + 3) % len(self.KIND_SUBS)], None, n % 2 == 1)]
                    else:
                        combos = [(sub, how, True) for sub in self.KIND_SUBS for how in self.EXECS]
                    for sub, how, asm in combos:
                        out.append(self.kind_case(sub, layout, bkind, xkind, how, asm))
        return out

    def empty_cases(self):
        """Input pytrees without leaves: `each leaf` is vacuous, the operator and its transpose map the
        pytree to itself; shared block array of either library, or no block array.  (No as_matrix here:
        core.py's generic as_matrix has no dtype for a 0 x 0 matrix - not dense.py's concern.)"""
        out = []
        for cont in ('dict0', 'list0', 'nested0'):
            for s in (DEFAULT_SUBS, 'ikj,kj->ki'):
                l, _, _ = spec_split(s)
                for mode, bkind in (('shared', 'jax'), ('shared', 'numpy'), ('perleaf', 'jax')):
                    c = {'kind': 'values', 'subs': s, 'mode': mode, 'container': cont, 'leaves': [], 'cls': 'empty',
                         'bkind': bkind, 'xkind': 'jax',
                         'shB': operand_shape(l, {'i': 2, 'j': 3, 'k': 2}, [])}
                    out.append(c)
        return out

    @staticmethod
    def rotate_kinds(cases):
        """The older case classes take the libraries of their blocks and leaves in rotation (no new
        einsum compilation: jnp.einsum receives arrays of the same shapes and dtypes)."""
        table = [('jax', 'jax'), ('numpy', 'jax'), ('jax', 'numpy'), ('numpy', 'numpy'), ('mixed', 'mixed')]
        for n, c in enumerate(cases):
            if 'bkind' in c:
                continue
            b, x = table[(n + zlib.crc32(c['subs'].encode())) % len(table)]
            if b != 'jax':
                c['bkind'] = b
            if x != 'jax':
                c['xkind'] = x
        return cases

    def cases(self):
        cases = [{'kind': 'strings', 'subs': b} for b in self.string_batches()]
        for s in MALFORMED:
            cases.append({'kind': 'string1', 'subs': s, 'via': 'static'})
            cases.append({'kind': 'string1', 'subs': s, 'via': 'ctor', 'ranks': [2]})
        for ranks in ([1], [0], [2, 1], [3, 2], [1, 1], [3]):
            for s in ('ij,j->i', 'ij...,j...->i...', 'ij,j', 'i j,j->i'):
                cases.append({'kind': 'string1', 'subs': s, 'via': 'ctor', 'ranks': ranks})
        cases += self.rotate_kinds(self.value_cases())
        cases += self.rotate_kinds(self.rank_cases())
        cases += self.rotate_kinds(self.dtype_cases())
        cases += self.kind_cases()
        cases += self.empty_cases()
        self.stats['strings_compared'] = sum(len(c['subs']) for c in cases if c['kind'] == 'strings')
        kinds = {}
        for c in cases:
            if c['kind'] == 'values':
                k = f'blocks={c.get("bkind", "jax")} leaves={c.get("xkind", "jax")} exec={c.get("exec", "eager")}'
                kinds[k] = kinds.get(k, 0) + 1
        self.stats['value_cases_by_array_library'] = kinds
        self.stats['value_cases_with_as_matrix'] = sum(1 for c in cases if c.get('asm'))
        self.exhaustive = True
        return cases

    def rule(self):
        return (
            "strings: every 'l,r->o' with l of <=3 tokens and r, o of <=2 tokens (quick; plus every 31st string of "
            'the rest) / r, o of <=3 tokens (thorough, complete: 74^3 = 405224 strings) over letters {i,j,k} and at '
            'most one ellipsis token per operand at any position, in batches; plus a malformed stream (commas, '
            'arrows, spaces, stray dots, non-letters) through the static method and through the constructor (block '
            'ranks). values: every string of the full scope that the specification accepts and jnp.einsum accepts, '
            'with letter dimensions over {2,3} and ellipsis shapes (), (2), (3,2) for blocks/leaf (1-2 deterministic picks '
            'per string; quick: every 3rd string, thorough: all), as bare leaf / list / dict / nested pytrees, shared block '
            'array or one block array per leaf. ranks: the default string (through the default constructor argument and '
            'explicitly), its transpose and 5 named strings with every leaf rank 1-4 (the ellipsis stands for 0-3 axes) x '
            'size profiles all-2 / all-3 / two mixed ones in which an ellipsis axis has the size of the contracted '
            'letter x blocks carrying 0-3 of the ellipsis axes, plus every accepted string with an ellipsis in the '
            "leaf's subscript (quick: every 4th) with rank, profile and blocks-ellipsis rank rotating; single leaf, "
            'list with leaves of two ranks (shared block), dict (one block per leaf). dtypes: blocks x leaves over '
            '{int32, float32, complex64}^2 and, under jax_enable_x64, the pairs with an int64/float64/complex128 side, x 6 '
            'layouts (single leaf or list/dict/nested pytree with mixed leaf dtypes, shared block or one block per leaf '
            'with mixed block dtypes) x 4 strings (quick: one per combination, rotating); entries are half-integers '
            '(float/complex dtypes, imaginary parts included) or integers + {1,2,3}*2^-31 (64-bit dtypes), compared '
            'exactly. array kinds: 16 layouts covering the three branches of mv (single array; container of 1, 2 or 3 '
            'leaves - list / tuple / dict / nested / deeper - with one shared block array; the same containers with one '
            'block array per leaf) x blocks as jax.Array / numpy.ndarray / mixed x leaves as jax.Array / numpy.ndarray / '
            'mixed (complete product), over 6 strings, execution eager / jax.jit with the operator closed over / jax.jit '
            'with the operator as argument, op(x) next to op.mv(x), and op.as_matrix() / op.T.as_matrix() against the '
            'matrices built column by column (quick: 2 rotating picks per combination, thorough: all); the value, rank and '
            'dtype classes above also take the libraries of their blocks and leaves in rotation (5 combinations). '
            'empty: input pytrees without leaves ({}, [], nested) with a shared jax / NumPy block array or no block '
            'array. Every exception raised by furax on these legal cases (constructor, mv, in/out_structure, .T, as_matrix) '
            'is an oracle failure with the case as replay. '
            'Non-trivial: batches containing an accepted string, malformed strings, all value cases.'
        )

    def distribution(self, cases):
        d = {}
        for c in cases:
            k = c['kind'] + (':' + c.get('cls', 'subs') + ':' + c['mode'] + '/' + c['container'] if c['kind'] == 'values' else '')
            d[k] = d.get(k, 0) + 1
        return d

    def nontrivial(self, case, obs):
        if case['kind'] == 'strings':
            return any(isinstance(o, str) for o in obs)
        return True

    # ------------------------------------------------------------------------------------------
    def run_impl(self, case):
        if case['kind'] == 'strings':
            return [real_transposed(s) for s in case['subs']]
        if case['kind'] == 'string1':
            if case['via'] == 'static':
                return real_transposed(case['subs'])
            im = impl()
            jnp, jax = im['jnp'], im['jax']
            blocks = [jnp.zeros((2,) * r, jnp.float32) for r in case['ranks']]
            blocks = blocks[0] if len(blocks) == 1 else blocks
            try:
                op = im['D'](blocks, jax.ShapeDtypeStruct((2,), jnp.float32), case['subs'])
                return op.subscripts
            except Exception as e:
                return {'err': type(e).__name__}
        # values
        if case.get('x64'):
            with impl()['jax'].enable_x64(True):
                return self.run_values(case)
        return self.run_values(case)

    def run_values(self, case):
        """Every call into furax is a labelled step; an exception of a step is recorded in the
        observation (`error`) and reported by the oracle as a violation: the cases are legal
        constructions on strings with one contracted and one free block axis."""
        im = impl()
        np = im['np']
        obs = {}
        bdt, xdt, denB, denx, deny = case_dtypes(case)
        xk, how = case.get('xkind'), case.get('exec')
        step = 'constructor'
        try:
            op, Bs, Bex = build_op(case)
            obs['subs'] = op.subscripts
            xs = leaf_nums(case, 'x')
            ys = leaf_nums(case, 'y')
            step = 'op.mv(x)' + (f' [{how}]' if how else '')
            obs['fwd'], obs['fwd_dt'] = apply_flat(op, xs, denx, xk, how)
            if how:
                # the same application through the other entry points: op(x) eagerly
                step = 'op(x)'
                obs['fwd_call'], _ = apply_flat(op, xs, denx, xk, 'call')
            step = 'op.in_structure()'
            obs['in'] = struct_obs(op.in_structure())
            step = 'op.out_structure()'
            obs['out'] = struct_obs(op.out_structure())
        except AssertionError:
            raise
        except Exception as e:
            obs['error'] = {'step': step, 'type': type(e).__name__, 'msg': (str(e).splitlines() or [''])[0][:200]}
            return obs
        # reference for the first clause of the property: einsum(subscripts, blocks, leaf) per leaf,
        # NumPy in float64/complex128 on the exact values, in the dtype JAX's promotion gives
        ref, exp_dt = [], []
        shared = case['mode'] != 'perleaf'
        for n, lf in enumerate(case['leaves']):
            B = Bex[0 if shared else n]
            x = exact_np(xs[n][0], xs[n][1], denx, lf['shx'], xdt[n])[0]
            y = ref_einsum(case['subs'], B, x)
            dt = expected_out_dtype(bdt[0 if shared else n], xdt[n])
            exp_dt.append(dt)
            if dt_kind(dt) == 'c':
                y = y.astype(np.complex128)
            ref.append([list(y.shape), numlist(y)])
        obs['ref_fwd'] = ref
        obs['exp_dt'] = exp_dt
        try:
            t = op.T
        except Exception as e:
            obs['T'] = {'err': type(e).__name__}
            return obs
        try:
            step = 'op.T.subscripts'
            obs['T'] = t.subscripts
            step = 'op.T.in_structure()'
            obs['T_in'] = struct_obs(t.in_structure())
            step = 'op.T.out_structure()'
            obs['T_out'] = struct_obs(t.out_structure())
            step = 'op.T.mv(y)' + (f' [{how}]' if how else '')
            obs['bwd'], obs['bwd_dt'] = apply_flat(t, ys, deny, xk, how)
            # dense matrices column by column (quick tier: for inputs and outputs of at most 32 entries;
            # the bilinear identity <op x, y> = <x, op.T y> is checked by the oracle for every case)
            nin = sum(prod(sh) for sh, _ in obs['in']['leaves'])
            nout = sum(prod(sh) for sh, _ in obs['out']['leaves'])
            if self.tier != 'quick' or max(nin, nout) <= 32 or case.get('dense'):
                step = 'op.mv(e_k) (matrix of op column by column)'
                obs['M'] = dense_matrix(op, xk)
                step = 'op.T.mv(e_k) (matrix of op.T column by column)'
                obs['MT'] = dense_matrix(t, xk)
            if case.get('asm'):
                # as_matrix runs mv on traced unit vectors (the blocks stay what they were given as)
                step = 'op.as_matrix()'
                obs['AM'] = matrix_rows(op.as_matrix())
                step = 'op.T.as_matrix()'
                obs['AMT'] = matrix_rows(t.as_matrix())
                if 'M' not in obs:
                    obs['M'] = dense_matrix(op, xk)
                    obs['MT'] = dense_matrix(t, xk)
            step = 'op.T.T'
            tt = t.T
            obs['TT'] = tt.subscripts
            step = 'op.T.T.mv(x)'
            obs['TT_fwd'], _ = apply_flat(tt, xs, denx, xk, how)
            obs['same_blocks'] = bool(t.blocks is op.blocks) or all(
                a is b for a, b in zip(flat_leaves(t.blocks), flat_leaves(op.blocks))
            )
        except AssertionError:
            raise
        except Exception as e:
            obs['error'] = {'step': step, 'type': type(e).__name__, 'msg': (str(e).splitlines() or [''])[0][:200]}
        return obs

    def model_term(self, case):
        if case['kind'] == 'strings':
            return 'map transposed_s ' + clist(case['subs'], cstr)
        if case['kind'] == 'string1':
            try:
                case['subs'].encode('ascii')
            except UnicodeEncodeError:
                return None  # beyond the 8-bit characters of the model (compared by the oracle only)
            if any(ord(ch) < 32 for ch in case['subs']):
                return None
            if case['via'] == 'static':
                return 'transposed_s ' + cstr(case['subs'])
            return f'ctor_s {cnatlist(case["ranks"])} {cstr(case["subs"])}'
        leaves = case['leaves']
        bn, xn, yn = block_nums(case), leaf_nums(case, 'x'), leaf_nums(case, 'y')
        ys = [carr(lf['shy'], yn[n][0]) for n, lf in enumerate(leaves)]
        terms = []
        for bp, xp in self.parts(case):
            # real / imaginary parts of the blocks and of the leaves (zero where an array is real)
            Bs = [carr(block_shape(case, n), b[bp] if b[bp] is not None else [0] * len(b[0])) for n, b in enumerate(bn)]
            xs = [carr(lf['shx'], xn[n][xp] if xn[n][xp] is not None else [0] * len(xn[n][0])) for n, lf in enumerate(leaves)]
            bl = f'(PerLeaf {clist(Bs)})' if case['mode'] == 'perleaf' else f'(Shared {Bs[0]})'
            terms.append(f'observe_op {cstr(case["subs"])} {bl} {clist(xs)} {clist(ys)}')
        if 'bdt' not in case:
            return terms[0]
        return clist(terms)

    @staticmethod
    def parts(case):
        """(block part, leaf part) pairs the model evaluates: 0 = real, 1 = imaginary numerators."""
        bdt, xdt, _, _, _ = case_dtypes(case)
        bps = [0, 1] if any(dt_kind(d) == 'c' for d in bdt) else [0]
        xps = [0, 1] if any(dt_kind(d) == 'c' for d in xdt) else [0]
        return [(bp, xp) for bp in bps for xp in xps]

    def decode(self, case, v):
        if case['kind'] == 'strings':
            return [dec_res(x) for x in v]
        if case['kind'] == 'string1':
            return dec_res(v)
        if 'bdt' not in case:
            if v is None:
                return {'model': 'subscripts do not parse'}
            fwd, res, bwd = v['a'][0]
            return {'fwd': dec_arrs(fwd), 'T': dec_res(res), 'bwd': dec_arrs(bwd)}
        # dtype cases: one observation per (block part, leaf part); einsum is bilinear:
        #   Re = B_re x_re - B_im x_im,  Im = B_re x_im + B_im x_re;  the inputs of op.T are real
        if any(x is None for x in v):
            return {'model': 'subscripts do not parse'}
        got = {pp: x['a'][0] for pp, x in zip(self.parts(case), v)}

        def comb(k, plus, minus):
            terms = [(1, dec_arrs(got[pp][k])) for pp in plus if pp in got] + [(-1, dec_arrs(got[pp][k])) for pp in minus if pp in got]
            if any(a is None for _, a in terms):
                return None
            if not terms:
                base = dec_arrs(got[(0, 0)][k])
                return None if base is None else [[sh, [0] * len(d)] for sh, d in base]
            out = [[sh, [0] * len(d)] for sh, d in terms[0][1]]
            for sg, arrs in terms:
                for o, (_, d) in zip(out, arrs):
                    o[1] = [a + sg * b for a, b in zip(o[1], d)]
            return out

        return {
            'T': dec_res(got[(0, 0)][1]),
            'fwd_re': comb(0, [(0, 0)], [(1, 1)]),
            'fwd_im': comb(0, [(0, 1), (1, 0)], []),
            'bwd_re': comb(2, [(0, 0)], []),
            'bwd_im': comb(2, [(1, 0)], []),
        }

    def comparable(self, case, obs):
        if case['kind'] != 'values' or not isinstance(obs, dict) or 'fwd' not in obs:
            return obs
        if 'bdt' not in case:
            return {'fwd': obs.get('fwd'), 'T': obs.get('T'), 'bwd': obs.get('bwd')}
        _, _, denB, denx, deny = case_dtypes(case)

        def split(arrs, scale, part):
            if arrs is None:
                return None
            out = []
            for sh, d in arrs:
                vals = [(e[part] if isinstance(e, list) else (e if part == 0 else 0)) for e in d]
                out.append([sh, [lib.canon(Fraction(str(x)) * scale) for x in vals]])
            return out

        return {
            'T': obs.get('T'),
            'fwd_re': split(obs.get('fwd'), denB * denx, 0),
            'fwd_im': split(obs.get('fwd'), denB * denx, 1),
            'bwd_re': split(obs.get('bwd'), denB * deny, 0),
            'bwd_im': split(obs.get('bwd'), denB * deny, 1),
        }

    # ------------------------------------------------------------------------------------------
    def check_string(self, s, out):
        """The property on one string and the code's outcome for it."""
        exp = spec_expected(s)
        if isinstance(out, dict):
            if out.get('err') != 'ValueError':
                return f'{s!r}: raised {out.get("err")}, not ValueError'
            if exp is not None:
                return f'{s!r}: rejected although it has one contracted and one free block axis (expected {exp!r})'
            return None
        if spec_split(s) is None:
            # not a well-formed subscript string (stray dots...): nothing is promised beyond "no wrong transpose
            # of a string einsum accepts"; einsum rejects all of these
            if s.count(',') != 1 or s.split(',')[1].count('->') != 1:
                return f'{s!r}: malformed separators but accepted as {out!r}'
            return None
        if exp is None:
            return f'{s!r}: accepted as {out!r} although no rewriting exists'
        msg = numeric_adjoint(s, out)
        if msg:
            return msg
        if out != exp:
            return f'{s!r}: rewritten to {out!r}, expected {exp!r}'
        return None

    def oracle(self, case, obs):
        if case['kind'] == 'strings':
            for s, out in zip(case['subs'], obs):
                msg = self.check_string(s, out)
                if msg:
                    return msg
            return None
        if case['kind'] == 'string1':
            s = case['subs']
            if case['via'] == 'static':
                return self.check_string(s, obs)
            s2 = s.replace(' ', '')
            bad = any(r < 2 for r in case['ranks']) or s2.count(',') != 1 or s2.split(',')[1].count('->') != 1
            if bad and obs != {'err': 'ValueError'}:
                return f'constructor accepted {s!r} with block ranks {case["ranks"]}: {obs!r}'
            if not bad and obs != s2:
                return f'constructor stored {obs!r} for {s!r}'
            return None
        # values
        if 'error' in obs:
            e = obs['error']
            if e['type'] == 'StructureMismatch':
                return f'{e["step"]} on a legal operator ({self.describe(case)}): {e["msg"]}'
            return (f'{e["step"]} raised {e["type"]} on a legal operator ({self.describe(case)}): the operator must apply '
                    f'einsum(subscripts, blocks, leaf) to each leaf and its transpose must be the adjoint [{e["msg"]}]')
        if 'fwd' not in obs:
            return f'einsum/constructor failed on an accepted string: {obs}'
        if obs.get('subs') != case['subs'].replace(' ', ''):
            return f'the constructor stored the subscripts {obs.get("subs")!r}, expected {case["subs"]!r}'
        if obs['fwd'] != obs.get('ref_fwd'):
            return f'mv differs from einsum(subscripts, blocks, leaf) per leaf: {obs["fwd"]} vs {obs.get("ref_fwd")}'
        if 'fwd_call' in obs and obs['fwd_call'] != obs['fwd']:
            return f'op(x) executed eagerly differs from op.mv(x) [{case.get("exec")}]: {obs["fwd_call"]} vs {obs["fwd"]}'
        if obs.get('fwd_dt') != obs.get('exp_dt'):
            return f'mv returns dtypes {obs.get("fwd_dt")}, einsum(subscripts, blocks, leaf) has {obs.get("exp_dt")}'
        if [d for _, d in obs['out']['leaves']] != obs.get('exp_dt'):
            return f'out_structure has dtypes {obs["out"]["leaves"]}, einsum(subscripts, blocks, leaf) has {obs.get("exp_dt")}'
        if isinstance(obs.get('T'), dict):
            return f'transpose raised {obs["T"]} on a string with one contracted and one free block axis'
        # blocks of a wider dtype than the leaf promote the output, and the transpose maps it to
        # the promoted dtype: shapes and tree are compared there, dtypes only for equal dtypes
        nodt = (lambda st: {'tree': st['tree'], 'leaves': [sh for sh, _ in st['leaves']]}) if 'bdt' in case else (lambda st: st)
        if obs['T_in'] != obs['out'] or nodt(obs['T_out']) != nodt(obs['in']):
            return f'structures of the transpose are not swapped: in {obs["in"]} out {obs["out"]} T_in {obs["T_in"]} T_out {obs["T_out"]}'
        if 'M' in obs:
            M, MT = obs['M'], obs['MT']
            Mt = [list(r) for r in zip(*M)] if M else []
            if MT != Mt:
                return f'matrix of op.T {MT} is not the transpose of the matrix of op {M} (op.T.subscripts = {obs["T"]!r})'
        if 'AM' in obs:
            if obs['AM'] != obs['M']:
                return f'op.as_matrix() {obs["AM"]} differs from the matrix of op.mv column by column {obs["M"]}'
            if obs['AMT'] != obs['MT']:
                return f'op.T.as_matrix() {obs["AMT"]} differs from the matrix of op.T.mv column by column {obs["MT"]}'
        _, _, _, denx, deny = case_dtypes(case)
        lhs = pairing(obs['fwd'], leaf_nums(case, 'y'), deny)
        rhs = pairing(obs['bwd'], leaf_nums(case, 'x'), denx)
        if lhs != rhs:
            return f'op.T is not the transpose of op: <op x, y> = {lhs} but <x, op.T y> = {rhs} (op.T.subscripts = {obs["T"]!r})'
        if obs['TT_fwd'] != obs['fwd']:
            return f'op.T.T does not act as op: {obs["TT_fwd"]} vs {obs["fwd"]}'
        if obs['TT'] != case['subs'].replace(' ', ''):
            return f'op.T.T has subscripts {obs["TT"]!r}'
        if not obs.get('same_blocks'):
            return 'the transpose does not reuse the block data'
        return None

    @staticmethod
    def describe(case):
        return (f'subscripts {case["subs"]!r}, {case["mode"]} blocks [{case.get("bkind", "jax")}], input {case["container"]} '
                f'of {len(case["leaves"])} leaves [{case.get("xkind", "jax")}]')

    def finding_key(self, case, obs):
        """Input class of a failure: D1 = a repeated letter in the blocks' subscript; an input pytree
        without leaves."""
        if case['kind'] == 'values' and not case['leaves']:
            return 'dense-mv-input-pytree-without-leaves'
        s = None
        if case['kind'] == 'strings':
            s = next((x for x, o in zip(case['subs'], obs) if self.check_string(x, o)), None)
        elif isinstance(case.get('subs'), str):
            s = case['subs']
        p = spec_split(s.replace(' ', '')) if s else None
        if p and len(set(p[0])) < len(p[0]):
            return 'dense-transpose-repeated-letter-in-blocks-subscript'
        return None

    def shrink(self, case, failing):
        if case['kind'] == 'strings':
            for s in case['subs']:
                if self.check_string(s, real_transposed(s)):
                    return {'kind': 'strings', 'subs': [s]}
        return case

    # ------------------------------------------------------------------------------------------
    def extra(self):
        """Boundary of the property (reported, not a violation): when the ellipsis dimensions of the
        blocks are broadcast against SMALLER ellipsis dimensions of the leaf, no rewriting of the
        subscripts can be the adjoint (it would have to sum over the broadcast axes)."""
        im = impl()
        jnp, jax = im['jnp'], im['jax']
        rows = []
        for shB, shx in (([2, 3, 5], [3, 1]), ([2, 3, 5], [3]), ([2, 3, 2, 2], [3, 2])):
            B = jnp.ones(tuple(shB), jnp.float32)
            op = im['D'](B, jax.ShapeDtypeStruct(tuple(shx), jnp.float32), 'ij...,j...->i...')
            t = op.T
            rows.append(
                {
                    'blocks': shB,
                    'leaf': shx,
                    'out': list(op.out_structure().shape),
                    'T_out': list(t.out_structure().shape),
                    'T_out_equals_in': list(t.out_structure().shape) == shx,
                }
            )
        # Python nested lists / scalars are not array leaves for this operator (recorded, not judged): a
        # list is a pytree container whose scalar leaves have no .shape (constructor) or rank 0 (einsum)
        f32 = jnp.float32

        def outcome(f):
            try:
                f()
                return 'accepted'
            except Exception as e:
                return type(e).__name__

        B = jnp.ones((2, 3), f32)
        pylists = {
            'blocks=[[1.,2.,3.],[4.,5.,6.]] (constructor)': outcome(
                lambda: im['D']([[1.0, 2.0, 3.0], [4.0, 5.0, 6.0]], jax.ShapeDtypeStruct((3,), f32), 'ij,j->i')),
            'x=[1.,2.,3.] (mv, in_structure a (3,) array)': outcome(
                lambda: im['D'](B, jax.ShapeDtypeStruct((3,), f32), 'ij,j->i').mv([1.0, 2.0, 3.0])),
        }
        return {
            'python_lists_as_blocks_or_leaves': pylists,
            'boundary_blocks_ellipsis_broadcast_over_leaf': rows,
            'note': 'outside wf_shapes of Props/C14.v (leaf ellipsis dimensions must contain the blocks\'); '
            'reported to the lead as a candidate finding, not alarmed on',
        }


def pairing(arrs, nums, den):
    """Bilinear pairing sum_k a_k b_k (no conjugation) of an observed pytree [[shape, entries]] with
    the exact data (numerators / den), in exact rational arithmetic: (re, im) as strings."""
    re_ = im_ = Fraction(0)
    for (_, d), (nr, ni) in zip(arrs, nums):
        ni = ni or [0] * len(nr)
        if len(d) != len(nr):
            return 'sizes differ'
        for e, br, bi in zip(d, nr, ni):
            ar, ai = (e if isinstance(e, list) else (e, 0))
            ar, ai, br, bi = Fraction(str(ar)), Fraction(str(ai)), Fraction(br, den), Fraction(bi, den)
            re_ += ar * br - ai * bi
            im_ += ar * bi + ai * br
    return [str(re_), str(im_)]


def ref_einsum(s: str, B, x):
    """Reference einsum for 'l,r->o' written independently of JAX: the ellipsis of each operand is
    expanded into right-aligned fresh letters (A, B, ...), ellipsis dimensions that the output does
    not mention are summed (JAX's behaviour; NumPy refuses them), then NumPy evaluates the
    ellipsis-free string."""
    import numpy as np

    l, r, o = spec_split(s)
    eB = B.ndim - (len(l) - 1) if '...' in l else 0
    ex = x.ndim - (len(r) - 1) if '...' in r else 0
    if eB < 0 or ex < 0:
        raise ValueError('rank')
    m = max(eB, ex)
    fresh = [chr(ord('A') + k) for k in range(m)]

    def exp(ts, e):
        out = []
        for t in ts:
            out += fresh[m - e :] if t == '...' else [t]
        return ''.join(out)

    return np.einsum(f'{exp(l, eB)},{exp(r, ex)}->{exp(o, m)}', B, x)




def numeric_adjoint(s: str, out: str):
    """Independent reference (NumPy einsum): <einsum(s,B,x), y> == <x, einsum(out,B,y)> and the
    transposed map sends the output structure back to the input structure."""
    import numpy as np

    if not einsum_accepts(s):
        return None
    l, r, o = spec_split(s)
    rng = np.random.default_rng(zlib.crc32(s.encode()))
    for dims, ell in (({'i': 2, 'j': 3, 'k': 4}, [2]), ({'i': 3, 'j': 2, 'k': 2}, [3, 2])):
        dims = {**{t: 2 for x in (l, r, o) for t in x}, **dims}
        shB, shx = operand_shape(l, dims, ell), operand_shape(r, dims, ell)
        B = rng.integers(-3, 4, size=shB).astype(np.float64)
        x = rng.integers(-3, 4, size=shx).astype(np.float64)
        try:
            y = ref_einsum(s, B, x)
        except Exception:
            return None
        w = rng.integers(-3, 4, size=y.shape).astype(np.float64)
        try:
            xt = ref_einsum(out, B, w)
        except Exception as e:
            return f'{s!r} -> {out!r}: the rewritten string cannot be applied to the output ({type(e).__name__})'
        if xt.shape != x.shape:
            return f'{s!r} -> {out!r}: transposed map returns shape {xt.shape}, the input has {x.shape}'
        if float((y * w).sum()) != float((x * xt).sum()):
            return f'{s!r} -> {out!r}: <Ax,y> = {float((y * w).sum())} but <x,A^T y> = {float((x * xt).sum())} (dims {dims}, ellipsis {ell})'
    return None
