"""C15 - polarimetry operators (HWP, QU rotation and its transpose, linear polariser) realise their
Mueller matrices; R(a)R(b) = R(a+b) and the three transposed variants, R(a) HWP = HWP R(-a),
P HWP = P, factories = explicit products, before and after reduce().

Cases are JSON descriptions.  `run_impl` builds the REAL furax operators (QURotationOperator,
QURotationTransposeOperator, HWPOperator, LinearPolarizerOperator, CompositionOperator, the `create`
factories) and observes `mv`, `reduce()` and `mv` of the reduced operator; `model_term` builds the
corresponding term of Model/Mueller.v over exact rationals, an angle being its doubled unit vector
(cos 2a, sin 2a) in Q^2 (multiples of pi/4: the four axis points; generic angles: Pythagorean pairs,
sent to furax as atan2(S, C)/2 + k*pi).  The oracle is an independent NumPy product of per-position
4x4 Mueller matrices, never the model.

Angle operands are given to furax in every form the code accepts (`ak`): jax arrays, NumPy arrays
(mutable!) and Python floats; distinct rotation objects may hold the SAME angle array (`aid`).  Every
case that reduces or composes is observed for PURITY: the unreduced expression (its value on x and the
angle arrays stored in its operands) is read BEFORE and AFTER `.reduce()`, `.reduce()` is called twice,
the first reduced operator is evaluated again at the end, and the bits of every angle array (caller
owned and stored in the rotation objects) are compared with their state at construction.  The model is
pure, so all evaluations must equal the model's single value.  `seq` cases run several chains and
factories over SHARED rotation objects / angle arrays within one case.

Comparison: Stokes inputs are small integers; the implementation evaluates cos/sin in floating point, so
values are compared within TOL64 = 1e-12 under x64 (TOL32 = 2e-5 in the float32 cases), the bound stated
in each case as `tol`.

DTYPE / MAGNITUDE cases (`dtype-*` keys, fields `dd` = data dtype, operand kinds jax32 / jax64 / np / np32 / py):
every combination of x64 mode, Stokes dtype and angle-operand kind over a ladder of angle magnitudes 1e-6 .. 1e6 rad,
each angle with exactly known (cos 2a, sin 2a) (a = atan(p / 10^k) resp. a Pythagorean / axis angle + t * pi with
t up to 3e5), so the same Coq model term applies; the tolerance is DERIVED: the compute precision (TOL32 if the data,
an angle array or the mode is float32, else TOL64) plus, per rotation operand, KA * max |a| with KA from the precision
the ANGLE is known to (4e-6 float32, 2e-14 float64) - the data dtype does not excuse an angle error.  float64-data
cases use dyadic inputs k + r / 2^30 that float32 cannot hold.

DENSE forms (`dense` = 'eager' | 'jit'): op.as_matrix() as the operator's class resolves it - and, when that is an
override, also the generic AbstractLinearOperator.as_matrix(op) - of the unreduced and of the reduced operator (and of
.T for single operators) are compared entry by entry with the NumPy Mueller matrix laid out as furax flattens pytrees
(component-major: all I, then all Q, ...), on shapes with several elements per component; matrix @ flatten(x) is also
compared with the model's value.

STORED-ANGLE cases (`stored-*` keys, flag `stored`): the same ladder of operand kinds / data dtypes / modes at LARGE
magnitudes (1e2 .. 1e6 rad, thorough 1e0 .. 1e8), but with GRID angles a = k / 2^j (`kj`) that the operand's dtype holds
EXACTLY (|k| < 2^21 when any operand of the case is known to float32 only, else < 2^50) and whose sums / differences over
the operands of a case are exact too, so that the angle stored in the operator - before AND after reduce() - is the
angle of the case and the tolerance carries NO magnitude term: STOL32 = 5e-6 / STOL64 = 1e-13 (the unchanged code
achieves 9e-7 / 2e-15 up to 1e8 rad: cos / sin of a float32 argument of size 1e5 are accurate relative to the stored
argument).  The NumPy reference is evaluated at that stored angle; the model term receives (cos 2a, sin 2a) of the stored
angle as rationals over 2^30 (float32 tolerance) or 2^52 (math.cos / math.sin in float64, rounded: not unit vectors exactly, the model's execution
does not need it).  Single R / R.T (.I, .T.T), the three factories (scalar and array operands, random and linear-ramp
arrays), explicit rotating-plate products and 2-3 operand chains.

MIXED chains (kind `mixed`): one segment of polarimetry operators - R, R.T, R.I, HWP, HWP.I (lazy InverseOperator),
polariser, polariser.T (generic TransposeOperator) - with operators of OTHER rule families on its left and / or right:
PackOperator and its transpose, IndexOperator and its transpose, DiagonalOperator and its lazy inverse, Reshape / Ravel and
their lazy transposes, MoveAxisOperator (the binary rules keyed on TransposeOperator / AbstractLazyInverseOperator /
ReshapeTransposeOperator).  Every operand carries the component shape `sh` of ITS input (`bare`: a plain array, next to
the polariser).  Observed like a chain (value before / after reduce(), reduce() twice, purity); the reference is NumPy
(leaf-wise selection / scatter / scaling / reshaping and the component-wise Mueller actions).  Where the segment is
expressible (R / R.T / R.I / HWP / polariser) the Coq model evaluates and reduces the SEGMENT on the input transported
exactly (integers, dyadic scalings) through the right-hand neighbours by the harness, its values are transported through the
left-hand neighbours, and the polarimetry entries of the reduced operator are compared with the model's reduced segment.
"""
from __future__ import annotations

import functools
import itertools
import json
import math
from fractions import Fraction

import lib
from lib import PropertyCheck, clist

TOL64 = 1e-12
TOL32 = 2e-5
# stored-angle cases (grid angles, exact in the operand dtype, exact sums): no magnitude term
STOL64 = 1e-13
STOL32 = 5e-6
GRID32 = 21  # |k| < 2^21: sums of <= 4 operands stay below 2^24 (float32 significand)
GRID64 = 50  # |k| < 2^50: sums of <= 4 operands stay below 2^53
CSBITS32, CSBITS64 = 30, 52  # (cos 2a, sin 2a) of a grid angle as rationals over 2^30 (float32 tolerance) / 2^52 (float64)
# angle-precision term of the tolerance: an angle a known to eps * |a| gives cos 2a / sin 2a to 2 eps |a|; on Stokes values
# of size <= 7 and with the rounding of a sum of two angles in reduce(): per rotation operand 4e-6 |a| (float32, eps/2 = 6e-8)
# resp. 2e-14 |a| (float64, including the float64 evaluation of a = atan2(S, C) / 2 + k pi by the harness)
KA32 = 4e-6
KA64 = 2e-14
STOKES_N = {'I': 1, 'QU': 2, 'IQU': 3, 'IQUV': 4}
SIDX = {1: [0], 2: [1, 2], 3: [0, 1, 2], 4: [0, 1, 2, 3]}
TAGS = {'R': 0, 'RT': 1, 'RI': 1, 'H': 2, 'P': 3}
ROTS = ('R', 'RT', 'RI')
# operators of other rule families (mixed chains): kind -> class name of the real operator
FOREIGN = {
    'pack': 'PackOperator', 'packT': 'TransposeOperator', 'index': 'IndexOperator', 'indexT': 'TransposeOperator',
    'diag': 'DiagonalOperator', 'diagI': 'DiagonalInverseOperator', 'reshape': 'ReshapeOperator',
    'reshapeT': 'ReshapeTransposeOperator', 'ravel': 'RavelOperator', 'ravelT': 'ReshapeTransposeOperator',
    'moveaxis': 'MoveAxisOperator',
}
LAZY_NAMES = {'HI': 'InverseOperator', 'PT': 'TransposeOperator'}

# doubled unit vectors (cos 2a, sin 2a) as (cn, cd, sn, sd)
AXIS = [(1, 1, 0, 1), (0, 1, 1, 1), (-1, 1, 0, 1), (0, 1, -1, 1)]
PYTH = [
    (3, 5, 4, 5), (4, 5, -3, 5), (-3, 5, 4, 5), (-4, 5, -3, 5), (5, 13, 12, 13), (12, 13, -5, 13),
    (-5, 13, 12, 13), (8, 17, 15, 17), (-15, 17, -8, 17), (7, 25, 24, 25), (24, 25, -7, 25), (20, 29, 21, 29),
]

_cache: dict = {}


def fx():
    if 'mods' not in _cache:
        import jax
        import jax.numpy as jnp
        import numpy as np

        jax.config.update('jax_enable_x64', True)  # before furax (jax_healpy warns otherwise); toggled per case
        from furax._base import axes, core, diagonal, indices, linear, rules  # noqa: F401
        from furax.landscapes import StokesPyTree
        from furax.operators import hwp, polarizers, qu_rotations

        jax.config.update('jax_traceback_filtering', 'off')
        _cache['mods'] = dict(jax=jax, jnp=jnp, np=np, core=core, Stokes=StokesPyTree, hwp=hwp, pol=polarizers, qu=qu_rotations,
                              axes=axes, diagonal=diagonal, indices=indices, linear=linear)
    return _cache['mods']


def set_x64(flag: bool):
    m = fx()
    if bool(m['jax'].config.jax_enable_x64) != bool(flag):
        m['jax'].config.update('jax_enable_x64', bool(flag))


# ----------------------------------------------------------------------------------------------
# angles


def angle_list(arr):
    """The float64 angles of the case (pure Python): a = atan2(S, C) / 2 + turns * pi, flat; grid angles (`kj`):
    a = k / 2^j exactly."""
    if 'kj' in arr:
        return [math.ldexp(float(k), -j) for k, j in arr['kj']]
    turns = arr.get('turns') or [0] * len(arr['cs'])
    return [math.atan2(sn / sd, cn / cd) / 2 + t * math.pi for (cn, cd, sn, sd), t in zip(arr['cs'], turns)]


def angle_floats(arr):
    """The float angles sent to furax, shaped like the array (float64; rounded to the operand dtype in angle_object)."""
    np = fx()['np']
    return np.array(angle_list(arr), dtype=np.float64).reshape(tuple(arr['shape']))


def jangles(arr, x64):
    m = fx()
    return m['jnp'].asarray(angle_floats(arr), dtype=m['jnp'].float64 if x64 else m['jnp'].float32)


EFF32_AK = ('jax32', 'np32')


def eff32(ak, x64):
    """Is the angle known to float32 precision only?  Without x64 every jnp computation is float32 (NumPy float64
    operands and Python floats are rounded when they enter jnp.cos / jnp.sin); with x64 only float32 ARRAYS are."""
    return (not x64) or ak in EFF32_AK


def angle_object(arr, ak, x64):
    """The angle operand handed to furax: 'jax' array of the mode's default float (float64 / float32), 'jax32' /
    'jax64' a jax array of that dtype whatever the DATA dtype, 'np' / 'np32' a fresh writable NumPy float64 / float32
    array, 'py' a Python float (scalar shape only)."""
    m = fx()
    np, jnp = m['np'], m['jnp']
    if ak == 'jax':
        return jangles(arr, x64)
    a = angle_floats(arr)
    if ak == 'jax32':
        return jnp.asarray(a, dtype=jnp.float32)
    if ak == 'jax64':
        return jnp.asarray(a, dtype=jnp.float64 if x64 else jnp.float32)
    if ak == 'np':
        return np.array(a, dtype=np.float64)
    if ak == 'np32':
        return np.array(a, dtype=np.float32)
    if ak == 'py':
        assert a.shape == ()
        return float(a)
    raise ValueError(ak)


def ang_bits(a):
    """dtype, shape and bytes of an angle operand (purity is bit-exact)."""
    np = fx()['np']
    arr = np.asarray(a)
    return [str(arr.dtype), list(arr.shape), arr.tobytes().hex()]


def arr_coq(arr) -> str:
    cs = clist(arr['cs'], lambda t: f'qang ({t[0]})%Z {t[1]}%Z ({t[2]})%Z {t[3]}%Z')
    return f'(mkArr {clist(arr["shape"], lib.cnat)} {cs})'


def op_coq(d) -> str:
    t = d['t']
    if t == 'R':
        return f'(PRot {d["id"]}%N {arr_coq(d["ang"])})'
    if t in ('RT', 'RI'):
        return f'(PRotT {d["id"]}%N {arr_coq(d["ang"])})'
    return '(PHwp _)' if t == 'H' else '(PPol _)'


def x_coq(x, xden=1) -> str:
    """Stokes input of the model: integers, or (dyadic data) the exact rationals x / xden."""
    if xden == 1:
        return '(zstokes ' + clist(x, lambda l: clist(l, lambda v: f'({int(v)})%Z')) + ')'
    leaf = f'(fun z : Z => Q2Qc (Qmake z {int(xden)}%positive))'
    return f'(mk (map (map {leaf}) ' + clist(x, lambda l: clist(l, lambda v: f'({int(v)})%Z')) + '))'


def x_values(case):
    """The Stokes component values of the case as floats (exact: integers over a power of two)."""
    den = case.get('xden', 1)
    return [[v / den for v in l] for l in case['x']]


# ----------------------------------------------------------------------------------------------
# the real code


def data_dtype(case_or_x64, dd=None):
    """dtype of the Stokes components: `dd` = 'f32' / 'f64' when the case says so, else the mode's default."""
    jnp = fx()['jnp']
    if isinstance(case_or_x64, dict):
        dd = case_or_x64.get('dd')
        x64 = case_or_x64.get('x64', True)
    else:
        x64 = case_or_x64
    if not x64 or dd == 'f32':
        return jnp.float32
    return jnp.float64


def structure(stokes, shape, x64, dd=None):
    m = fx()
    return m['Stokes'].class_for(stokes).structure_for(tuple(shape), data_dtype(x64, dd))


def stokes_value(stokes, shape, x, x64, dd=None, bare=False):
    m = fx()
    np, jnp = m['np'], m['jnp']
    dt = data_dtype(x64, dd)
    if bare:  # a plain array (the polariser's output side)
        return jnp.asarray(np.array(x[0], dtype=np.float64).reshape(tuple(shape)), dtype=dt)
    cls = m['Stokes'].class_for(stokes)
    return cls(*[jnp.asarray(np.array(l, dtype=np.float64).reshape(tuple(shape)), dtype=dt) for l in x])


def value_obs(y):
    """[n, [flat component lists]] (n = 0: a bare array), floats."""
    m = fx()
    np = m['np']
    if isinstance(y, m['Stokes']):
        comps = [np.asarray(getattr(y, s.lower()), dtype=np.float64) for s in y.stokes]
        return [len(comps), [[float(v) for v in c.ravel().tolist()] for c in comps]]
    a = np.asarray(y, dtype=np.float64)
    return [0, [[float(v) for v in a.ravel().tolist()]]]


def try_value(f):
    try:
        return value_obs(f())
    except BaseException as e:
        if isinstance(e, (KeyboardInterrupt, SystemExit)):
            raise
        return None


def matrix_obs(f, mode):
    """The dense matrix returned by f() as a list of rows of floats, or None (with the exception's name).
    mode 'jit': called as is (the generic as_matrix compiles one fori_loop per input leaf, 0.3 - 0.7 s);
    mode 'eager': called under jax.disable_jit() - the same Python code of furax, the loop primitive run step by step."""
    m = fx()
    np, jax = m['np'], m['jax']
    try:
        if mode == 'jit':
            a = f()
        else:
            with jax.disable_jit():
                a = f()
        a = np.asarray(a, dtype=np.float64)
        if a.ndim != 2:
            return None, f'ndim {a.ndim}'
        return [[float(v) for v in row] for row in a.tolist()], None
    except BaseException as e:
        if isinstance(e, (KeyboardInterrupt, SystemExit)):
            raise
        return None, type(e).__name__


def pack_matrix(rows):
    """Matrices travel as one JSON string (repr floats round-trip exactly; lib.canon leaves strings alone)."""
    return None if rows is None else json.dumps(rows)


def unpack_matrix(a):
    return json.loads(a) if isinstance(a, str) else a


def dense_times(mat, xvals, like):
    """mat @ flatten(x) (x flattened leaf after leaf, as furax does), computed in float64 by the harness and laid out
    like the value observation `like` of mv(x): the tie of the dense form to the model's value on x."""
    np = fx()['np']
    if mat is None or like is None:
        return None
    a = np.array(mat, dtype=np.float64)
    v = np.array([t for comp in xvals for t in comp], dtype=np.float64)
    if a.ndim != 2 or a.shape[1] != v.size:
        return None
    y = a @ v
    ncomp = len(like[1])
    if ncomp == 0 or y.size % ncomp:
        return None
    return [like[0], [[float(t) for t in part.tolist()] for part in np.split(y, ncomp)]]


def dense_obs(op, mode, xvals, like, prefix=''):
    """op.as_matrix() as the class resolves it, and - when the resolved method is an override - also the generic
    AbstractLinearOperator.as_matrix(op) that probes mv with every basis vector (when it is not an override the two are
    the same function and the generic one is not run twice)."""
    m = fx()
    core = m['core']
    out = {}
    mat, err = matrix_obs(op.as_matrix, mode)
    out[prefix + 'dense'] = pack_matrix(mat)
    if err:
        out[prefix + 'dense_error'] = err
    generic = core.AbstractLinearOperator.as_matrix
    if getattr(type(op), 'as_matrix', None) is not generic:
        gmat, gerr = matrix_obs(lambda: generic(op), mode)
        out[prefix + 'gdense'] = pack_matrix(gmat)
        if gerr:
            out[prefix + 'gdense_error'] = gerr
    out[prefix + 'dense_x'] = dense_times(mat, xvals, like)
    return out


class World:
    """The live objects of one case: caller-owned angle operands by `aid`, QURotationOperator objects by
    `id`, labels of objects for the skeletons, and the bit snapshots taken when each object was made."""

    def __init__(self, case):
        self.case = case
        self.x64 = case.get('x64', True)
        self.st = structure(case['stokes'], case['shape'], self.x64, case.get('dd'))
        self.arrs: dict = {}
        self.objs: dict = {}
        self.ids: dict = {}
        self.watch: dict = {}  # label -> (getter, bits at construction)

    def snapshot(self, label, getter):
        if label not in self.watch:
            self.watch[label] = (getter, ang_bits(getter()))

    def array(self, aid, ang, ak):
        if aid not in self.arrs:
            self.arrs[aid] = angle_object(ang, ak, self.x64)
            self.snapshot(f'array{aid}', lambda: self.arrs[aid])
        return self.arrs[aid]

    def structure_of(self, d, shape=None):
        """Input structure of one operand: the case's (chains) or, in mixed chains, a Stokes pytree / a plain array
        (`bare`) of the component shape `sh` the operand description carries."""
        if 'sh' not in d:
            return self.st
        sh = tuple(d['sh'] if shape is None else shape)
        if d.get('bare'):
            return fx()['jax'].ShapeDtypeStruct(sh, data_dtype(self.case))
        return structure(self.case['stokes'], sh, self.x64, self.case.get('dd'))

    def rotation(self, d):
        m = fx()
        rid = d['id']
        if rid not in self.objs:
            a = self.array(d.get('aid', rid), d['ang'], d.get('ak', 'jax'))
            rot = m['qu'].QURotationOperator(a, self.structure_of(d))
            self.objs[rid] = rot
            self.ids[id(rot)] = rid
            self.snapshot(f'rot{rid}.angles', lambda: rot.angles)
        return self.objs[rid]

    def mutated(self):
        return sorted(label for label, (get, bits) in self.watch.items() if ang_bits(get()) != bits)


def quiet_callback(solution):
    return None


def build_foreign(d, w):
    """The real operator of another rule family (mixed chains).  The transposed / inverse forms are the LAZY ones the
    library returns for `.T` / `.I` of an operator built on the `full` shape."""
    m = fx()
    np, jnp = m['np'], m['jnp']
    t = d['t']
    st = w.structure_of(d)
    full = w.structure_of(d, d['full']) if 'full' in d else None
    if t == 'pack':
        return m['linear'].PackOperator(jnp.asarray(np.array(d['mask'], dtype=bool)), st)
    if t == 'packT':
        return m['linear'].PackOperator(jnp.asarray(np.array(d['mask'], dtype=bool)), full).T
    if t in ('index', 'indexT'):
        idx = jnp.asarray(np.array(d['idx'], dtype=np.int32))
        key = idx if d['axis'] == 0 else (Ellipsis, idx)
        if t == 'index':
            return m['indices'].IndexOperator(key, in_structure=st)
        return m['indices'].IndexOperator(key, in_structure=full).T
    if t in ('diag', 'diagI'):
        op = m['diagonal'].DiagonalOperator(jnp.asarray(np.array(d['d'], dtype=np.float64), dtype=data_dtype(w.case)), in_structure=st)
        return op if t == 'diag' else op.I
    if t == 'reshape':
        return m['axes'].ReshapeOperator(tuple(d['to']), in_structure=st)
    if t == 'reshapeT':
        return m['axes'].ReshapeOperator(tuple(d['sh']), in_structure=full).T
    if t == 'ravel':
        return m['axes'].RavelOperator(in_structure=st)
    if t == 'ravelT':
        return m['axes'].RavelOperator(in_structure=full).T
    if t == 'moveaxis':
        return m['axes'].MoveAxisOperator(d['src'], d['dst'], in_structure=st)
    raise ValueError(t)


def build_ops(ops, w):
    """Real operators of a chain description; equal `id` = the same QURotationOperator object, equal
    `aid` = the same angle operand object (possibly held by several rotation objects).  Mixed chains: 'RI' = rot.I,
    'HI' = hwp.I (InverseOperator, built under a silent solver callback), 'PT' = polarizer.T, FOREIGN kinds."""
    m = fx()
    out = []
    for d in ops:
        t = d['t']
        if t in ROTS:
            rot = w.rotation(d)
            out.append(rot if t == 'R' else (rot.T if t == 'RT' else rot.I))
        elif t == 'H':
            out.append(m['hwp'].HWPOperator(w.structure_of(d)))
        elif t == 'HI':
            from furax import Config

            with Config(solver_callback=quiet_callback):
                out.append(m['hwp'].HWPOperator(w.structure_of(d)).I)
        elif t == 'P':
            out.append(m['pol'].LinearPolarizerOperator(w.structure_of(d)))
        elif t == 'PT':
            out.append(m['pol'].LinearPolarizerOperator(structure(w.case['stokes'], d['sh'], w.x64, w.case.get('dd'))).T)
        elif t in FOREIGN:
            out.append(build_foreign(d, w))
        else:
            raise ValueError(t)
    return out


def build_step(step, w, k):
    """The real operator of one step: a chain `{'ops': [...]}` (CompositionOperator of the operands) or a
    factory `{'which': 'hwp'|'pol'|'rot', 'ang': arr|None, 'ak':, 'aid':}` (the create classmethod)."""
    m = fx()
    case = w.case
    if 'ops' in step:
        ops = build_ops(step['ops'], w)
        via = step.get('via', 'list')
        if via == 'list':
            return m['core'].CompositionOperator(ops)
        if via == 'matmul':  # ((a @ b) @ c) @ d
            return functools.reduce(lambda acc, o: acc @ o, ops[1:], ops[0])
        if via == 'rmatmul':  # a @ (b @ (c @ d))
            return functools.reduce(lambda acc, o: o @ acc, reversed(ops[:-1]), ops[-1])
        raise ValueError(via)
    dt = data_dtype(case)
    ang = None if step['ang'] is None else w.array(step.get('aid', 1), step['ang'], step.get('ak', 'jax'))
    which = step['which']
    shape = tuple(case['shape'])
    if which == 'hwp':
        op = m['hwp'].HWPOperator.create(shape, dt, case['stokes'], angles=ang)
    elif which == 'pol':
        op = m['pol'].LinearPolarizerOperator.create(shape, dt, case['stokes'], angles=ang)
    else:
        op = m['qu'].QURotationOperator.create(shape, dt, case['stokes'], angles=ang)
    # identities: the rotation objects of the created expression, numbered in order of first occurrence
    leaves = op.operands if isinstance(op, m['core'].CompositionOperator) else [op]
    n = 0
    for o in leaves:
        r = o.operator if type(o) is m['qu'].QURotationTransposeOperator else o
        if type(r) is m['qu'].QURotationOperator and id(r) not in w.ids:
            n += 1
            w.ids[id(r)] = n
            w.objs[('step', k, n)] = r  # keep it alive: labels are Python ids
            w.snapshot(f'step{k}.rot{n}.angles', lambda r=r: r.angles)
    return op


def skeleton(op, ids):
    """Flat list of [tag, id, angle shape, [[cos 2a, sin 2a] ...]] of a (composition of) polarimetry leaves."""
    m = fx()
    np = m['np']
    core, qu, hwp, pol = m['core'], m['qu'], m['hwp'], m['pol']

    def rot_entry(tag, rot):
        a = np.asarray(rot.angles, dtype=np.float64)
        cs = [[float(math.cos(2 * v)), float(math.sin(2 * v))] for v in a.ravel().tolist()]
        return [tag, ids.get(id(rot), 0), [int(i) for i in a.shape], cs]

    if isinstance(op, core.CompositionOperator):
        out = []
        for o in op.operands:
            out += skeleton(o, ids)
        return out
    if isinstance(op, core.IdentityOperator):
        return []
    if type(op) is qu.QURotationOperator:
        return [rot_entry(0, op)]
    if type(op) is qu.QURotationTransposeOperator:
        return [rot_entry(1, op.operator)]
    if type(op) is hwp.HWPOperator:
        return [[2, 0, [], []]]
    if type(op) is pol.LinearPolarizerOperator:
        return [[3, 0, [], []]]
    return [[type(op).__name__, 0, [], []]]


def try_reduce(op):
    try:
        return op.reduce(), None
    except BaseException as e:
        if isinstance(e, (KeyboardInterrupt, SystemExit)):
            raise
        return None, type(e).__name__


def case_steps(case):
    kind = case['kind']
    if kind in ('chain', 'mixed'):
        return [{'ops': case['ops'], 'via': case.get('via', 'list')}]
    if kind == 'factory':
        return [{'which': case['which'], 'ang': case['ang'], 'ak': case.get('ak', 'jax'), 'aid': 1}]
    return case['steps']


def observe_steps(case, x):
    """All steps are built and evaluated first, then each is reduced (in order), then every unreduced
    operator is evaluated AGAIN, reduced a second time, and the first reduced operator re-evaluated.
    Cases flagged `dense` also observe the dense forms of the unreduced and of the reduced operator."""
    w = World(case)
    dense = case.get('dense')
    xvals = x_values(case)
    steps = case_steps(case)
    ops = []
    res = [{} for _ in steps]
    for k, st in enumerate(steps):
        try:
            ops.append(build_step(st, w, k))
        except BaseException as e:
            if isinstance(e, (KeyboardInterrupt, SystemExit)):
                raise
            ops.append(None)
            res[k]['build_error'] = type(e).__name__
    ids = w.ids
    for r, op in zip(res, ops):
        r['expr'] = None if op is None else skeleton(op, ids)
        r['before'] = try_value(lambda: op.mv(x))
        if dense:
            r['dense_x'] = r['rdense_x'] = None
        if dense and op is not None and r['before'] is not None:
            r.update(dense_obs(op, dense, xvals, r['before']))
    reds = []
    for r, op in zip(res, ops):
        red, err = (None, 'not built') if op is None else try_reduce(op)
        reds.append(red)
        r['reduced'] = None if red is None else skeleton(red, ids)
        r['after'] = None if red is None else try_value(lambda: red.mv(x))
        if err:
            r['reduce_error'] = err
        if dense and red is not None and r['after'] is not None:
            r.update(dense_obs(red, dense, xvals, r['after'], prefix='r'))
    for r, op, red in zip(res, ops, reds):
        r['again'] = try_value(lambda: op.mv(x))
        r['expr_again'] = None if op is None else skeleton(op, ids)
        red2, err2 = (None, 'not built') if op is None else try_reduce(op)
        r['reduced2'] = None if red2 is None else skeleton(red2, ids)
        r['after2'] = None if red2 is None else try_value(lambda: red2.mv(x))
        if err2:
            r['reduce_error2'] = err2
    for r, red in zip(res, reds):
        r['after1_again'] = None if red is None else try_value(lambda: red.mv(x))
    return res, w.mutated()


def run_case(case):
    x64 = case.get('x64', True)
    set_x64(x64)
    kind = case['kind']
    x = stokes_value(case['stokes'], case['shape'], x_values(case), x64, case.get('dd'), bare=bool(case.get('bare_in')))
    if kind == 'mv':
        w = World(case)
        (op,) = build_ops(case['ops'], w)
        obs = {'y': try_value(lambda: op.mv(x))}
        if case['ops'][0]['t'] == 'R':
            # rot.T.T is rot, rot.I is rot.T (the orthogonal tag): observed through mv
            obs['tt'] = try_value(lambda: op.T.T.mv(x))
            obs['inv'] = try_value(lambda: op.I.mv(x))
            obs['t'] = try_value(lambda: op.T.mv(x))
        if case['ops'][0]['t'] == 'H':
            obs['t'] = try_value(lambda: op.T.mv(x))
        obs['y_again'] = try_value(lambda: op.mv(x))
        if case.get('dense'):
            obs['dense_x'] = None
        if case.get('dense') and obs['y'] is not None:
            obs.update(dense_obs(op, case['dense'], x_values(case), obs['y']))
            mat, err = matrix_obs(lambda: op.T.as_matrix(), case['dense'])
            obs['tdense'] = pack_matrix(mat)
            if err:
                obs['tdense_error'] = err
        obs['mutated'] = w.mutated()
        return obs
    if kind in ('chain', 'factory', 'mixed'):
        (res,), mutated = observe_steps(case, x)
        res['mutated'] = mutated
        return res
    if kind == 'seq':
        res, mutated = observe_steps(case, x)
        return {'steps': res, 'mutated': mutated}
    raise ValueError(kind)


# ----------------------------------------------------------------------------------------------
# the NumPy Mueller-matrix reference (independent of the model)


def np_matrix(d, shape):
    """Per-position 4x4 Mueller matrix of one operand: array of shape `shape + (4, 4)`; the polariser is
    the 1x4 detector row, returned as shape + (1, 4)."""
    np = fx()['np']
    t = d['t']
    sh = tuple(shape)
    if t in ('R', 'RT'):
        a = np.broadcast_to(angle_floats(d['ang']), sh)
        c, s = np.cos(2 * a), np.sin(2 * a)
        if t == 'RT':
            s = -s
        M = np.zeros(sh + (4, 4))
        M[..., 0, 0] = 1
        M[..., 3, 3] = 1
        M[..., 1, 1] = c
        M[..., 1, 2] = -s
        M[..., 2, 1] = s
        M[..., 2, 2] = c
        return M
    if t == 'H':
        return np.broadcast_to(np.diag([1.0, 1.0, -1.0, -1.0]), sh + (4, 4)).copy()
    return np.broadcast_to(np.array([[0.5, 0.5, 0.0, 0.0]]), sh + (1, 4)).copy()


def foreign_apply(d, a):
    """Leaf-wise action of an operator of another rule family on one NumPy array (float64, or dtype=object holding
    Fractions / ints: the exact transport of the model's values); independent of furax."""
    np = fx()['np']
    t = d['t']
    exact = a.dtype == object
    if t == 'pack':
        return a[np.array(d['mask'], dtype=bool)]
    if t == 'packT':
        out = np.zeros(tuple(d['full']), dtype=a.dtype)
        out[np.array(d['mask'], dtype=bool)] = a
        return out
    if t in ('index', 'indexT'):
        idx = np.array(d['idx'], dtype=np.int64)
        key = (idx,) if d['axis'] == 0 else (Ellipsis, idx)
        if t == 'index':
            return a[key]
        out = np.zeros(tuple(d['full']), dtype=a.dtype)
        if d['axis'] == 0:
            for p, i in enumerate(d['idx']):  # scatter-ADD: repeated indices accumulate
                out[i] = out[i] + a[p]
        else:
            for p, i in enumerate(d['idx']):
                out[..., i] = out[..., i] + a[..., p]
        return out
    if t in ('diag', 'diagI'):
        if exact:
            dv = np.array([Fraction(v) if t == 'diag' else 1 / Fraction(v) for v in d['d']], dtype=object)
        else:
            dv = np.array(d['d'], dtype=np.float64)
            dv = dv if t == 'diag' else 1.0 / dv
        return a * dv  # the diagonal runs along the last axis (axis_destination = -1)
    if t == 'reshape':
        return a.reshape(tuple(d['to']))
    if t in ('reshapeT', 'ravelT'):
        return a.reshape(tuple(d['full']))
    if t == 'ravel':
        return a.reshape((-1,))
    if t == 'moveaxis':
        return np.moveaxis(a, d['src'], d['dst'])
    raise ValueError(t)


def np_mixed_expected(ops, stokes, shape, x):
    """Value of a mixed chain on x: four component slots (absent components are zero and stay zero) or one plain array,
    through the component-wise Mueller actions and the leaf-wise neighbours, right to left."""
    np = fx()['np']
    n = STOKES_N[stokes]
    idx = SIDX[n]
    sh = tuple(shape)
    bare = bool(ops[-1].get('bare'))
    if bare:
        v = np.array(x[0], dtype=np.float64).reshape(sh)
    else:
        v = np.zeros((4,) + sh)
        for j, comp in zip(idx, x):
            v[j] = np.array(comp, dtype=np.float64).reshape(sh)
    for d in reversed(ops):
        t = d['t']
        if t in FOREIGN:
            v = foreign_apply(d, v) if bare else np.stack([foreign_apply(d, v[j]) for j in range(4)])
        elif t in ROTS:
            a = np.broadcast_to(angle_floats(d['ang']), v.shape[1:])
            c, s_ = np.cos(2 * a), np.sin(2 * a)
            if t != 'R':
                s_ = -s_
            if 1 in idx:
                q, u = v[1] * c - v[2] * s_, v[1] * s_ + v[2] * c
                v = v.copy()
                v[1], v[2] = q, u
        elif t in ('H', 'HI'):  # the HWP matrix is its own inverse
            v = v.copy()
            v[2], v[3] = -v[2], -v[3]
        elif t == 'P':
            v = 0.5 * (v[0] + v[1])
            bare = True
        elif t == 'PT':
            w = np.zeros((4,) + v.shape)
            for j in (0, 1):
                if j in idx:
                    w[j] = 0.5 * v
            v = w
            bare = False
        else:
            raise ValueError(t)
    if bare:
        return [0, [[float(t) for t in v.ravel().tolist()]]]
    return [n, [[float(t) for t in v[j].ravel().tolist()] for j in idx]]


def np_expected(ops, stokes, shape, x):
    """Value of the chain on x computed with restricted Mueller matrices, or None when the chain is not
    composable (a polariser anywhere but first)."""
    np = fx()['np']
    if any('sh' in d for d in ops):
        return np_mixed_expected(ops, stokes, shape, x)
    if any(d['t'] == 'P' for d in ops[1:]):
        return None
    n = STOKES_N[stokes]
    idx = SIDX[n]
    sh = tuple(shape)
    v = np.zeros(sh + (4,))
    for j, comp in zip(idx, x):
        v[..., j] = np.array(comp, dtype=np.float64).reshape(sh)
    rows = idx
    for d in reversed(ops):
        M = np_matrix(d, shape)
        # restrict to the present components: absent inputs are zero, absent outputs are dropped
        w = np.einsum('...ij,...j->...i', M, v)
        if d['t'] == 'P':
            return [0, [[float(t) for t in w[..., 0].ravel().tolist()]]]
        keep = np.zeros(4)
        keep[idx] = 1
        v = w * keep
    return [n, [[float(t) for t in v[..., j].ravel().tolist()] for j in rows]]


def np_dense(ops, stokes, shape):
    """Dense matrix of the chain in furax's layout - pytree leaves flattened one after the other, i.e.
    COMPONENT-MAJOR: row (i, p) = i * S + p for output component i and position p of the S = prod(shape) positions,
    column (j, p) likewise; entry [(i, p), (j, p')] = delta(p, p') * (product of the restricted Mueller matrices at
    p)[i, j].  The polariser's output is one leaf (rows p).  None when the chain is not composable."""
    np = fx()['np']
    if any(d['t'] == 'P' for d in ops[1:]):
        return None
    idx = SIDX[STOKES_N[stokes]]
    sh = tuple(shape)
    S = prod(sh)
    M = np.broadcast_to(np.eye(4), sh + (4, 4))
    keep = np.zeros((4, 4))
    keep[idx, idx] = 1  # projector on the present components
    rows = idx
    M = keep @ M
    for d in reversed(ops):
        A = np_matrix(d, shape)
        if d['t'] == 'P':
            M = A @ M  # shape + (1, 4)
            rows = [0]
        else:
            M = keep @ A @ M
    M = M.reshape((S,) + M.shape[-2:])
    out = np.zeros((len(rows) * S, len(idx) * S))
    for i, ri in enumerate(rows):
        for j, cj in enumerate(idx):
            for p in range(S):
                out[i * S + p, j * S + p] = M[p, ri, cj]
    return out


def close_matrix(a, b, tol):
    """a: observed list of rows (or None), b: NumPy reference."""
    np = fx()['np']
    if a is None or b is None:
        return a is None and b is None
    a = np.array(unpack_matrix(a), dtype=np.float64)
    if a.shape != b.shape:
        return False
    return bool(np.all(np.abs(a - b) <= tol))


def matrix_diff(a, b):
    """First few entries where the observed matrix differs most from the reference."""
    np = fx()['np']
    if a is None:
        return 'no matrix'
    a = np.array(unpack_matrix(a), dtype=np.float64)
    if a.shape != b.shape:
        return f'shape {list(a.shape)}, expected {list(b.shape)}'
    d = np.abs(a - b)
    worst = np.dstack(np.unravel_index(np.argsort(-d, axis=None)[:4], d.shape))[0]
    return 'largest differences at [row, col] (got, expected): ' + ', '.join(
        f'[{int(i)}, {int(j)}] ({a[i, j]:.6g}, {b[i, j]:.6g})' for i, j in worst if d[i, j] > 0)


# ----------------------------------------------------------------------------------------------
# comparison with tolerance


def unfloat(x):
    """canonical JSON (lib.canon) or raw observation -> nested lists of floats / ints / None."""
    if isinstance(x, str) and '/' in x:
        return float(Fraction(x))
    if isinstance(x, (list, tuple)):
        return [unfloat(i) for i in x]
    if isinstance(x, dict):
        return {k: unfloat(v) for k, v in x.items()}
    return x


def close_value(a, b, tol):
    if a is None or b is None:
        return a is None and b is None
    if a[0] != b[0] or len(a[1]) != len(b[1]):
        return False
    for u, v in zip(a[1], b[1]):
        if len(u) != len(v) or any(abs(float(p) - float(q)) > tol for p, q in zip(u, v)):
            return False
    return True


def snap(model, impl, tol):
    """The model's exact observation with every rational replaced by the implementation's float when the
    two agree within tol (so that equality of the canonical forms means agreement within tol)."""
    if isinstance(model, Fraction):
        if isinstance(impl, (int, float)) and not isinstance(impl, bool) and abs(float(model) - float(impl)) <= tol:
            return impl
        return model
    if isinstance(model, (list, tuple)):
        if isinstance(impl, (list, tuple)) and len(impl) == len(model):
            return [snap(a, b, tol) for a, b in zip(model, impl)]
        return [snap(a, None, tol) for a in model]
    if isinstance(model, dict):
        return {k: snap(v, impl.get(k) if isinstance(impl, dict) else None, tol) for k, v in model.items()}
    return model


def dec_value(v):
    """show_val: None | Some (n, [[(num, den) ...] ...])"""
    if v is None:
        return None
    n, comps = v['a'][0]
    return [n, [[Fraction(a, b) for (a, b) in comp] for comp in comps]]


def dec_op(o):
    tag, oid, (shape, cs) = o
    return [tag, oid, list(shape), [[Fraction(cn, cd), Fraction(s[0], s[1])] for (cn, cd, s) in cs]]


def dec_ops(v):
    if v is None:
        return None
    return [dec_op(o) for o in v['a'][0]]


STRUCT_KEYS = ('expr', 'expr_again', 'reduced', 'reduced2')
ERROR_KEYS = ('reduce_error', 'reduce_error2', 'build_error')
# the full dense matrices are judged by the oracle (NumPy reference); the model sees them through dense_x = matrix @ x
MATRIX_KEYS = ('dense', 'gdense', 'rdense', 'rgdense', 'tdense', 'dense_error', 'gdense_error', 'rdense_error',
               'rgdense_error', 'tdense_error')


def dec_step(v, step, dense=None):
    """(map show_op l, x_observe sh l x) -> the observation of one step; the model is pure, so every
    repeated evaluation of the implementation is compared with the model's single value.  Steps built with
    `@` (whose identity shortcuts are not in the model) are compared on their values only.  In `dense` cases the
    implementation's as_matrix() applied (by the harness) to x must also be the model's value."""
    created, (b, r, a) = v
    e = [dec_op(o) for o in created]
    B, R, A = dec_value(b), dec_ops(r), dec_value(a)
    d = {'expr': e, 'expr_again': e, 'before': B, 'again': B, 'reduced': R, 'reduced2': R,
         'after': A, 'after2': A, 'after1_again': A}
    if dense:
        d.update(dense_x=B, rdense_x=A)
    return strip_step(d, step)


def strip_step(d, step):
    drop = ERROR_KEYS + MATRIX_KEYS + (STRUCT_KEYS if step.get('via', 'list') != 'list' else ())
    return {k: v for k, v in d.items() if k not in drop}


def step_ops(step):
    """The explicit product a step stands for (the factories: rot.T @ hwp @ rot, polarizer @ rot, rot)."""
    if 'ops' in step:
        return step['ops']
    which, ang = step['which'], step['ang']
    R = {'t': 'R', 'id': 1, 'ang': ang}
    if which == 'hwp':
        return [{'t': 'H'}] if ang is None else [dict(R, t='RT'), {'t': 'H'}, R]
    if which == 'pol':
        return [{'t': 'P'}] if ang is None else [{'t': 'P'}, R]
    return [R]


def step_name(step):
    if 'ops' in step:
        return {'list': 'chain ', 'matmul': 'left-nested @ product ', 'rmatmul': 'right-nested @ product '}[step.get('via', 'list')] + ' @ '.join(d['t'] + (str(d['id']) if 'id' in d else '') + (f'[{d.get("ak", "jax")}{d.get("aid", d["id"])}]' if 'id' in d else '')
                                   for d in step['ops'])
    return f'{step["which"]}.create(angles={"None" if step["ang"] is None else step.get("ak", "jax") + str(step.get("aid", 1))})'


def expected_expr(ops):
    """Skeleton of the product as described by the case (exact angles of the case, not of the code)."""
    out = []
    for d in ops:
        if d['t'] in ROTS:
            cs = [[cn / cd, sn / sd] for (cn, cd, sn, sd) in d['ang']['cs']]
            out.append([TAGS[d['t']], d['id'], list(d['ang']['shape']), cs])
        elif d['t'] in TAGS:
            out.append([TAGS[d['t']], 0, [], []])
        else:  # mixed chains: the class name of the neighbour / of the lazy dual
            out.append([FOREIGN.get(d['t']) or LAZY_NAMES[d['t']], 0, [], []])
    return out


def close_expr(a, b, tol, with_ids=True):
    if a is None or b is None:
        return a is None and b is None
    if len(a) != len(b):
        return False
    for u, v in zip(a, b):
        if u[0] != v[0] or (with_ids and u[1] != v[1]) or list(u[2]) != list(v[2]) or len(u[3]) != len(v[3]):
            return False
        for p, q in zip(u[3], v[3]):
            if abs(float(p[0]) - float(q[0])) > tol or abs(float(p[1]) - float(q[1])) > tol:
                return False
    return True


def brief(expr):
    if expr is None:
        return None
    return [[e[0], e[1], e[2], [[round(float(c), 6), round(float(s_), 6)] for c, s_ in e[3]]] for e in expr]


# ----------------------------------------------------------------------------------------------
# generators

SHAPES = {  # component shape -> angle shapes that broadcast to it (scalar, shape-matching, (n,1), (1,m) ...)
    (): [()],
    (3,): [(), (1,), (3,)],
    (2, 3): [(), (3,), (2, 3), (2, 1), (1, 3), (1, 1)],
    (2, 1, 2): [(2,), (2, 1, 2), (2, 1, 1), (1, 2)],
}


def prod(t):
    r = 1
    for i in t:
        r *= i
    return r


def bshapes(sh):
    """Angle shapes that broadcast to the component shape sh (any shape: mixed chains)."""
    sh = tuple(sh)
    out = [(), sh]
    if len(sh) >= 1:
        out.append((sh[-1],))
    if len(sh) >= 2:
        out.append(sh[:-1] + (1,))
    return out


def nest(flat, shape):
    """Flat list -> nested lists of the given shape (C order)."""
    shape = tuple(shape)
    if len(shape) <= 1:
        return list(flat)
    step = prod(shape[1:])
    return [nest(flat[i * step:(i + 1) * step], shape[1:]) for i in range(shape[0])]


RESHAPES = {4: [(4,), (2, 2), (1, 4), (4, 1)], 6: [(6,), (2, 3), (3, 2), (1, 6)], 3: [(3,), (1, 3), (3, 1)], 2: [(2,), (1, 2), (2, 1)]}


def mixed_split(case):
    """(left neighbours, polarimetry segment, right neighbours) of a mixed chain."""
    ops = case['ops']
    pol = [k for k, d in enumerate(ops) if d['t'] not in FOREIGN]
    return ops[:pol[0]], ops[pol[0]:pol[-1] + 1], ops[pol[-1] + 1:]


def mixed_model_segment(case):
    """The split when the segment is expressible in Model/Mueller.v (R / R.T / R.I / HWP / polariser, contiguous), else None."""
    left, seg, right = mixed_split(case)
    if all(d['t'] in ('R', 'RT', 'RI', 'H', 'P') for d in seg):
        return left, seg, right
    return None


def exact_leaves(x, shape):
    import numpy as np

    return [np.array([Fraction(v) for v in l], dtype=object).reshape(tuple(shape)) for l in x]


def transport(val, shape, left):
    """A value of the model ([n, components of Fractions] on component shape `shape`) through the left-hand neighbours
    (applied right to left), exactly."""
    if val is None:
        return None
    n, comps = val
    arrs = exact_leaves(comps, shape)
    for d in reversed(left):
        arrs = [foreign_apply(d, a) for a in arrs]
    return [n, [[Fraction(v) for v in a.ravel().tolist()] for a in arrs]]


class Check(PropertyCheck):
    id = 'C15'
    props = ['C15.v', 'C15Real.v']
    static_targets = ['theories/Lemmas/MuellerL.vo', 'theories/Lemmas/MuellerExecL.vo']
    coq_header = (
        'From Coq Require Import ZArith NArith List QArith Qcanon.\n'
        'From Furax Require Import Base.Pytree Model.Mueller.\n'
        'Import ListNotations.\nLocal Close Scope Qc_scope.\nLocal Close Scope Q_scope.\nOpen Scope nat_scope.'
    )
    shard = 200
    workers = 4
    trusted = [
        'floating point modelled by exact rational arithmetic: jnp.cos(2a)/jnp.sin(2a) are compared with the exact '
        '(cos 2a, sin 2a) of the model within 1e-12 (x64; 2e-5 in float32) on integer Stokes inputs',
        'dtypes are not in the model: the dtype / magnitude cases (x64 mode x Stokes dtype x angle operand kind jax32 / jax64 / '
        'np / np32 / Python float x |a| = 1e-6 .. 1e6 rad) use the same exact model term and NumPy float64 reference with a '
        'tolerance derived in the harness: TOL32 if anything (data, an angle array, the mode) is float32 else TOL64, plus per '
        'rotation operand 4e-6 |a| (angle known to float32) or 2e-14 |a| (float64); float32-known angles stop at 1e3 rad. '
        'A Python float angle is weakly typed: next to a float32 angle array in the same chain QURotationRule adds them in '
        'float32 (jax and NumPy >= 2 semantics), so there it is counted as known to float32',
        'stored-angle cases (`stored-*`): grid angles k / 2^j exactly representable in the operand dtype with exact sums, '
        'so the oracle (NumPy float64 Mueller matrices at the angle AS STORED) uses 5e-6 (anything float32) / 1e-13 (all float64) '
        'with no magnitude term up to 1e6 rad (thorough 1e8); the model term receives float64 libm values of (cos 2a, sin 2a) '
        'rounded to rationals over 2^30 (float32 tolerance) / 2^52, which are unit vectors only up to that rounding (the model '
        'is EXECUTED on them; the theorems with a unit_ang premise are not invoked)',
        'mixed chains (kind `mixed`): PackOperator / IndexOperator / DiagonalOperator / Reshape / Ravel / MoveAxis and their lazy '
        'transposes / inverses are NOT in the model; their leaf-wise action is a NumPy function of the harness (foreign_apply), '
        'used both by the oracle and - on exact Fractions - to transport the input to and the model\'s values from the '
        'polarimetry segment; only the polarimetry entries of the reduced operator are compared with the model (reductions among '
        'the neighbours are judged by value only); segments holding hwp.I (InverseOperator, conjugate gradient, tolerance 1e-5) or '
        'polarizer.T (generic TransposeOperator) are judged by the NumPy oracle only; block operators are not among the neighbours',
        'dense forms: as_matrix() results are judged by the harness against a NumPy block matrix in component-major (pytree leaf) '
        'order and tied to the model only through matrix @ flatten(x) = the model value on x; most are obtained under '
        'jax.disable_jit() (the same furax code with lax.fori_loop run step by step), one in 30 through the jitted path; when '
        'type(op).as_matrix is the generic AbstractLinearOperator.as_matrix it is run once (C04 checks the generic one against mv)',
        'jnp broadcasting of `x.q * cos(2 * angles)` and of `left.angles + right.angles` as specified by '
        'bc / bshape in Model/Mueller.v (right-aligned axes, extent-1 axes stretched); angle arrays are '
        'assumed to broadcast TO the component shape of in_structure (larger angle arrays enlarge the output '
        'and are outside the model)',
        'isinstance dispatch on the four Stokes classes modelled by the number of components; jax_dataclasses '
        'field order i, q, u, v',
        'Python `is` in InverseBinaryRule modelled by harness-assigned identifiers of the QURotationOperator objects',
        'CompositionOperator.reduce / AlgebraicReductionRule restricted to chains over the four polarimetry '
        'classes (no identity/homothety operand; the other registered binary rules do not match these classes); '
        'registry order InverseBinary < QURotation < QURotationHWP < LinearPolarizerHWP (C01/C07 check the registry itself)',
        'correspondence harness harness/c15.py (case builders for both sides, tolerance snapping, NumPy oracle)',
        'expressions built with `@`: the construction-time shortcuts of __matmul__ / __rmatmul__ (A.I @ A -> identity) are not in the '
        'model; such cases are compared with the model and the NumPy reference on their VALUES (before / after reduce) only',
        'purity (no in-place update of operands): the model is a pure function, so the implementation evaluated before / after '
        'reduce(), reduced twice, and across the steps of a sequence over shared objects is compared with the ONE model value per '
        'step; that the angle operands are bitwise unchanged (NumPy arrays, caller-owned or stored in rotation objects) is an '
        'implementation-side observation (`mutated`), the model has no notion of object state beyond the rotation identifiers',
        'Props/C15Real.v only (the instance K = R, c = cos(2.), s = sin(2.)): the standard library axioms of the reals '
        'ClassicalDedekindReals.sig_forall_dec, ClassicalDedekindReals.sig_not_dec, '
        'FunctionalExtensionality.functional_extensionality_dep; every theorem of Props/C15.v is closed under the global context',
        'the scan of the model runs on fuel (4 n^2 + 8 for n operands, never exhausted on the enumerated scope); its '
        'termination / normal form is C07, soundness here holds for every fuel',
    ]

    # ------------------------------------------------------------------------------------------
    def rand_x(self, n, size):
        return [[self.rng.randint(-4, 5) for _ in range(size)] for _ in range(n)]

    def rand_arr(self, ashape, mode, turns=False):
        """mode 'axis': multiples of pi/4; 'gen': Pythagorean angles; 'mix'."""
        rng = self.rng
        n = prod(ashape)
        pool = AXIS if mode == 'axis' else (PYTH if mode == 'gen' else AXIS + PYTH)
        arr = {'shape': list(ashape), 'cs': [list(rng.choice(pool)) for _ in range(n)]}
        if turns:
            arr['turns'] = [rng.randint(-3, 3) for _ in range(n)]
        return arr

    def mk_case(self, kind, stokes, shape, **kw):
        x64 = kw.pop('x64', True)
        c = {'kind': kind, 'stokes': stokes, 'shape': list(shape), 'x64': x64, 'tol': TOL64 if x64 else TOL32}
        c.update(kw)
        if 'x' not in c:
            c['x'] = self.rand_x(STOKES_N[stokes], prod(shape))
        return c

    # -- dtype / magnitude cases -----------------------------------------------------------------
    def mag_arr(self, ashape, decade, axis=False):
        """Angle array whose elements have |a| ~ 10^decade, each with EXACTLY known (cos 2a, sin 2a):
        decade <= -1: a = atan(p / 10^-decade), p = +-1..9 (tangent half-angle parametrisation of the doubled angle);
        decade == 0: the Pythagorean / axis angles; decade >= 1: those plus t * pi with |t| ~ 10^decade / pi."""
        rng = self.rng
        n = prod(ashape)
        cs, turns = [], []
        for _ in range(n):
            if decade <= -1:
                p_, q_ = rng.choice((-1, 1)) * rng.randint(1, 9), 10 ** (-decade)
                cs.append([q_ * q_ - p_ * p_, q_ * q_ + p_ * p_, 2 * p_ * q_, q_ * q_ + p_ * p_])
                turns.append(0)
            else:
                cs.append(list(rng.choice(AXIS if axis else PYTH)))
                t = 0 if decade == 0 else max(1, round(10 ** decade * rng.uniform(0.3, 0.99) / math.pi))
                turns.append(rng.choice((-1, 1)) * t)
        return {'shape': list(ashape), 'cs': cs, 'turns': turns}

    def derive_tol(self, case):
        """Tolerance from the precision of the data and of every angle operand: TOL32 when anything is computed in
        float32 (data, an angle array, or the mode), else TOL64, plus per rotation operand KA * max |a|."""
        x64 = case['x64']
        any32 = (not x64) or case.get('dd') == 'f32'
        stored = bool(case.get('stored'))  # grid angles, exact in every operand dtype, exact sums: no magnitude term
        ang = 0.0
        for st in case_steps(case) if case['kind'] != 'mv' else [{'ops': case['ops']}]:
            rots = [(d.get('ak', st.get('ak', 'jax')), d['ang']) for d in step_ops(st) if d['t'] in ('R', 'RT')]
            # a Python float is WEAKLY typed: added to a float32 array by QURotationRule (left.angles + right.angles) the sum is
            # float32 (jax and NumPy >= 2 alike), so next to a float32 operand it is known to float32 only
            weak32 = any(eff32(ak, x64) for ak, _ in rots)
            for ak, arr in rots:
                e32 = eff32(ak, x64) or (ak == 'py' and weak32)
                any32 = any32 or e32
                ang += (KA32 if e32 else KA64) * max(abs(v) for v in angle_list(arr))
        if stored:
            return STOL32 if any32 else STOL64
        return (TOL32 if any32 else TOL64) + ang

    def dtype_cases(self, quick):
        """Blind spot closed after seeded mutants round 2: angle dtype x data dtype x x64 mode x angle MAGNITUDE.
        For every mode, data dtype and angle-operand kind, a ladder of magnitudes 1e-6 .. 1e6 rad (operands known to
        float32 only: .. 1e3, beyond which the angle's own precision says nothing about cos 2a): single R / R.T, the hwp and
        pol factories, and a 2-3 operand chain whose other rotation has an independently drawn kind and magnitude."""
        rng = self.rng
        out = []
        kinds = ['QU', 'IQU', 'IQUV']
        chains = [('R', 'R'), ('RT', 'R'), ('R', 'RT'), ('RT', 'RT'), ('R', 'H'), ('H', 'RT'), ('P', 'R'), ('P', 'RT', 'H'),
                  ('R', 'H', 'R'), ('RT', 'H', 'R'), ('P', 'R', 'R'), ('R', 'RT', 'H')]
        n = 0
        for x64 in (True, False):
            aks = ('jax64', 'jax32', 'np', 'np32', 'py') if x64 else ('jax', 'np', 'np32', 'py')
            for dd in (('f32', 'f64') if x64 else ('f32',)):
                for ak in aks:
                    top = 3 if eff32(ak, x64) else 6
                    decades = list(range(-6, top + 1)) + ([] if quick or top == 3 else [8])
                    for dec in decades:
                        def operand(ak=ak, dec=dec, shape=(3,)):
                            ashape = () if ak == 'py' else rng.choice(SHAPES[shape])
                            return ak, self.mag_arr(ashape, dec, axis=(rng.random() < 0.3))

                        def other(shape=(3,)):
                            ak2 = rng.choice(aks)
                            d2 = rng.randint(-6, 3 if eff32(ak2, x64) else 6)
                            return operand(ak2, d2, shape)

                        n += 1  # the rung counter
                        common = dict(x64=x64, dd=dd)
                        if dd == 'f64' and x64 and (n % 2 or not quick):
                            common['xden'] = 2 ** 30  # dyadic data that float32 cannot hold
                        # quick: R / R.T and hwp / pol alternate along the ladder; thorough: all four at every rung
                        for t in (('R', 'RT')[n % 2],) if quick else ('R', 'RT'):
                            stokes = kinds[n % 3]
                            a, arr = operand()
                            c = self.mk_case('mv', stokes, (3,), ops=[{'t': t, 'id': 1, 'ak': a, 'ang': arr}], key=f'dtype-mv:{t}', **common)
                            out.append(c)
                        for which in (('hwp', 'pol')[(n // 2) % 2],) if quick else ('hwp', 'pol'):
                            stokes = kinds[(n + 1) % 3]
                            shape = (3,) if n % 3 else (2, 3)
                            a, arr = operand(shape=shape)
                            out.append(self.mk_case('factory', stokes, shape, which=which, ang=arr, ak=a, key=f'dtype-factory:{which}', **common))
                        pat = chains[n % len(chains)]
                        ops = []
                        picks = [operand() if i == 0 else other() for i in range(sum(t in ('R', 'RT') for t in pat))]
                        if any(eff32(a, x64) for a, _ in picks):
                            # next to a float32 array a Python float is float32 too (weak type): keep it below 1e3 rad as well
                            picks = [operand(a, min(dec, rng.randint(-6, 3)), (3,)) if a == 'py' else (a, arr) for a, arr in picks]
                        for t in pat:
                            if t in ('R', 'RT'):
                                a, arr = picks.pop(0)
                                oid = sum(1 for d in ops if 'id' in d) + 1
                                ops.append({'t': t, 'id': oid, 'aid': oid, 'ak': a, 'ang': arr})
                            else:
                                ops.append({'t': t})
                        out.append(self.mk_case('chain', kinds[(n + 2) % 3], (3,), ops=ops, pattern=','.join(pat), key='dtype-chain:' + ','.join(pat), **common))
        for c in out:
            if 'xden' in c:
                c['x'] = [[v * c['xden'] + self.rng.randint(-2 ** 10, 2 ** 10) for v in l] for l in c['x']]
            c['tol'] = self.derive_tol(c)
        return out

    # -- stored-angle cases ------------------------------------------------------------------------
    def grid_arr(self, ashape, decade, bits, top=None, ramp=False, csbits=CSBITS64):
        """Grid angles a = k / 2^j with |a| ~ 10^decade: the step 2^-j is fixed by the LARGEST decade `top` of the case
        (|k| < 2^bits there), so that every operand of the case lies on ONE grid and sums of <= 4 of them are exact in
        the dtype the grid was chosen for.  `ramp`: a linear ramp (a plate spinning at constant speed).  `cs`: (cos 2a,
        sin 2a) of that exact angle, float64 libm values rounded to multiples of 2^-csbits (for the model and the skeletons:
        2^-30 where the case's tolerance is the float32 one, 2^-52 else; small denominators keep the Qc arithmetic cheap)."""
        rng = self.rng
        top = decade if top is None else max(top, decade)
        e_top = math.floor(math.log2(10.0 ** top)) + 1
        j = bits - e_top
        kb = max(3, bits - (e_top - (math.floor(math.log2(10.0 ** decade)) + 1)))
        n = prod(ashape)
        if ramp and n > 1:
            sign = rng.choice((-1, 1))
            k0 = rng.randrange(2 ** (kb - 2), 2 ** (kb - 1))
            dk = rng.randrange(1, max(2, 2 ** (kb - 1) // n))
            ks = [sign * (k0 + i * dk) for i in range(n)]
        else:
            ks = [rng.choice((-1, 1)) * rng.randrange(2 ** (kb - 2), 2 ** kb) for _ in range(n)]
        cs = []
        den = 2 ** csbits
        for k in ks:
            a = math.ldexp(float(k), -j)
            cs.append([round(Fraction(math.cos(2 * a)) * den), den, round(Fraction(math.sin(2 * a)) * den), den])
        return {'shape': list(ashape), 'kj': [[k, j] for k in ks], 'cs': cs}

    def stored_cases(self, quick):
        """Blind spot closed after seeded mutants round 3: LARGE angles at a tolerance WITHOUT a magnitude term.  For every
        mode, data dtype and operand kind, decades 1e2 .. 1e6 rad (thorough 1e0 .. 1e8): a single R / R.T, the factories
        (hwp always; pol / rot alternating, thorough all; scalar and array operands alternate, arrays random or ramps) and a
        chain (explicit rotating-plate products on ONE rotation object, 2-3 rotation operands of independent kinds and
        magnitudes on one grid)."""
        rng = self.rng
        out = []
        kinds = ['QU', 'IQU', 'IQUV']
        chains = [
            (('RT', 1), ('H', 0), ('R', 1)), (('P', 0), ('RT', 1), ('H', 0), ('R', 1)), (('R', 1), ('R', 2)), (('RT', 1), ('R', 2)),
            (('R', 1), ('RT', 2)), (('RT', 1), ('RT', 2)), (('R', 1), ('H', 0), ('R', 2)), (('P', 0), ('R', 1), ('R', 2)),
            (('R', 1), ('RT', 2), ('H', 0)), (('RT', 1), ('H', 0), ('R', 2)), (('H', 0), ('R', 1), ('H', 0)), (('R', 1), ('R', 1)),
            (('P', 0), ('R', 1)), (('R', 1), ('H', 0), ('RT', 1)), (('RT', 1), ('R', 2), ('RT', 3)), (('P', 0), ('RT', 1), ('H', 0), ('R', 2)),
        ]
        decades = (2, 3, 4, 5, 6) if quick else tuple(range(0, 9))
        n = 0
        for x64 in (True, False):
            aks = ('jax64', 'jax32', 'np', 'np32', 'py') if x64 else ('jax', 'np', 'np32', 'py')
            for dd in (('f32', 'f64') if x64 else ('f32',)):
                for ak in aks:
                    bits1 = GRID32 if eff32(ak, x64) else GRID64
                    cs1 = CSBITS32 if (not x64 or dd == 'f32' or eff32(ak, x64)) else CSBITS64
                    for dec in decades:
                        n += 1
                        common = dict(x64=x64, dd=dd, stored=True)
                        if dd == 'f64' and x64 and n % 2:
                            common['xden'] = 2 ** 30

                        def ashape_for(shape, scalar, ak=ak):
                            if ak == 'py' or scalar:
                                return ()
                            return rng.choice([a for a in SHAPES[shape] if a != ()])

                        for t in (('R', 'RT')[n % 2],) if quick else ('R', 'RT'):
                            arr = self.grid_arr(ashape_for((3,), n % 4 == 0), dec, bits1, ramp=(n % 3 == 0), csbits=cs1)
                            out.append(self.mk_case('mv', kinds[n % 3], (3,), ops=[{'t': t, 'id': 1, 'ak': ak, 'ang': arr}],
                                                    key=f'stored-mv:{t}', **common))
                        for w, which in enumerate(('hwp', ('pol', 'rot')[n % 2]) if quick else ('hwp', 'pol', 'rot')):
                            shape = (3,) if (n + w) % 3 else (2, 3)
                            arr = self.grid_arr(ashape_for(shape, (n + w) % 2 == 0), dec, bits1, ramp=((n + w) % 3 == 1), csbits=cs1)
                            out.append(self.mk_case('factory', kinds[(n + w + 1) % 3], shape, which=which, ang=arr, ak=ak,
                                                    key=f'stored-factory:{which}', **common))
                        pat = chains[n % len(chains)]
                        picks = {}
                        for t, i in pat:
                            if i and i not in picks:
                                picks[i] = (ak, dec) if i == 1 else (rng.choice(aks), rng.randint(0, dec))
                        any32 = any(eff32(a, x64) for a, _ in picks.values())
                        bits = GRID32 if any32 else GRID64
                        csb = CSBITS32 if (any32 or not x64 or dd == 'f32') else CSBITS64
                        arrs = {i: self.grid_arr(() if a == 'py' else rng.choice(SHAPES[(3,)]), d_, bits, top=dec, ramp=(rng.random() < 0.3), csbits=csb)
                                for i, (a, d_) in picks.items()}
                        ops = [({'t': t, 'id': i, 'aid': i, 'ak': picks[i][0], 'ang': arrs[i]} if i else {'t': t}) for t, i in pat]
                        name = ','.join(f'{t}{i or ""}' for t, i in pat)
                        out.append(self.mk_case('chain', kinds[(n + 2) % 3], (3,), ops=ops, pattern=name, key='stored-chain:' + name, **common))
        for c in out:
            if 'xden' in c:
                c['x'] = [[v * c['xden'] + self.rng.randint(-2 ** 10, 2 ** 10) for v in l] for l in c['x']]
            c['tol'] = self.derive_tol(c)
        return out

    # -- mixed chains: polarimetry segment between operators of other rule families ------------------
    def foreign_op(self, f, sh, bare):
        """(description, output component shape) of a neighbour of kind f acting on component shape sh, or None when the
        kind does not apply to that shape."""
        rng = self.rng
        sh = tuple(sh)
        d = {'t': f, 'sh': list(sh), 'bare': bool(bare)}
        size = prod(sh)
        if f == 'pack':
            if not sh:
                return None
            msh = sh if rng.random() < 0.5 else sh[:1]
            nm = prod(msh)
            if rng.random() < 0.35:  # nothing flagged: the shapes agree whatever happens to the neighbour
                bits = [True] * nm
            else:
                bits = [rng.random() < 0.6 for _ in range(nm)]
                bits[rng.randrange(nm)] = True
            d['mask'] = nest(bits, msh)
            return d, (sum(bits),) + sh[len(msh):]
        if f == 'packT':
            if not sh:
                return None
            m_ = sh[0] + rng.randint(0, 2)
            pos = set(rng.sample(range(m_), sh[0]))
            d['mask'] = [i in pos for i in range(m_)]
            d['full'] = [m_] + list(sh[1:])
            return d, tuple(d['full'])
        if f in ('index', 'indexT'):
            if not sh:
                return None
            axis = 0 if (len(sh) == 1 or rng.random() < 0.6) else -1
            n = sh[axis]
            d['axis'] = axis
            if f == 'index':
                r = rng.randint(1, n + 1)
                d['idx'] = rng.sample(range(n), min(r, n)) if rng.random() < 0.5 else [rng.randrange(n) for _ in range(r)]
                r = len(d['idx'])
                return d, ((r,) + sh[1:] if axis == 0 else sh[:-1] + (r,))
            m_ = n + rng.randint(0, 2)
            d['idx'] = rng.sample(range(m_), n) if rng.random() < 0.5 else [rng.randrange(m_) for _ in range(n)]
            d['full'] = list((m_,) + sh[1:] if axis == 0 else sh[:-1] + (m_,))
            return d, tuple(d['full'])
        if f in ('diag', 'diagI'):
            if not sh:
                return None
            d['d'] = [rng.choice((1.0, -1.0, 2.0, -2.0, 0.5, 4.0)) for _ in range(sh[-1])]
            return d, sh
        if f in ('reshape', 'reshapeT'):
            cands = [t for t in RESHAPES.get(size, [(size,), (1, size)]) if t != sh]
            to = rng.choice(cands)
            if f == 'reshape':
                d['to'] = list(to)
            else:
                d['full'] = list(to)
            return d, to
        if f == 'ravel':
            if not sh:
                return None
            return d, (size,)
        if f == 'ravelT':
            if len(sh) != 1:
                return None
            full = rng.choice([t for t in RESHAPES.get(size, [(1, size)]) if len(t) == 2])
            d['full'] = list(full)
            return d, full
        if f == 'moveaxis':
            if len(sh) < 2:
                return None
            d['src'], d['dst'] = rng.choice(((0, 1), (0, -1), (-1, 0), (1, 0)))
            out = list(sh)
            out.insert(d['dst'] % len(sh), out.pop(d['src'] % len(sh)))
            return d, tuple(out)
        raise ValueError(f)

    def mixed_case(self, stokes, shape, left, seg, right, x64=True, key='mixed'):
        """left / right: neighbour kinds (composition order); seg: (tag, id) over R, RT, RI, H, HI, P (leftmost only), PT
        (rightmost only).  Shapes are propagated from the input (rightmost) to the output; None when a kind does not apply."""
        rng = self.rng
        bare = bool(seg) and seg[-1][0] == 'PT'
        bare_in = bare
        cur = tuple(shape)
        r_ops, s_ops, l_ops = [], [], []
        for f in reversed(right):
            got = self.foreign_op(f, cur, bare)
            if got is None:
                return None
            r_ops.insert(0, got[0])
            cur = got[1]
        angs = {}
        for t, i in reversed(seg):
            d = {'t': t, 'sh': list(cur), 'bare': bare}
            if t in ROTS:
                if i not in angs:
                    ashape = rng.choice(bshapes(cur))
                    angs[i] = (self.pick_ak(ashape, 'mix'), self.rand_arr(ashape, 'gen', turns=(rng.random() < 0.2)))
                d.update(id=i, aid=i, ak=angs[i][0], ang=angs[i][1])
            if t == 'P':
                bare = True
            elif t == 'PT':
                bare = False
            s_ops.insert(0, d)
        for f in reversed(left):
            got = self.foreign_op(f, cur, bare)
            if got is None:
                return None
            l_ops.insert(0, got[0])
            cur = got[1]
        name = ' @ '.join(list(left) + [f'{t}{i or ""}' for t, i in seg] + list(right))
        c = self.mk_case('mixed', stokes, shape, ops=l_ops + s_ops + r_ops, pattern=name, x64=x64, key=f'{key}:{name}',
                         x=self.rand_x(1 if bare_in else STOKES_N[stokes], prod(shape)))
        if bare_in:
            c['bare_in'] = True
        if any(t == 'HI' for t, _ in seg):
            c['tol'] = max(c['tol'], 1e-5)  # hwp.I is a lazy InverseOperator: conjugate gradient, rtol 1e-6
            # ... on an INDEFINITE operator: CG breaks down (NaN) when sum(i^2 + q^2) = sum(u^2 + v^2) over the solve's
            # right-hand side.  Keep I, Q >= 1 resp. 3 and |U|, |V| <= 1 at every position, so that no selection, scatter-add
            # or per-position scaling by the single neighbour can balance the two (breakdown is a solver matter, not C15's)
            size = prod(shape)
            pos = {'I': lambda: rng.randint(1, 5), 'Q': lambda: rng.randint(3, 5), 'U': lambda: rng.randint(-1, 1), 'V': lambda: rng.randint(-1, 1)}
            c['x'] = [[pos[s_]() for _ in range(size)] for s_ in stokes]
        return c

    def mixed_cases(self, quick):
        """Blind spot closed after seeded mutants round 3: polarimetry operators and their lazy transposes / inverses NEXT TO
        operators of other rule families.  (a) every single polarimetry operand x every neighbour kind x {left, right};
        (b) polarimetry segments of 2-4 operands (rotating plate, detector chains, cancelling pairs) with 0-2 seeded neighbours on
        each side; (c) a float32 subset."""
        rng = self.rng
        out = []
        kinds = ['QU', 'IQU', 'IQUV', 'I']
        bases = [(4,), (6,), (2, 3), (3, 2)]
        fkinds = list(FOREIGN)
        singles = [[('R', 1)], [('RT', 1)], [('RI', 1)], [('H', 0)], [('HI', 0)], [('P', 0)], [('PT', 0)]]
        segs = [
            [('RT', 1), ('H', 0), ('R', 1)], [('H', 0), ('R', 1)], [('R', 1), ('H', 0)], [('H', 0), ('RT', 1)], [('P', 0), ('R', 1)],
            [('P', 0), ('RT', 1), ('H', 0), ('R', 1)], [('R', 1), ('R', 2)], [('RT', 1), ('R', 1)], [('RI', 1), ('R', 1)], [('R', 1), ('RI', 1)],
            [('R', 1), ('RT', 2)], [('RT', 1), ('RT', 2), ('H', 0)], [('P', 0), ('H', 0)], [('RT', 1), ('PT', 0)], [('R', 1), ('H', 0), ('PT', 0)],
            [('P', 0), ('R', 1), ('PT', 0)], [('RI', 1), ('H', 0), ('R', 2)], [('H', 0), ('H', 0)],
        ]

        def make(left, seg, right, x64=True, key='mixed', n=0):
            for attempt in range(8):
                c = self.mixed_case(kinds[(n + attempt) % (4 if n % 7 == 0 else 3)], bases[(n + attempt) % 4] if attempt else rng.choice(bases),
                                    left, seg, right, x64=x64, key=key)
                if c is not None:
                    out.append(c)
                    return

        n = 0
        reps = 1 if quick else 3
        for seg in singles:
            for f in fkinds:
                if quick and seg[0][0] == 'HI' and f not in ('pack', 'packT', 'indexT', 'diagI', 'reshapeT'):
                    continue  # the conjugate-gradient applications of hwp.I cost ~1 s per case
                for _ in range(reps):
                    n += 1
                    make([f], seg, [], n=n)
                    n += 1
                    make([], seg, [f], n=n)
        for seg in segs:
            for _ in range(5 if quick else 25):
                n += 1
                nl, nr = rng.choice(((1, 0), (0, 1), (1, 1), (2, 1), (1, 2), (2, 0), (0, 2)))
                make([rng.choice(fkinds) for _ in range(nl)], seg, [rng.choice(fkinds) for _ in range(nr)], n=n)
        for _ in range(30 if quick else 200):
            n += 1
            seg = rng.choice(singles[:4] + singles[5:] + segs)
            nl, nr = rng.choice(((1, 0), (0, 1), (1, 1)))
            make([rng.choice(fkinds) for _ in range(nl)], seg, [rng.choice(fkinds) for _ in range(nr)], x64=False, key='mixed-f32', n=n)
        return out

    def pick_ak(self, ashape, akp):
        """How the angle operand is given to furax: akp 'jax' / 'np' / 'py' fixed ('py' only for scalars),
        'mix': NumPy 45 %, jax 40 %, Python float 15 % of the scalar ones."""
        if akp == 'py':
            return 'py' if tuple(ashape) == () else 'np'
        if akp != 'mix':
            return akp
        r = self.rng.random()
        if tuple(ashape) == () and r < 0.15:
            return 'py'
        return 'np' if r < 0.55 else 'jax'

    def chain_case(self, pattern, stokes, shape, mode, share=0.3, x64=True, turns=False, key=None, akp='mix', alias=0.2, via='list'):
        """pattern: tuple over 'R','RT','H','P'; rotations draw angle arrays of random admissible shapes; with
        probability `share` a rotation reuses an earlier QURotationOperator object (same identity and angles);
        with probability `alias` a NEW rotation object is built on an earlier angle operand (same array object)."""
        rng = self.rng
        ops = []
        objs = []
        arrays = []
        for t in pattern:
            if t in ('R', 'RT'):
                if objs and rng.random() < share:
                    oid, aid, ak, ang = rng.choice(objs)
                else:
                    if arrays and rng.random() < alias:
                        aid, ak, ang = rng.choice(arrays)
                    else:
                        ashape = rng.choice(SHAPES[tuple(shape)])
                        ang = self.rand_arr(ashape, mode, turns)
                        aid = len(arrays) + 1
                        ak = self.pick_ak(ashape, akp)
                        arrays.append((aid, ak, ang))
                    oid = len(objs) + 1
                    objs.append((oid, aid, ak, ang))
                ops.append({'t': t, 'id': oid, 'aid': aid, 'ak': ak, 'ang': ang})
            else:
                ops.append({'t': t})
        extra = {} if via == 'list' else {'via': via}  # built with `@` (left- / right-nested) instead of CompositionOperator([...])
        return self.mk_case('chain', stokes, shape, ops=ops, pattern=','.join(pattern), x64=x64,
                            key=key or ('chain:' + ','.join(pattern)), **extra)

    def seq_case(self, stokes, shape, mode, akp, nsteps, x64=True, key='seq'):
        """Several chains and factories over a SHARED pool: 1-3 angle operands, rotation objects built on them
        (two objects may hold the same operand), 2-5 steps each a chain of length 1-4 over the pool (optional
        polariser in front) or a factory called with a pool operand."""
        rng = self.rng
        narr = rng.randint(1, 3)
        arrays = []
        for aid in range(1, narr + 1):
            ashape = rng.choice(SHAPES[tuple(shape)])
            arrays.append((aid, self.pick_ak(ashape, akp), self.rand_arr(ashape, mode, turns=(rng.random() < 0.2))))
        rots = [(i, arrays[i - 1]) for i in range(1, narr + 1)]
        for _ in range(rng.randint(0, 2)):
            rots.append((len(rots) + 1, rng.choice(arrays)))
        steps = []
        for _ in range(nsteps):
            if rng.random() < 0.25:
                aid, ak, ang = rng.choice(arrays)
                steps.append({'which': rng.choice(('hwp', 'pol', 'rot')), 'aid': aid, 'ak': ak, 'ang': ang})
                continue
            ops = [{'t': 'P'}] if rng.random() < 0.2 else []
            n = rng.randint(1, 4)
            for _ in range(n):
                if rng.random() < 0.25:
                    ops.append({'t': 'H'})
                else:
                    oid, (aid, ak, ang) = rng.choice(rots)
                    ops.append({'t': rng.choice(('R', 'RT')), 'id': oid, 'aid': aid, 'ak': ak, 'ang': ang})
            r = rng.random()
            steps.append({'ops': ops} if r < 0.6 else {'ops': ops, 'via': 'matmul' if r < 0.8 else 'rmatmul'})
        return self.mk_case('seq', stokes, shape, steps=steps, x64=x64, key=key)

    def cases(self):
        quick = self.tier == 'quick'
        rng = self.rng
        cases = []
        kinds = ['I', 'QU', 'IQU', 'IQUV']

        # -- A. single operators: kinds x component shapes x angle shapes x {axis, generic} ------------
        for stokes in kinds:
            for shape, ashapes in SHAPES.items():
                for t in ('H', 'P'):
                    cases.append(self.mk_case('mv', stokes, shape, ops=[{'t': t}], key=f'mv:{t}'))
                for ashape in ashapes:
                    for mode in ('axis', 'gen'):
                        for t in ('R', 'RT'):
                            arr = self.rand_arr(ashape, mode, turns=(mode == 'gen' and rng.random() < 0.5))
                            ak = self.pick_ak(ashape, 'mix')
                            cases.append(self.mk_case('mv', stokes, shape, ops=[{'t': t, 'id': 1, 'ak': ak, 'ang': arr}], key=f'mv:{t}'))
        # every multiple of pi/4 in [-2pi, 2pi] as a scalar angle, exact values
        for k in range(-8, 9):
            arr = {'shape': [], 'cs': [list(AXIS[k % 4])], 'turns': [(k - (k % 4)) // 4]}
            for t in ('R', 'RT'):
                cases.append(self.mk_case('mv', 'IQUV', (3,), ops=[{'t': t, 'id': 1, 'ak': ('jax', 'np', 'py')[k % 3], 'ang': arr}], key=f'mv:{t}'))

        # -- B. chains over {R, RT, H} with an optional polariser in front ------------------------------
        maxlen = 4 if quick else 5
        patterns = []
        for n in range(1, maxlen + 1):
            for body in itertools.product(('R', 'RT', 'H'), repeat=n):
                patterns.append(body)
            for body in itertools.product(('R', 'RT', 'H'), repeat=n - 1):
                patterns.append(('P',) + body)
        shapes = list(SHAPES)
        for pat in patterns:
            for stokes in kinds:
                # quick: one generic and one axis case per (chain, kind) for length <= 3, and for length 4 on QU/IQU
                if quick and len(pat) == 4 and stokes in ('I', 'IQUV') and rng.random() < 0.75:
                    continue
                for mode in ('gen', 'axis'):
                    shape = rng.choice(shapes[1:3]) if quick else rng.choice(shapes)
                    cases.append(self.chain_case(pat, stokes, shape, mode, turns=(rng.random() < 0.2)))
                if not quick:
                    for _ in range(2):
                        cases.append(self.chain_case(pat, stokes, rng.choice(shapes), 'mix', share=0.5, turns=True))
                # the same words built with `@` (identity shortcuts of __matmul__ / __rmatmul__ on construction)
                if 2 <= len(pat) <= (3 if quick else 4):
                    for via in ('matmul', 'rmatmul'):
                        cases.append(self.chain_case(pat, stokes, rng.choice(shapes[1:3]), 'gen', share=0.5, via=via,
                                                     key=f'{via}:' + ','.join(pat)))
        # same-object patterns (InverseBinaryRule, the factory shape) on every kind
        same = [
            [('RT', 1), ('R', 1)], [('R', 1), ('RT', 1)], [('R', 1), ('R', 1)], [('RT', 1), ('RT', 1)],
            [('RT', 1), ('R', 2)], [('R', 1), ('RT', 2)],
            [('RT', 1), ('H', 0), ('R', 1)], [('R', 1), ('H', 0), ('RT', 1)], [('P', 0), ('RT', 1), ('H', 0), ('R', 1)],
            [('H', 0), ('R', 1), ('RT', 1), ('H', 0)], [('RT', 1), ('R', 1), ('RT', 1), ('R', 1)],
            [('R', 1), ('RT', 2), ('R', 2), ('RT', 1)],
        ]
        for pat in same:
            for stokes in kinds:
                for mode, akp, via in (('gen', 'np', 'list'), ('axis', 'mix', 'list'), ('gen', 'jax', 'list'),
                                       ('gen', 'mix', 'matmul'), ('gen', 'mix', 'rmatmul')):
                    shape = rng.choice(shapes[1:3])
                    angs = {}
                    ops = []
                    for t, i in pat:
                        if t in ('R', 'RT'):
                            if i not in angs:
                                ashape = rng.choice(SHAPES[shape])
                                angs[i] = (self.pick_ak(ashape, akp), self.rand_arr(ashape, mode))
                            ops.append({'t': t, 'id': i, 'aid': i, 'ak': angs[i][0], 'ang': angs[i][1]})
                        else:
                            ops.append({'t': t})
                    name = ','.join(f'{t}{i or ""}' for t, i in pat)
                    extra = {} if via == 'list' else {'via': via}
                    cases.append(self.mk_case('chain', stokes, shape, ops=ops, pattern=name,
                                              key=('same:' if via == 'list' else f'same-{via}:') + name, **extra))
        # every word of length <= 3 (quick: <= 2 on every kind, 3 on a seeded kind) with ALL operands NumPy arrays
        # (resp. Python floats), once with distinct angle operands and once with ONE operand shared by all the rotation objects
        for pat in patterns:
            if len(pat) > 3 or not any(t in ('R', 'RT') for t in pat):
                continue
            for stokes in (kinds if (len(pat) <= 2 or not quick) else [rng.choice(kinds[1:])]):
                for akp, alias in (('np', 0.0), ('np', 1.0), ('py', 0.0)):
                    shape = () if akp == 'py' else rng.choice(shapes[1:3])
                    cases.append(self.chain_case(pat, stokes, shape, 'gen', share=0.0, akp=akp, alias=alias,
                                                 key=f'{akp}{"-aliased" if alias else ""}:' + ','.join(pat)))
        # longer chains, sampled
        for _ in range(40 if quick else 600):
            n = rng.randint(5, 6 if quick else 8)
            pat = tuple(rng.choice(('R', 'RT', 'H')) for _ in range(n))
            if rng.random() < 0.4:
                pat = ('P',) + pat
            cases.append(self.chain_case(pat, rng.choice(kinds), rng.choice(shapes), rng.choice(('gen', 'axis', 'mix')),
                                         share=0.4, turns=(rng.random() < 0.3), key='long-chain'))
        # not composable (a polariser that is not first): both sides must fail to apply, reduce() still acts
        for pat in [('R', 'P'), ('H', 'P'), ('P', 'P'), ('RT', 'P', 'H'), ('P', 'H', 'P', 'H'), ('R', 'R', 'P')]:
            cases.append(self.chain_case(pat, 'IQU', (3,), 'gen', key='noncomposable'))

        # -- C. factories -----------------------------------------------------------------------
        for stokes in kinds:
            for shape, ashapes in SHAPES.items():
                for which in ('hwp', 'pol'):
                    cases.append(self.mk_case('factory', stokes, shape, which=which, ang=None, key=f'factory:{which}'))
                for ashape in ashapes:
                    for mode, akp in (('gen', 'jax'), ('gen', 'np'), ('axis', 'mix')):
                        if quick and mode == 'axis' and rng.random() < 0.5:
                            continue
                        for which in ('hwp', 'pol', 'rot'):
                            arr = self.rand_arr(ashape, mode, turns=(rng.random() < 0.3))
                            cases.append(self.mk_case('factory', stokes, shape, which=which, ang=arr,
                                                      ak=self.pick_ak(ashape, akp), key=f'factory:{which}'))
                if () in ashapes:
                    for which in ('hwp', 'pol', 'rot'):
                        cases.append(self.mk_case('factory', stokes, shape, which=which, ang=self.rand_arr((), 'gen', turns=True),
                                                  ak='py', key=f'factory:{which}'))

        # -- E. operation sequences on shared rotation objects / shared angle operands -----------------
        # systematic: two rotation objects a, b (NumPy operands; distinct arrays or ONE array), two chains over them
        kk = 0
        for t1, t2, t3, t4 in itertools.product(('R', 'RT'), repeat=4):
            for shared in (False, True):
                stokes = kinds[1:][kk % 3]
                kk += 1
                shape = shapes[1 + kk % 2]
                ash = rng.choice(SHAPES[shape])
                A = (1, 'np', self.rand_arr(ash, 'gen'))
                B = A if shared else (2, 'np', self.rand_arr(rng.choice(SHAPES[shape]), 'gen'))

                def rot(t, oid, arr):
                    return {'t': t, 'id': oid, 'aid': arr[0], 'ak': arr[1], 'ang': arr[2]}

                steps = [{'ops': [rot(t1, 1, A), rot(t2, 2, B)]}, {'ops': [rot(t3, 2, B), rot(t4, 1, A)]}]
                cases.append(self.mk_case('seq', stokes, shape, steps=steps, key='seq:two-chains'))
        # a chain and a factory, two factories, on ONE NumPy operand
        for which in ('hwp', 'pol', 'rot'):
            for stokes in kinds[1:]:
                shape = rng.choice(shapes[1:3])
                A = (1, 'np', self.rand_arr(rng.choice(SHAPES[shape]), 'gen'))
                f = {'which': which, 'aid': 1, 'ak': 'np', 'ang': A[2]}
                for t1, t2 in itertools.product(('R', 'RT'), repeat=2):
                    ch = {'ops': [{'t': t1, 'id': 1, 'aid': 1, 'ak': 'np', 'ang': A[2]}, {'t': t2, 'id': 2, 'aid': 1, 'ak': 'np', 'ang': A[2]}]}
                    cases.append(self.mk_case('seq', stokes, shape, steps=[ch, f] if rng.random() < 0.5 else [f, ch], key='seq:chain+factory'))
                for which2 in ('hwp', 'pol', 'rot'):
                    cases.append(self.mk_case('seq', stokes, shape, steps=[f, dict(f, which=which2)], key='seq:two-factories'))
        # sampled
        for _ in range(150 if quick else 1500):
            shape = rng.choice(shapes)
            cases.append(self.seq_case(rng.choice(kinds), shape, rng.choice(('gen', 'axis', 'mix')),
                                       rng.choice(('np', 'mix', 'mix')), rng.randint(2, 5)))
        for _ in range(15 if quick else 100):
            cases.append(self.seq_case(rng.choice(kinds[1:]), (2, 3), 'mix', 'mix', rng.randint(2, 4), x64=False, key='seq:f32'))

        # -- D. float32 mode (x64 off), tolerance 2e-5 ---------------------------------------------
        pats32 = [p for p in patterns if len(p) <= (2 if quick else 3)]
        for pat in pats32:
            stokes = rng.choice(kinds) if quick else None
            for st in ([stokes] if stokes else kinds):
                cases.append(self.chain_case(pat, st, (2, 3), 'mix', x64=False, key='f32:' + ','.join(pat)))
        # -- F. angle dtype x data dtype x x64 mode x angle magnitude (1e-6 .. 1e6 rad) ------------------
        cases += self.dtype_cases(quick)
        # -- H. stored-angle cases: large magnitudes at a tolerance without magnitude term ------------------
        cases += self.stored_cases(quick)
        # -- I. mixed chains: polarimetry segments between operators of other rule families ------------------
        cases += self.mixed_cases(quick)

        # -- G. dense forms: op.as_matrix() (and the generic one when the class overrides it), of the unreduced and of
        # the reduced operator, against the Mueller matrix in component-major order: every bare HWP / polariser, a quarter
        # of the single rotations and of the factories, half of the 1-operand chains, a fixed fraction of the longer chains
        # and of the dtype cases; one in 30 through the jitted path (0.3 - 1.2 s each), the others under jax.disable_jit()
        # (same furax code, the fori_loop of the generic as_matrix run step by step: 20 - 400 ms).
        nd = 0
        for k, c in enumerate(cases):
            kind, key = c['kind'], str(c.get('key', ''))
            if kind in ('seq', 'mixed') or key.startswith('noncomposable'):
                continue
            if key.startswith('dtype-'):
                every = 4
            elif key.startswith('stored-'):
                if kind == 'mv':
                    continue  # the dense forms of single rotations are covered at every magnitude by the dtype ladder
                every = 12
            elif kind == 'mv':
                every = 1 if c['ops'][0]['t'] in ('H', 'P') else 4
            elif kind == 'factory':
                every = 1 if c['ang'] is None else 4
            else:
                n = len(c['ops'])
                every = 2 if n == 1 else (4 if n == 2 else (5 if key.startswith('same') else (12 if n == 3 else 30)))
            if not quick:
                every = max(1, every // 2)
            if int(lib.case_id(c), 16) % every:  # a fixed pseudo-random fraction (no aliasing with the generators' loops)
                continue
            nd += 1
            c['dense'] = 'jit' if nd % 30 == 0 else 'eager'
        # group the float32 cases at the end so that each worker toggles the mode rarely
        cases.sort(key=lambda c: not c['x64'])
        return cases

    # ------------------------------------------------------------------------------------------
    def run_impl(self, case):
        obs = run_case(case)
        case['_raw'] = obs
        return obs

    def step_term(self, case, step):
        sh = clist(case['shape'], lib.cnat)
        x = x_coq(case['x'], case.get('xden', 1))
        if 'ops' in step:
            l = clist(step['ops'], op_coq)
        else:
            a = 'None' if step['ang'] is None else f'(Some {arr_coq(step["ang"])})'
            which = step['which']
            if which == 'hwp':
                l = f'(hwp_create 1%N {a})'
            elif which == 'pol':
                l = f'(pol_create 1%N {a})'
            else:
                l = f'(rot_create 1%N {arr_coq(step["ang"])})'
        return f'(let l : list xpop := {l} in (map show_op l, x_observe {sh} l {x}))'

    def model_term(self, case):
        sh = clist(case['shape'], lib.cnat)
        x = x_coq(case['x'], case.get('xden', 1))
        kind = case['kind']
        if kind == 'mv':
            op = op_coq(case['ops'][0])
            t = case['ops'][0]['t']
            if t == 'R':
                tr = op_coq(dict(case['ops'][0], t='RT'))
                return (f'(show_val (x_mv {sh} {op} {x}), show_val (x_mv {sh} {tr} {x}))')
            return f'(show_val (x_mv {sh} {op} {x}), 0)'
        if kind in ('chain', 'factory', 'seq'):
            return clist([self.step_term(case, st) for st in case_steps(case)])
        if kind == 'mixed':
            # the model evaluates and reduces the polarimetry SEGMENT on the input transported exactly through the right-hand
            # neighbours (integers scaled by powers of two); None: the segment holds hwp.I / polarizer.T (not in the model)
            split = mixed_model_segment(case)
            if split is None:
                return None
            left, seg, right = split
            comps = exact_leaves(case['x'], case['shape'])
            for d in reversed(right):
                comps = [foreign_apply(d, a) for a in comps]
            vals = [[Fraction(v) for v in a.ravel().tolist()] for a in comps]
            den = 1
            for l in vals:
                for v in l:
                    den = den * v.denominator // math.gcd(den, v.denominator)
            sub = {'shape': seg[-1]['sh'], 'x': [[int(v * den) for v in l] for l in vals], 'xden': den}
            return clist([self.step_term(sub, {'ops': seg})])
        raise ValueError(kind)

    def decode(self, case, v):
        kind = case['kind']
        if kind == 'mv':
            y, yt = v
            t = case['ops'][0]['t']
            obs = {'y': dec_value(y), 'y_again': dec_value(y), 'mutated': []}
            if case.get('dense'):
                obs['dense_x'] = dec_value(y)
            if t == 'R':
                obs.update(tt=dec_value(y), inv=dec_value(yt), t=dec_value(yt))
            if t == 'H':
                obs['t'] = dec_value(y)  # HWPOperator is @diagonal: .T is the operator itself
        elif kind in ('chain', 'factory'):
            obs = dec_step(v[0], case_steps(case)[0], case.get('dense'))
            obs['mutated'] = []
        elif kind == 'mixed':
            left, seg, right = mixed_model_segment(case)
            obs = dec_step(v[0], {'ops': seg})
            for k in ('before', 'again', 'after', 'after2', 'after1_again'):
                obs[k] = transport(obs[k], seg[0]['sh'], left)
            obs['mutated'] = []
            return snap(obs, self.comparable(case, unfloat(case.get('_raw'))), case['tol'])
        else:
            obs = {'steps': [dec_step(s, st) for s, st in zip(v, case['steps'])], 'mutated': []}
        return snap(obs, unfloat(case.get('_raw')), case['tol'])

    def comparable(self, case, obs):
        if not isinstance(obs, dict):
            return obs
        if case['kind'] == 'mv':
            return {k: v for k, v in obs.items() if k not in MATRIX_KEYS}
        steps = case_steps(case)
        if case['kind'] == 'mixed':
            # structure: the polarimetry entries only (the neighbours may legitimately cancel among themselves)
            o = strip_step(obs, steps[0])
            for k in STRUCT_KEYS:
                if isinstance(o.get(k), list):
                    o[k] = [e for e in o[k] if not (isinstance(e, (list, tuple)) and e and isinstance(e[0], str))]
            return o
        if case['kind'] == 'seq':
            obs = dict(obs)
            if isinstance(obs.get('steps'), list) and len(obs['steps']) == len(steps):
                obs['steps'] = [strip_step(r, st) if isinstance(r, dict) else r for r, st in zip(obs['steps'], steps)]
            return obs
        return strip_step(obs, steps[0])

    def nontrivial(self, case, obs):
        if not isinstance(obs, dict):
            return False
        if case['kind'] == 'mv':
            return case['ops'][0]['t'] != 'H' or case['stokes'] != 'I'
        steps = case_steps(case)
        res = obs.get('steps') if case['kind'] == 'seq' else [obs]
        return any(isinstance(r, dict) and r.get('reduced') is not None and len(r['reduced']) != len(step_ops(st))
                   for st, r in zip(steps, res or []))

    def finding_key(self, case, obs):
        return case.get('key')

    def distribution(self, cases):
        d: dict = {}
        for c in cases:
            k = f"{c['kind']}/{c['stokes']}/{'x64' if c['x64'] else 'f32'}"
            d[k] = d.get(k, 0) + 1
            if c.get('dense'):
                k = f"dense-{c['dense']}/{c['kind']}"
                d[k] = d.get(k, 0) + 1
            if c['kind'] == 'mixed':
                k = 'mixed/' + ('model' if mixed_model_segment(c) else 'oracle-only')
                d[k] = d.get(k, 0) + 1
                for o in c['ops']:
                    if o['t'] in FOREIGN:
                        d['mixed-neighbour/' + o['t']] = d.get('mixed-neighbour/' + o['t'], 0) + 1
            if 'dd' in c:
                aks = sorted({o.get('ak', 'jax') for st in (case_steps(c) if c['kind'] != 'mv' else [{'ops': c['ops']}])
                              for o in ([st] if 'which' in st else st['ops']) if 'ak' in o or 'which' in st})
                k = f"{'stored' if c.get('stored') else 'dtype'}/{'x64' if c['x64'] else 'x32'}/data-{c['dd']}/angles-{'+'.join(aks)}"
                d[k] = d.get(k, 0) + 1
        return d

    def rule(self):
        return ('single operators: 4 Stokes kinds x 4 component shapes x every admissible angle shape (scalar, '
                'matching, (n,1), (1,m), lower rank) x {multiples of pi/4, Pythagorean angles, +k*pi turns}; chains: ALL '
                'words of length <= 4 (thorough: <= 5) over {R(a), R(b).T, HWP} with an optional polariser in front, per Stokes kind '
                '(quick: a seeded quarter of the length-4 words on I and IQUV), '
                'with seeded angle arrays / shared rotation objects, plus same-object patterns, sampled longer chains, '
                'non-composable chains; the three factories; a float32 subset.  Angle operands are given as jax arrays, NumPy '
                'arrays (mutable) or Python floats (scalars), distinct rotation objects may hold ONE angle operand; every word of '
                'length <= 2 (one seeded kind for length 3; thorough: <= 3 on every kind) is also run with all-NumPy operands, '
                'distinct and aliased, and with Python floats; every word of length 2-3 (thorough 2-4) and the same-object patterns '
                'are also built with `@` (left- and right-nested) instead of CompositionOperator([...]).  '
                'Sequences: 2-5 chains / factory calls over a shared pool of rotation objects and angle operands (all 16 pairs of '
                '2-chains over two objects, chain+factory and factory+factory on one NumPy operand, plus sampled).  Every chain / '
                'factory / sequence is observed for purity (unreduced value and stored angles before and after reduce(), reduce() twice, '
                'bits of every angle operand).  dtype / magnitude ladder: x64 on/off x Stokes dtype f32/f64 x angle operand '
                'kind (jax float32 / float64, NumPy float32 / float64, Python float) x |a| in decades 1e-6 .. 1e6 rad (float32-known '
                'angles .. 1e3; thorough also 1e8): per rung a single R or R.T, a hwp or pol factory (thorough: all four) and a 2-3 '
                'operand chain whose other rotation has its own kind and magnitude; exact (cos 2a, sin 2a) throughout, derived '
                'tolerance.  Dense forms: as_matrix() (+ generic when overridden) of unreduced / reduced / transposed operators vs '
                'the component-major NumPy Mueller matrix on every bare HWP / polariser, a quarter of the single rotations and '
                'factories, and a fixed pseudo-random fraction of the chains and dtype cases.  Stored-angle ladder: the same modes / '
                'data dtypes / operand kinds at 1e2 .. 1e6 rad (thorough 1e0 .. 1e8) with grid angles k / 2^j exact in the operand dtype '
                '(scalars, random arrays, linear ramps), single R / R.T, hwp + pol / rot factories, explicit rotating-plate products and '
                '2-3 operand chains on one grid, tolerance 5e-6 / 1e-13 without magnitude term.  Mixed chains: every polarimetry operand '
                '(R, R.T, R.I, HWP, HWP.I, polariser, polariser.T) x every neighbour kind (pack, pack.T, index, index.T, diagonal, '
                'diagonal.I, reshape, reshape.T, ravel, ravel.T, moveaxis) x {left, right}, 18 segments of 2-4 operands with 0-2 seeded '
                'neighbours per side, a float32 subset; shapes (4,), (6,), (2,3), (3,2).  Distinct by canonical JSON of the case')

    # ------------------------------------------------------------------------------------------
    def oracle(self, case, obs):
        o = unfloat(obs)
        tol = case['tol']
        kind = case['kind']
        if not isinstance(o, dict):
            return f'no observation: {o!r}'
        if kind == 'mv':
            d = case['ops'][0]
            exp = np_expected([d], case['stokes'], case['shape'], x_values(case))
            if not close_value(o['y'], exp, tol):
                return f'{d["t"]}.mv(x) = {o["y"]} differs from its Mueller matrix applied to x = {exp}'
            if d['t'] == 'R':
                expt = np_expected([dict(d, t='RT')], case['stokes'], case['shape'], x_values(case))
                for k in ('t', 'inv'):
                    if not close_value(o[k], expt, tol):
                        return f'rotation .{"T" if k == "t" else "I"}.mv(x) = {o[k]} differs from the rotation by -a = {expt}'
                if not close_value(o['tt'], exp, tol):
                    return f'rotation .T.T.mv(x) = {o["tt"]} differs from the rotation = {exp}'
            if d['t'] == 'H' and not close_value(o['t'], exp, tol):
                return f'HWP.T.mv(x) = {o["t"]} differs from the (symmetric) HWP matrix applied to x = {exp}'
            if not close_value(o['y_again'], exp, tol):
                return f'{d["t"]}.mv(x) evaluated a second time = {o["y_again"]} differs from its Mueller matrix applied to x = {exp}'
            if o.get('mutated'):
                return f'angle arrays modified in place by mv / .T / .I: {o["mutated"]}'
            if case.get('dense'):
                msg = self.dense_oracle(f'{d["t"]}', [d], o, case, exp, '')
                if msg:
                    return msg
                ref = np_dense([d], case['stokes'], case['shape'])
                if ref is not None and not close_matrix(o.get('tdense'), ref.T, tol):
                    return (f'{d["t"]}.T.as_matrix() {("raised " + o["tdense_error"]) if o.get("tdense_error") else ""} is not the '
                            f'transposed Mueller matrix (component-major {list(ref.T.shape)}): {matrix_diff(o.get("tdense"), ref.T)}')
            return None
        if kind == 'seq':
            res = o.get('steps') or []
            steps = case['steps']
            if len(res) != len(steps):
                return f'no observation of the steps: {o!r}'
            for k, (st, r) in enumerate(zip(steps, res)):
                msg = self.step_oracle(f'step {k} of {len(steps)} ({step_name(st)})', st, r, case)
                if msg:
                    return msg
        else:
            (st,) = case_steps(case)
            msg = self.step_oracle(step_name(st), st, o, case)
            if msg:
                return msg
        if o.get('mutated'):
            return (f'angle arrays modified in place by mv / reduce() / the factories (bitwise different from their state at '
                    f'construction): {o["mutated"]}')
        return None

    def dense_oracle(self, what, ops, o, case, exp, prefix):
        """The dense forms of one operator: as_matrix() as resolved by its class, and (when that is an override) the
        generic AbstractLinearOperator.as_matrix, are the Mueller matrix in component-major (pytree-leaf) order, and the
        matrix applied to x is the value of the product on x."""
        tol = case['tol']
        ref = np_dense(ops, case['stokes'], case['shape'])
        if ref is None:
            return None
        red = 'reduce().' if prefix else ''
        for key, name in ((prefix + 'dense', f'{red}as_matrix()'), (prefix + 'gdense', f'AbstractLinearOperator.as_matrix({red[:-1] or "op"})')):
            if key.endswith('gdense') and key not in o and not o.get(key + '_error'):
                continue  # no override: the resolved method IS the generic one
            if o.get(key + '_error'):
                return f'{what}: {name} raised {o[key + "_error"]}'
            if not close_matrix(o.get(key), ref, tol):
                return (f'{what}: {name} is not the dense Mueller matrix of the product in component-major (pytree leaf) order, '
                        f'shape {list(ref.shape)}: {matrix_diff(o.get(key), ref)}')
        if exp is not None and not close_value(o.get(prefix + 'dense_x'), exp, tol):
            return (f'{what}: {red}as_matrix() @ flatten(x) = {o.get(prefix + "dense_x")} differs from the product of the Mueller '
                    f'matrices applied to x = {exp}')
        return None

    def step_oracle(self, what, step, o, case):
        """The property on one chain / factory: value = product of the Mueller matrices, before and after
        reduction - where `after` means every evaluation made after a reduce() was called: of the reduced
        operator, of the UNREDUCED operator, of a second reduce(), with the operands' stored angles unchanged."""
        tol = case['tol']
        ops = step_ops(step)
        if o.get('build_error'):
            return f'{what}: building the expression raised {o["build_error"]}'
        eexp = expected_expr(ops)
        if step.get('via', 'list') != 'list':
            eexp = o.get('expr')  # `@` may simplify on construction: only self-consistency of the structure
        elif not close_expr(o.get('expr'), eexp, tol):
            return f'{what}: built {brief(o.get("expr"))}, expected the product {brief(eexp)}'
        exp = np_expected(ops, case['stokes'], case['shape'], x_values(case))
        if exp is not None:  # else not composable: values are outside the property's domain (purity is not)
            if not close_value(o['before'], exp, tol):
                return f'{what}: mv(x) = {o["before"]} differs from the product of the Mueller matrices applied to x = {exp}'
            if o.get('reduced') is None:
                return f'{what}: reduce() raised {o.get("reduce_error")}'
            if not close_value(o['after'], exp, tol):
                return (f'{what}: after reduce() (-> {[e[:3] for e in o["reduced"]]}) mv(x) = {o["after"]} differs from the '
                        f'product of the Mueller matrices applied to x = {exp}')
            if case.get('dense'):
                msg = self.dense_oracle(what, ops, o, case, exp, '') or self.dense_oracle(what, ops, o, case, exp, 'r')
                if msg:
                    return msg
        if not close_expr(o.get('expr_again'), eexp, tol):
            return (f'{what}: after the reductions the UNREDUCED operator holds {brief(o.get("expr_again"))}; it was built as '
                    f'{brief(eexp)} (reduce() modified its operands)')
        if exp is not None:
            if not close_value(o['again'], exp, tol):
                return (f'{what}: the UNREDUCED operator evaluated after reduce() was called gives mv(x) = {o["again"]}, '
                        f'not the product of the Mueller matrices applied to x = {exp} (it gave {o["before"]} before)')
            if o.get('reduced2') is None:
                return f'{what}: the second reduce() raised {o.get("reduce_error2")}'
            if not close_value(o['after2'], exp, tol):
                return (f'{what}: a second reduce() (-> {brief(o["reduced2"])}, the first gave {brief(o["reduced"])}) has '
                        f'mv(x) = {o["after2"]}, not the product of the Mueller matrices applied to x = {exp}')
            if not close_value(o['after1_again'], exp, tol):
                return (f'{what}: the operator returned by the first reduce(), evaluated again after later reductions, gives '
                        f'mv(x) = {o["after1_again"]}, not {exp} (it gave {o["after"]} at first)')
        if not close_expr(o.get('reduced2'), o.get('reduced'), tol):
            return f'{what}: reduce() called twice gives {brief(o.get("reduced"))} then {brief(o.get("reduced2"))}'
        return None
