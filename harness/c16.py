"""C16 - the acquisition operator equals the explicit pointing model (partial: pixel lookup).

Real code: furax.projections.create_projection_operator, furax.instruments.sat.create_acquisition
(the operator as built is captured just before its .reduce()), (P.T @ P).reduce(), on HEALPix
landscapes of nside 1, 2, 4, the four Stokes kinds, 1-3 detectors with 1-3 directions each, 1-6 samples,
integer sky maps holding distinct primes.  Everything runs in worker subprocesses
(`python c16.py --worker`) with JAX_ENABLE_X64=1 (a few float32 cases with x64 disabled).

Model: coq/theories/Model/Acquisition.v (run_acq: exact rationals) fed with the IMPLEMENTATION's own pixel
table and with cos/sin of twice the position angles computed here in float64; the model of reduce()
(Model/Algebra.v) run on the chain gives the reduced skeletons and the multiplicity diagonal.
Comparison within the stated tolerance (the code evaluates trig functions): 1e-9 (x64), 1e-5 (float32),
relative to the largest map value.

Oracle (independent of the model): the closed NumPy formulas of the property, dense matrices included.

extra(): numerical cross-check (testing, not proof) of the unproved clause - the pixel table against an
independent NumPy Rz.Ry.Rz + healpy.vec2pix / ang2pix (ring ordering).
"""
from __future__ import annotations

import atexit
import json
import math
import os
import subprocess
import sys
from fractions import Fraction
from pathlib import Path

sys.path.insert(0, str(Path(__file__).parent))
sys.path.insert(0, str(Path(__file__).parent.parent / 'tools' / 'translate'))

import lib  # noqa: E402
from lib import PropertyCheck, Tie, clist, cnat, cz  # noqa: E402

STOKES = ['I', 'QU', 'IQU', 'IQUV']
KIND = {'I': 'SI', 'QU': 'SQU', 'IQU': 'SIQU', 'IQUV': 'SIQUV'}


def primes(n):
    out, k = [], 2
    while len(out) < n:
        if all(k % p for p in out if p * p <= k):
            out.append(k)
        k += 1
    return out


_PR = primes(4 * 12 * 16 * 2 + 8)


def sky_values(case):
    """Distinct primes, one per (component, flat pixel) of the map."""
    n = map_size(case)
    return [[_PR[c * n + p] for p in range(n)] for c in range(len(case['stokes']))]


def map_shape(case):
    npix = 12 * case['nside'] ** 2
    return [case['nfreq'], npix] if case.get('land') == 'frequency' else [npix]


def map_size(case):
    return math.prod(map_shape(case))


def trig(case):
    import numpy as np

    pa = np.array(case['pa'], dtype=np.float64)
    return np.cos(2 * pa), np.sin(2 * pa)


def tolerance(case):
    return (1e-9 if case.get('x64', True) else 1e-5) * (_PR[len(case['stokes']) * map_size(case)] + 1)


# ----------------------------------------------------------------------------------------------
# the real code (runs in the worker whose x64 mode matches the case)


def op_names(op):
    """Class names of a (flattened) chain; wrappers as Wrapper(inner)."""
    name = type(op).__name__
    if name == 'CompositionOperator':
        out = []
        for o in op.operands:
            out += op_names(o)
        return out
    inner = getattr(op, 'operator', None)
    if inner is not None and hasattr(inner, 'mv'):
        return [f'{name}({",".join(op_names(inner))})']
    return [name]


def build_inputs(case):
    import jax.numpy as jnp
    import numpy as np

    from furax.detectors import DetectorArray
    from furax.landscapes import FrequencyLandscape, HealpixLandscape, StokesPyTree
    from furax.samplings import Sampling

    dtype = np.dtype(case.get('dtype', 'float64'))
    if case.get('land') == 'frequency':
        land = FrequencyLandscape(case['nside'], jnp.arange(1.0, case['nfreq'] + 1.0), case['stokes'], dtype)
    else:
        land = HealpixLandscape(case['nside'], case['stokes'], dtype)
    samp = Sampling(jnp.asarray(np.array(case['theta'], dtype=np.float64)), jnp.asarray(np.array(case['phi'], dtype=np.float64)), jnp.asarray(np.array(case['pa'], dtype=np.float64)))
    det = DetectorArray(np.array(case['det_x'], dtype=np.float64), np.array(case['det_y'], dtype=np.float64), float(case.get('det_z', 1.0)))
    sky = StokesPyTree.from_stokes(*[jnp.asarray(np.array(v, dtype=dtype).reshape(land.shape)) for v in sky_values(case)])
    return land, samp, det, sky


def leaves(x):
    import jax
    import numpy as np

    return [np.asarray(leaf, dtype=np.float64).ravel().tolist() for leaf in jax.tree.leaves(x)]


def impl_case(case):
    import warnings

    import jax
    import numpy as np

    assert bool(jax.config.jax_enable_x64) == bool(case.get('x64', True)), 'x64 mode mismatch'
    with warnings.catch_warnings():
        warnings.simplefilter('ignore')
        if case['kind'] == 'pointing':
            return pointing_single(case)
        from furax._base.core import CompositionOperator
        from furax.instruments.sat import create_acquisition
        from furax.projections import create_projection_operator

        land, samp, det, sky = build_inputs(case)
        obs = {}
        try:
            P = create_projection_operator(land, samp, det)
        except Exception as e:  # an outcome of the code under test
            return {'error': type(e).__name__, 'where': 'create_projection_operator', 'msg': str(e)[:200]}
        idx = [o for o in getattr(P, 'operands', []) if type(o).__name__ == 'IndexOperator']
        if len(idx) != 1 or len(idx[0].indices) != 1:
            return {'error': 'unexpected-structure', 'where': 'create_projection_operator', 'msg': str(op_names(P))}
        table = np.asarray(idx[0].indices[0])
        obs['pix'] = table.ravel().tolist()
        obs['tod_shape'] = list(table.shape)
        obs['proj_names'] = op_names(P)
        obs['proj'] = leaves(P(sky))
        obs['proj_shape'] = [list(leaf.shape) for leaf in jax.tree.leaves(P.out_structure())]
        # the acquisition, as built (captured at the call of .reduce()) and as returned
        captured = []
        orig = CompositionOperator.reduce

        def recording_reduce(self):
            if not captured:
                captured.append(self)
            return orig(self)

        CompositionOperator.reduce = recording_reduce
        try:
            try:
                H = create_acquisition(land, samp, det)
            finally:
                CompositionOperator.reduce = orig
        except Exception as e:
            obs.update({'error': type(e).__name__, 'where': 'create_acquisition', 'msg': str(e)[:200]})
            return obs
        if not captured:
            obs.update({'error': 'unexpected-structure', 'where': 'create_acquisition', 'msg': 'no composition was reduced'})
            return obs
        built = captured[0]
        obs['built_names'] = op_names(built)
        obs['acq_names'] = op_names(H)
        obs['acq_built'] = leaves(built(sky))[0]
        obs['acq'] = leaves(H(sky))[0]
        obs['acq_shape'] = list(jax.tree.leaves(H.out_structure())[0].shape)
        if case.get('dense', True):
            obs['H_built'] = np.asarray(built.as_matrix(), dtype=np.float64).tolist()
            obs['H'] = np.asarray(H.as_matrix(), dtype=np.float64).tolist()
        try:
            ptp = P.T @ P
            red = ptp.reduce()
            obs['ptp'] = leaves(ptp(sky))
            obs['ptp_red'] = leaves(red(sky))
            obs['ptp_names'] = op_names(red)
            m = np.asarray(red.as_matrix(), dtype=np.float64)
            d = np.diag(m).copy()
            obs['ptp_diag'] = d.tolist()
            obs['ptp_offdiag'] = float(np.abs(m - np.diag(d)).max()) if m.size else 0.0
            if case.get('dense', True) and m.shape[0] <= 200:
                m0 = np.asarray(ptp.as_matrix(), dtype=np.float64)
                obs['ptp_built_diag'] = np.diag(m0).tolist()
                obs['ptp_built_offdiag'] = float(np.abs(m0 - np.diag(np.diag(m0))).max())
        except Exception as e:
            obs.update({'error': type(e).__name__, 'where': 'P.T @ P', 'msg': str(e)[:200]})
        return obs


# ----------------------------------------------------------------------------------------------
# independent pointing computation (NumPy + healpy), used by extra() and by 'pointing' replays


def reference_directions(theta, phi, pa, det_x, det_y, det_z):
    """Unit vectors R_z(phi) R_y(theta) R_z(pa) d for every detector direction d and sample:
    array (ndet, ndir, nsamp, 3)."""
    import numpy as np

    x = np.asarray(det_x, dtype=np.float64)
    y = np.asarray(det_y, dtype=np.float64)
    z = np.broadcast_to(np.float64(det_z), x.shape)
    d = np.stack([x, y, z], axis=-1)
    d = d / np.linalg.norm(d, axis=-1, keepdims=True)
    out = np.empty(d.shape[:2] + (len(theta), 3))
    for t, (th, ph, ps) in enumerate(zip(theta, phi, pa)):
        rz1 = np.array([[math.cos(ph), -math.sin(ph), 0], [math.sin(ph), math.cos(ph), 0], [0, 0, 1]])
        ry = np.array([[math.cos(th), 0, math.sin(th)], [0, 1, 0], [-math.sin(th), 0, math.cos(th)]])
        rz3 = np.array([[math.cos(ps), -math.sin(ps), 0], [math.sin(ps), math.cos(ps), 0], [0, 0, 1]])
        out[:, :, t, :] = d @ (rz1 @ ry @ rz3).T
    return out


def implementation_table(nside, theta, phi, pa, det_x, det_y, det_z):
    import jax.numpy as jnp
    import numpy as np

    from furax.detectors import DetectorArray
    from furax.landscapes import HealpixLandscape
    from furax.projections import create_projection_operator
    from furax.samplings import Sampling

    land = HealpixLandscape(nside, 'I')
    samp = Sampling(jnp.asarray(np.asarray(theta, dtype=np.float64)), jnp.asarray(np.asarray(phi, dtype=np.float64)), jnp.asarray(np.asarray(pa, dtype=np.float64)))
    det = DetectorArray(np.asarray(det_x, dtype=np.float64), np.asarray(det_y, dtype=np.float64), float(det_z))
    P = create_projection_operator(land, samp, det)
    idx = [o for o in P.operands if type(o).__name__ == 'IndexOperator'][0]
    table = np.asarray(idx.indices[0])
    ndet, ndir = np.asarray(det_x).shape
    return table.reshape(ndet, ndir, len(theta))


def near_boundary(nside, v, got, eps=1e-9):
    """Is the pixel `got` reached from direction v by a displacement of at most ~eps rad?"""
    import healpy as hp
    import numpy as np

    th, ph = hp.vec2ang(v)
    th, ph = float(th[0]), float(ph[0])
    s = max(math.sin(th), 1e-6)
    for dt in (-eps, 0.0, eps):
        for dp in (-eps / s, 0.0, eps / s):
            if int(hp.ang2pix(nside, float(np.clip(th + dt, 0, np.pi)), ph + dp)) == got:
                return True
    return False


def pointing_check(nsides, nrandom, seed):
    import healpy as hp
    import numpy as np

    rng = np.random.default_rng(seed)
    out = {'per_nside': {}, 'failures': [], 'directions': 0, 'boundary_mismatches': 0}
    special_theta = [0.0, np.pi, np.pi / 2, 1e-9, np.pi - 1e-9, np.arccos(2 / 3), np.arccos(-2 / 3)]
    special_phi = [0.0, np.pi / 2, np.pi, 3 * np.pi / 2, 2 * np.pi - 1e-12, np.pi / 4, -np.pi / 3, 7.0]
    for nside in nsides:
        stats = {'directions': 0, 'mismatches': 0, 'near_boundary': 0, 'by_class': {}}
        batches = []
        for ndir in (1, 3):
            n = nrandom
            batches.append(('random', np.arccos(rng.uniform(-1, 1, n)), rng.uniform(0, 2 * np.pi, n), rng.uniform(0, 2 * np.pi, n), ndir))
        th = np.repeat(special_theta, len(special_phi))
        ph = np.tile(special_phi, len(special_theta))
        batches.append(('pole-meridian', th, ph, rng.uniform(0, 2 * np.pi, th.size), 1))
        batches.append(('pole-meridian', th, ph, np.zeros(th.size), 3))
        # pixel centres and pixel corners as boresight, detector on the boresight
        npix = 12 * nside * nside
        sel = np.arange(npix) if npix <= 768 else rng.integers(0, npix, 768)
        tc, pc = hp.pix2ang(nside, sel)
        batches.append(('pixel-centre', tc, pc, rng.uniform(0, 2 * np.pi, tc.size), 1))
        for name, theta, phi, pa, ndir in batches:
            ndet = 3
            if name == 'pixel-centre':
                det_x = np.zeros((1, 1))
                det_y = np.zeros((1, 1))
            else:
                det_x = rng.uniform(-0.4, 0.4, (ndet, ndir))
                det_y = rng.uniform(-0.4, 0.4, (ndet, ndir))
                det_x[0, 0] = det_y[0, 0] = 0.0  # one detector on the boresight
            got = implementation_table(nside, theta, phi, pa, det_x, det_y, 1.0)
            v = reference_directions(theta, phi, pa, det_x, det_y, 1.0)
            exp = hp.vec2pix(nside, v[..., 0], v[..., 1], v[..., 2])
            exp2 = hp.ang2pix(nside, np.arccos(np.clip(v[..., 2], -1, 1)), np.arctan2(v[..., 1], v[..., 0]))
            stats['directions'] += int(got.size)
            bad = np.argwhere((got != exp) & (got != exp2))
            for d, m, t in bad:
                stats['mismatches'] += 1
                stats['by_class'][name] = stats['by_class'].get(name, 0) + 1
                if near_boundary(nside, v[d, m, t], int(got[d, m, t])):
                    stats['near_boundary'] += 1
                elif len(out['failures']) < 5:
                    c = {'kind': 'pointing', 'nside': int(nside), 'theta': [float(theta[t])], 'phi': [float(phi[t])], 'pa': [float(pa[t])],
                         'det_x': [[float(det_x[d, m])]], 'det_y': [[float(det_y[d, m])]], 'det_z': 1.0, 'x64': True, 'class': name}  # fmt: skip
                    out['failures'].append({'case': c, 'observation': {'pix': int(got[d, m, t]), 'healpy_vec2pix': int(exp[d, m, t]), 'healpy_ang2pix': int(exp2[d, m, t])},
                                            'oracle': f'pixel table entry {int(got[d, m, t])} but the independent Rz.Ry.Rz + healpy computation gives {int(exp[d, m, t])} (nside={nside}, {name}; not within 1e-9 rad of a pixel boundary)', 'key': 'pixel-table-differs-from-independent-pointing'})  # fmt: skip
        out['per_nside'][str(nside)] = stats
        out['directions'] += stats['directions']
        out['boundary_mismatches'] += stats['near_boundary']
    return out


def pointing_single(case):
    import healpy as hp
    import numpy as np

    got = implementation_table(case['nside'], case['theta'], case['phi'], case['pa'], case['det_x'], case['det_y'], case['det_z'])
    v = reference_directions(case['theta'], case['phi'], case['pa'], case['det_x'], case['det_y'], case['det_z'])
    exp = hp.vec2pix(case['nside'], v[..., 0], v[..., 1], v[..., 2])
    g, e = int(got.ravel()[0]), int(np.ravel(exp)[0])
    return {'pix': g, 'healpy_vec2pix': e, 'near_boundary': bool(g != e and near_boundary(case['nside'], v.reshape(-1, 3)[0], g))}


# ----------------------------------------------------------------------------------------------
# worker processes


def worker_main():
    out = sys.stdout
    sys.stdout = sys.stderr
    try:  # XLA compilation dominates the run time: keep compiled executables between runs
        import jax

        cache = lib.WORK / 'jax-cache-C16'
        cache.mkdir(parents=True, exist_ok=True)
        jax.config.update('jax_compilation_cache_dir', str(cache))
        jax.config.update('jax_persistent_cache_min_compile_time_secs', 0)
        jax.config.update('jax_persistent_cache_min_entry_size_bytes', -1)
    except Exception:
        pass
    for line in sys.stdin:
        req = json.loads(line)
        try:
            if req['op'] == 'case':
                res = {'ok': impl_case(req['case'])}
            elif req['op'] == 'pointing':
                res = {'ok': pointing_check(req['nsides'], req['nrandom'], req['seed'])}
            else:
                res = {'err': 'unknown op'}
        except Exception as e:
            import traceback

            res = {'err': f'{type(e).__name__}: {e}', 'tb': traceback.format_exc()[-1500:]}
        out.write(json.dumps(res) + '\n')
        out.flush()


_workers: dict = {}


NSLOTS = 3


def worker(x64: bool, slot: int = 0):
    x64 = (bool(x64), slot)
    if x64 not in _workers:
        env = dict(os.environ)
        env['JAX_ENABLE_X64'] = '1' if x64[0] else '0'
        env['PYTHONPATH'] = str(lib.REPO / 'src')
        env['JAX_PLATFORMS'] = 'cpu'
        p = subprocess.Popen([sys.executable, str(Path(__file__).resolve()), '--worker'], stdin=subprocess.PIPE, stdout=subprocess.PIPE, stderr=subprocess.DEVNULL, text=True, env=env)  # fmt: skip
        _workers[x64] = p
        atexit.register(p.kill)
    return _workers[x64]


def ask(x64: bool, req: dict, slot: int = 0):
    p = worker(x64, slot)
    p.stdin.write(json.dumps(req) + '\n')
    p.stdin.flush()
    line = p.stdout.readline()
    if not line:
        raise RuntimeError('worker died')
    res = json.loads(line)
    if 'err' in res:
        raise RuntimeError(res['err'] + '\n' + res.get('tb', ''))
    return res['ok']


# ----------------------------------------------------------------------------------------------
# the property, stated independently of the Coq model


def expected(case, pix):
    """Closed formulas of C16 given the pixel table: projection leaves, acquisition, hits, dense H."""
    import numpy as np

    stokes = case['stokes']
    n = map_size(case)
    sky = {s: np.array(v, dtype=np.float64) for s, v in zip(stokes, sky_values(case))}
    c2, s2 = trig(case)
    pix = np.asarray(pix, dtype=np.int64)
    nsamp = len(case['pa'])
    t = np.arange(pix.size) % nsamp
    c, s = c2[t], s2[t]
    zero = np.zeros(n)
    I, Q, U = (sky.get(k, zero)[pix] for k in 'IQU')
    proj = []
    for k in stokes:
        proj.append({'I': I, 'Q': Q * c - U * s, 'U': Q * s + U * c, 'V': sky.get('V', zero)[pix]}[k])
    acq = 0.5 * (I + Q * c - U * s)
    hits = np.bincount(pix, minlength=n).astype(np.float64)
    H = np.zeros((pix.size, len(stokes) * n))
    rows = np.arange(pix.size)
    for ci, k in enumerate(stokes):
        w = {'I': np.full(pix.size, 0.5), 'Q': 0.5 * c, 'U': -0.5 * s, 'V': np.zeros(pix.size)}[k]
        H[rows, ci * n + pix] = w
    return proj, acq, hits, H


_FRAC = __import__('re').compile(r'^-?\d+/\d+$')


def unfrac(x):
    """Inverse of lib.canon on numbers: 'num/den' strings back to floats."""
    if isinstance(x, str) and _FRAC.match(x):
        return float(Fraction(x))
    if isinstance(x, list):
        return [unfrac(i) for i in x]
    if isinstance(x, dict):
        return {k: unfrac(v) for k, v in x.items()}
    return x


def first_diff(a, b, tol):
    import numpy as np

    a = np.asarray(a, dtype=np.float64)
    b = np.asarray(b, dtype=np.float64)
    if a.shape != b.shape:
        return f'shape {list(a.shape)} vs {list(b.shape)}'
    bad = np.argwhere(~(np.abs(a - b) <= tol))
    if bad.size:
        i = tuple(int(k) for k in bad[0])
        return f'at {list(i)}: {float(a[i])} vs {float(b[i])}'
    return None


class Check(PropertyCheck):
    id = 'C16'
    props = ['C16.v']
    static_targets = ['theories/Lemmas/AcquisitionL.vo']
    coq_header = (
        'From Coq Require Import ZArith QArith List String.\n'
        'From Furax Require Import Model.Op Model.Algebra Model.Exec Model.Acquisition.\n'
        'Import ListNotations.\nOpen Scope string_scope.\n'
        'Definition obs_t (o : option acq_obs) := match o with Some o => Some (o_proj o, o_acq_built o, '
        'o_acq_reduced o, o_ptp_built o, o_ptp_reduced o, o_hits o) | None => None end.\n'
        'Definition plain_names (r : result xop) : result (list string) := e <- r ;; Ok (names (skel e)).'
    )
    shard = 6
    partial = (
        'that the pixel table pix[d, m, t] is the HEALPix pixel containing the detector direction rotated by '
        'Rz(phi_t).Ry(theta_t).Rz(psi_t): vec2dir (arccos / arctan2 in floating point) and jax_healpy.ang2pix are '
        'outside the model; the theorems hold for an ARBITRARY pixel table and the table is cross-checked numerically '
        'only, against an independent NumPy rotation + healpy (numerical_tests_not_proof)'
    )
    trusted = [
        'translator tools/translate/euler.py (Python ast, fail closed): the nine entries of the jnp.array literal of '
        'get_rotation_matrix with the sin/cos and phi/theta/pa bindings resolved, and the einsum subscripts of '
        'create_projection_operator by their index meaning -> Gen/EulerMatrix.v, regenerated on every check',
        'JAX primitives as modelled in Model/Acquisition.v and compared by this harness: leaf[indices] with an integer '
        'array = gather of the flattened map; jax.linear_transpose of that gather = scatter-add into zeros; reshape keeps '
        'row-major order; broadcasting of the (nsamp,) angle array against the last axis; jnp.unique(size=n) + '
        '.at[].add (through coverage_of of Model/Algebra.v)',
        'floating point: the model computes in an exact commutative ring with an exact 1/2; the correspondence feeds it '
        'the float64 values of cos/sin(2 pa) as exact rationals and compares within 1e-9 (x64) / 1e-5 (float32) relative '
        'to the largest map value',
        'the model of reduce() (Model/Algebra.v, C01/C07) for the reduced skeletons and the multiplicity diagonal',
        'vec2dir, jax_healpy.ang2pix, DetectorArray normalisation (sqrt, division): NOT modelled; the pixel table is an '
        'input of the model',
        'correspondence harness harness/c16.py (case generators, the two printers of one case description, worker protocol, '
        'capture of the acquisition as built by wrapping CompositionOperator.reduce)',
    ]

    def __init__(self, tier, seed):
        super().__init__(tier, seed)
        self._obs = {}
        self._cases = None
        self._prefetched = False
        self.stats = {'samples_total': 0, 'multi_direction_cases': 0}

    # ---- translate -----------------------------------------------------------------------------
    def translate(self):
        import euler as tr

        tr.Tie = Tie
        text = tr.translate(lib.REPO)
        (self.gen_dir / 'EulerMatrix.v').write_text(text)
        self.stats['generated_sha1'] = __import__('hashlib').sha1(text.encode()).hexdigest()[:12]

    def gen_files(self):
        return ['EulerMatrix.v']

    # ---- cases ---------------------------------------------------------------------------------
    def pointing(self, rng, nsamp, style):
        pi = math.pi
        if style == 'exact':  # position angles whose doubled trig values are (nearly) exact
            pa = [rng.choice([0.0, pi / 4, pi / 2, 3 * pi / 4, pi, -pi / 4, 2 * pi]) for _ in range(nsamp)]
        elif style == 'pythagorean':  # cos 2pa = 3/5, sin 2pa = 4/5 and relatives
            pa = [rng.choice([1, -1]) * math.atan2(*rng.choice([(4, 3), (3, 4), (5, 12), (24, 7)])) / 2 for _ in range(nsamp)]
        else:
            pa = [rng.uniform(-pi, 2 * pi) for _ in range(nsamp)]
        if style == 'same-pixel':
            th, ph = math.acos(rng.uniform(-0.9, 0.9)), rng.uniform(0, 2 * pi)
            theta, phi = [th] * nsamp, [ph] * nsamp
        elif style == 'polar':
            theta = [rng.choice([0.0, pi, 1e-3, pi - 1e-3]) for _ in range(nsamp)]
            phi = [rng.choice([0.0, pi / 2, pi, 3 * pi / 2]) for _ in range(nsamp)]
        else:
            theta = [math.acos(rng.uniform(-1, 1)) for _ in range(nsamp)]
            phi = [rng.uniform(0, 2 * pi) for _ in range(nsamp)]
        return theta, phi, pa

    def one_case(self, rng, nside, stokes, ndet, ndir, nsamp, style, **kw):
        theta, phi, pa = self.pointing(rng, nsamp, style)
        spread = 0.02 if style == 'same-pixel' and nside <= 2 else 0.5
        det_x = [[round(rng.uniform(-spread, spread), 3) for _ in range(ndir)] for _ in range(ndet)]
        det_y = [[round(rng.uniform(-spread, spread), 3) for _ in range(ndir)] for _ in range(ndet)]
        det_x[0][0] = det_y[0][0] = 0.0
        c = {'kind': 'acq', 'nside': nside, 'stokes': stokes, 'ndet': ndet, 'ndir': ndir, 'style': style, 'theta': theta, 'phi': phi, 'pa': pa,
             'det_x': det_x, 'det_y': det_y, 'det_z': 1.0, 'x64': True, 'dtype': 'float64', 'dense': nside <= 2}  # fmt: skip
        c.update(kw)
        return c

    def cases(self):
        quick = self.tier == 'quick'
        rng = self.rng
        cases = []
        styles = ['exact', 'pythagorean', 'generic', 'same-pixel', 'polar']
        k = 0
        # every Stokes kind x nside x number of directions, detectors/samples/style cycling
        for nside in (1, 2, 4):
            for stokes in STOKES:
                for ndir in (1, 2, 3) if not quick else ((1, 3) if nside == 1 else (1, 2) if nside == 2 else (1,)):
                    ndet = 1 + k % 3
                    nsamp = 1 + (k * 5) % 6
                    cases.append(self.one_case(rng, nside, stokes, ndet, ndir, nsamp, styles[k % len(styles)]))
                    k += 1
        # seeded random beyond
        for _ in range(8 if quick else 120):
            nside = rng.choice([1, 1, 2, 2, 4])
            cases.append(self.one_case(rng, nside, rng.choice(STOKES), rng.randrange(1, 4), rng.choice([1, 1, 1, 2, 3]), rng.randrange(1, 7), rng.choice(styles)))
        # 2-d map (FrequencyLandscape): the Ravel stays in the reduced chain
        for stokes in ('IQU', 'I') if quick else STOKES:
            cases.append(self.one_case(rng, 1, stokes, 2, 1, 3, 'generic', land='frequency', nfreq=2))
        # float32 landscape with x64 disabled
        for stokes in ('IQU',) if quick else ('QU', 'IQU', 'IQUV'):
            cases.append(self.one_case(rng, 1, stokes, 2, 1, 3, 'exact', x64=False, dtype='float32'))
            cases.append(self.one_case(rng, 2, stokes, 2, 2, 4, 'generic', x64=False, dtype='float32'))
        self._cases = cases
        return cases

    def search_cases(self):
        other = type(self)('thorough', self.seed + 1)
        return other.cases()[:40]

    def rule(self):
        return (
            'acq: nside {1,2,4} x Stokes {I,QU,IQU,IQUV} x directions per detector {1,2,3} (quick: a subset), detectors '
            '1-3, samples 1-6, pointing styles {position angles k*pi/4, Pythagorean doubled angles, generic, every sample '
            'in one pixel, polar boresight}, + seeded random cases, + FrequencyLandscape (2-d map: Ravel kept), + float32 '
            'landscapes with x64 disabled; integer sky maps of distinct primes. Distinct by canonical JSON of the case.'
        )

    def nontrivial(self, case, obs):
        return isinstance(obs, dict) and 'error' not in obs and len(set(obs.get('pix', []))) >= 1

    def distribution(self, cases):
        d = {}
        for c in cases:
            key = f'{c["kind"]}/nside{c["nside"]}/{c["stokes"]}/ndir{c.get("ndir", 1)}' + ('' if c.get('x64', True) else '/x32') + ('/freq' if c.get('land') == 'frequency' else '')
            d[key] = d.get(key, 0) + 1
        return d

    # ---- implementation ------------------------------------------------------------------------
    def prefetch(self, cases):
        """Runs the cases of this tier on NSLOTS worker processes at once (the driver then asks one by one)."""
        from concurrent.futures import ThreadPoolExecutor

        todo = [c for c in cases if lib.case_id(c) not in self._obs]

        def run(slot):
            for c in todo[slot::NSLOTS]:
                try:
                    self._obs[lib.case_id(c)] = ask(bool(c.get('x64', True)), {'op': 'case', 'case': c}, slot)
                except Exception:
                    pass  # asked again (and reported) by run_impl

        with ThreadPoolExecutor(max_workers=NSLOTS) as ex:
            list(ex.map(run, range(NSLOTS)))

    def run_impl(self, case):
        cid = lib.case_id(case)
        if cid not in self._obs and case['kind'] == 'acq' and not self._prefetched:
            self._prefetched = True
            self.prefetch(self._cases or [])
        if cid not in self._obs:
            self._obs[cid] = ask(bool(case.get('x64', True)), {'op': 'case', 'case': case})
        return self._obs[cid]

    # ---- model ---------------------------------------------------------------------------------
    def model_term(self, case):
        obs = self._obs.get(lib.case_id(case))
        if case['kind'] != 'acq' or not isinstance(obs, dict) or 'pix' not in obs or 'error' in obs:
            return None
        c2, s2 = trig(case)
        cq = lambda v: lib.cq(Fraction(float(v)))  # noqa: E731
        pix = clist(obs['pix'], cnat)
        keep = 'true' if len(map_shape(case)) > 1 else 'false'
        kind = KIND[case['stokes']]
        ndet, ndir, nsamp = len(case['det_x']), len(case['det_x'][0]), len(case['pa'])
        mshape = clist(map_shape(case), cnat)
        tod = f'(tod_shape {cnat(ndet)} {cnat(ndir)} {cnat(nsamp)})'
        run = (
            f'obs_t (run_acq {kind} {keep} {cnat(map_size(case))} {cnat(nsamp)} {clist(c2, cq)} {clist(s2, cq)} {pix} '
            f'({clist(sky_values(case), lambda r: clist(r, cz))})%Z)'
        )
        return (
            f'({run}, {tod}, (plain_names (proj_op {kind} {mshape} {tod} {pix}), plain_names (acq_op {kind} {mshape} {tod} {pix})), reduced_names (acq_op {kind} {mshape} {tod} {pix}), '
            f'reduced_names (ptp_op {kind} {mshape} {tod} {pix}), reduced_diag (ptp_op {kind} {mshape} {tod} {pix}))'
        )

    def decode(self, case, v):
        run, tod, (pnames, bnames), anames, tnames, tdiag = v
        impl = self._obs.get(lib.case_id(case)) or {}
        tol = tolerance(case)

        def ok(x):
            name, args = lib.coqparse.ctor(x)
            if name != 'Ok':
                raise ValueError(f'model error {x!r}')
            return args[0]

        def snap(model_vals, impl_vals):
            """Model values (exact rationals) replaced by the implementation's floats where they agree within
            the stated tolerance, so that the driver's exact comparison implements the tolerance."""
            out = []
            for i, m in enumerate(model_vals):
                m = Fraction(m[0], m[1])
                f = impl_vals[i] if isinstance(impl_vals, list) and i < len(impl_vals) else None
                if isinstance(f, (int, float)) and abs(float(m) - f) <= tol:
                    out.append(f)
                else:
                    out.append(float(m))
            return out

        name, args = lib.coqparse.ctor(run)
        if name != 'Some':
            raise ValueError('model rejected the sky map')
        proj, built, red, ptp, ptpr, hits = args[0]
        diag = lib.coqparse.ctor(ok(tdiag))
        n = map_size(case)
        ncomp = len(case['stokes'])
        d = [Fraction(a[0], a[1]) for a in diag[1][0]] if diag[0] == 'Some' else None
        return {
            'tod_shape': list(tod),
            'proj_names': ok(pnames),
            'built_names': ok(bnames),
            'acq_names': ok(anames),
            'ptp_names': ok(tnames),
            'proj': [snap(m, (impl.get('proj') or [[]] * ncomp)[i]) for i, m in enumerate(proj)],
            'acq_built': snap(built, impl.get('acq_built')),
            'acq': snap(red, impl.get('acq')),
            'ptp': [snap(m, (impl.get('ptp') or [[]] * ncomp)[i]) for i, m in enumerate(ptp)],
            'ptp_red': [snap(m, (impl.get('ptp_red') or [[]] * ncomp)[i]) for i, m in enumerate(ptpr)],
            'ptp_diag': None if d is None else [float(x) for x in d] * ncomp,
            'hits': [int(h) for h in hits],
            'n': n,
        }

    def comparable(self, case, obs):
        if not isinstance(obs, dict) or 'error' in obs:
            return obs
        n = map_size(case)
        import numpy as np

        return lib.canon(
            {
                'tod_shape': obs['tod_shape'],
                'proj_names': obs['proj_names'],
                'built_names': obs['built_names'],
                'acq_names': obs['acq_names'],
                'ptp_names': obs['ptp_names'],
                'proj': obs['proj'],
                'acq_built': obs['acq_built'],
                'acq': obs['acq'],
                'ptp': obs['ptp'],
                'ptp_red': obs['ptp_red'],
                'ptp_diag': obs['ptp_diag'],
                'hits': np.bincount(np.asarray(obs['pix'], dtype=np.int64), minlength=n).tolist(),
                'n': n,
            }
        )

    # ---- oracle --------------------------------------------------------------------------------
    def oracle(self, case, obs):
        import numpy as np

        obs = unfrac(obs)
        if case['kind'] == 'pointing':
            if obs['pix'] != obs['healpy_vec2pix'] and not obs.get('near_boundary'):
                return f'pixel table entry {obs["pix"]} but the independent Rz.Ry.Rz + healpy computation gives {obs["healpy_vec2pix"]}'
            return None
        ndet, ndir, nsamp = len(case['det_x']), len(case['det_x'][0]), len(case['pa'])
        self.stats['samples_total'] += ndet * ndir * nsamp
        self.stats['multi_direction_cases'] += ndir > 1
        what = f'nside={case["nside"]} stokes={case["stokes"]} ndet={ndet} ndir={ndir} nsamp={nsamp}' + ('' if case.get('x64', True) else ' float32/x64-off')
        if 'error' in obs:
            return f'{obs.get("where")} raised {obs["error"]} ({obs.get("msg", "")}) for {what}'
        n = map_size(case)
        npix = 12 * case['nside'] ** 2
        pix = obs['pix']
        if len(pix) != ndet * ndir * nsamp:
            return f'pixel table has {len(pix)} entries for {what}'
        if min(pix) < 0 or max(pix) >= npix:
            return f'pixel table entry outside 0..{npix - 1}: {min(pix)}..{max(pix)}'
        shape = [ndet, nsamp] if ndir == 1 else [ndet, ndir, nsamp]
        if obs['tod_shape'] != shape or any(s != shape for s in obs['proj_shape']) or obs['acq_shape'] != shape:
            return f'time-ordered shapes {obs["tod_shape"]} / {obs["proj_shape"]} / {obs["acq_shape"]}, expected {shape} for {what}'
        tol = tolerance(case)
        proj, acq, hits, H = expected(case, pix)
        sky = sky_values(case)
        if len(obs['proj']) != len(case['stokes']):
            return f'projection returned {len(obs["proj"])} Stokes components for {case["stokes"]}'
        for ci, k in enumerate(case['stokes']):
            d = first_diff(obs['proj'][ci], proj[ci], tol)
            if d:
                return f'projection, component {k}: {d} (implementation vs sky[pix] rotated by 2 psi_t) for {what}'
        for name in ('acq_built', 'acq'):
            d = first_diff(obs[name], acq, tol)
            if d:
                return f'{"acquisition as built" if name == "acq_built" else "reduced acquisition"}: {d} (implementation vs (I + Q cos 2psi - U sin 2psi)/2 at the pixel) for {what}'
        for name in ('H_built', 'H'):
            if name in obs:
                d = first_diff(obs[name], H, 1e-9 if case.get('x64', True) else 1e-5)
                if d:
                    return f'dense matrix of the {"acquisition as built" if name == "H_built" else "reduced acquisition"}: {d} for {what}'
        for name in ('ptp', 'ptp_red'):
            for ci, k in enumerate(case['stokes']):
                d = first_diff(obs[name][ci], hits * np.array(sky[ci], dtype=np.float64), tol * max(1.0, hits.max()))
                if d:
                    return f'{"P.T @ P" if name == "ptp" else "reduce(P.T @ P)"} applied to the map, component {k}: {d} (implementation vs hit count x map) for {what}'
        mtol = 1e-9 if case.get('x64', True) else 1e-5
        for dn, on, label in (('ptp_diag', 'ptp_offdiag', '(P.T @ P).reduce().as_matrix()'), ('ptp_built_diag', 'ptp_built_offdiag', '(P.T @ P).as_matrix()')):
            if dn in obs:
                d = first_diff(obs[dn], np.tile(hits, len(case['stokes'])), mtol * max(1.0, hits.max()))
                if d:
                    return f'diagonal of {label}: {d} (implementation vs hit counts) for {what}'
                if not obs[on] <= mtol * max(1.0, hits.max()):
                    return f'{label} has an off-diagonal entry of magnitude {obs[on]} for {what}'
        return None

    def finding_key(self, case, obs):
        if isinstance(obs, dict) and obs.get('where') == 'create_acquisition' and obs.get('error') == 'ValueError':
            if len(case['det_x'][0]) > 1:
                return 'acquisition-several-directions-per-detector-structure-mismatch'
            return 'acquisition-tod-dtype-structure-mismatch'
        return case.get('key')

    def shrink(self, case, failing):
        """Fewer samples / detectors / directions while the oracle still fails."""
        if case['kind'] != 'acq':
            return case
        cur = dict(case)

        def fails(c):
            try:
                return bool(self.oracle(c, lib.canon(self.run_impl(c))))
            except Exception:
                return False

        for _ in range(12):
            changed = False
            cands = []
            if len(cur['pa']) > 1:
                cands.append({**cur, 'theta': cur['theta'][:-1], 'phi': cur['phi'][:-1], 'pa': cur['pa'][:-1]})
            if len(cur['det_x']) > 1:
                cands.append({**cur, 'det_x': cur['det_x'][:-1], 'det_y': cur['det_y'][:-1], 'ndet': len(cur['det_x']) - 1})
            if len(cur['det_x'][0]) > 2:
                cands.append({**cur, 'det_x': [r[:-1] for r in cur['det_x']], 'det_y': [r[:-1] for r in cur['det_y']], 'ndir': len(cur['det_x'][0]) - 1})
            for c in cands:
                if fails(c):
                    cur, changed = c, True
                    break
            if not changed:
                break
        return cur

    # ---- partial clause: numerical testing only ------------------------------------------------
    def extra(self):
        quick = self.tier == 'quick'
        res = ask(True, {'op': 'pointing', 'nsides': [1, 2, 4, 8, 16, 64], 'nrandom': 300 if quick else 3000, 'seed': self.seed})
        return {
            'pointing_vs_numpy_healpy_x64': {k: v for k, v in res.items() if k != 'failures'},
            'note': 'pixel table of create_projection_operator vs independent NumPy Rz(phi).Ry(theta).Rz(pa) applied to the '
            'normalised detector directions + healpy.vec2pix / ang2pix (ring ordering); 3 detectors x {1,3} directions, random / '
            'pole / meridian / cap-boundary boresights, every pixel centre (nside <= 8); a mismatch within 1e-9 rad of a pixel '
            'boundary is counted under near_boundary, not as a failure',
            'failures': res['failures'],
        }


if __name__ == '__main__':
    if '--worker' in sys.argv:
        worker_main()
