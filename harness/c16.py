"""C16 - the acquisition operator equals the explicit pointing model (partial: pixel lookup).

Real code: furax.projections.create_projection_operator, furax.instruments.sat.create_acquisition
(the operator as built is captured just before its .reduce()), (P.T @ P).reduce(), on HEALPix
landscapes of nside 1, 2, 4, the four Stokes kinds, 1-3 detectors with 1-3 directions each, 1-6 samples,
integer sky maps holding distinct primes.  Everything runs in worker subprocesses
(`python c16.py --worker`) with JAX_ENABLE_X64=1 (a few float32 cases with x64 disabled, and float32 landscapes with x64
enabled: single-precision maps, double-precision pointing).  Coincidence layouts (Check.COINCIDENCES): every way in which the axes (detectors, directions
per detector, samples) of the time-ordered data coincide in size or have size 1 (square 3x3, 4x4, (3,2,3), (2,2,3), (2,3,3), (2,2,2), (1,n),
(n,1), ...), for every Stokes kind, with position angles, boresights and detector offsets free of any symmetry: there a shape-based guess of
the role of an axis (one angle per DETECTOR instead of per sample, a transposed table) is ambiguous and silently changes the result, while every
rectangular layout behaves.  Position angles of both signs and beyond one turn, detectors off the
boresight axis (one on the axis in half of the cases), detector plane at z = 0.5, 1, 2.

Model: coq/theories/Model/Acquisition.v (run_acq: exact rationals) fed with the IMPLEMENTATION's own pixel
table and with cos/sin of twice the position angles computed here in float64; the model of reduce()
(Model/Algebra.v) run on the chain gives the reduced skeletons and the multiplicity diagonal.
Comparison within the stated tolerance (the code evaluates trig functions): 1e-9 (x64), 1e-5 (float32),
relative to the largest map value.

Oracle (independent of the model AND of the translator: it runs whether or not the translator accepts the source): the closed
NumPy formulas of the property, dense matrices included, and - for every case - the implementation's pixel table against the
independent pointing model (float64 NumPy Rz(phi).Ry(theta).Rz(psi) as a product of elementary rotations + healpy); a differing
entry is a failure unless the implementation's pixel lies within 1e-9 rad (x64) of the reference direction.

extra(): numerical cross-check (testing, not proof) of the unproved clause at scale - the pixel table against the same independent
pointing model for nside 1..8192 (pixel numbers above 2**24 from nside 2048), float32 and float64 landscapes, x64 enabled and
disabled, off-axis detector layouts, psi over (-2 pi, 2 pi), with directions aimed a few 1e-9..1e-8 rad inside pixel borders (a
float32 round trip of the direction flips those, float64 arithmetic does not) - see pointing_batch.  Failures are VIOLATIONs with a
one-sample 'pointing' replay.
"""
from __future__ import annotations

import atexit
import json
import math
import os
import subprocess
import sys
from fractions import Fraction
from pathlib import Path

sys.path.insert(0, str(Path(__file__).parent))
sys.path.insert(0, str(Path(__file__).parent.parent / 'tools' / 'translate'))

import lib  # noqa: E402
from lib import PropertyCheck, Tie, clist, cnat, cz  # noqa: E402

STOKES = ['I', 'QU', 'IQU', 'IQUV']
KIND = {'I': 'SI', 'QU': 'SQU', 'IQU': 'SIQU', 'IQUV': 'SIQUV'}


def primes(n):
    out, k = [], 2
    while len(out) < n:
        if all(k % p for p in out if p * p <= k):
            out.append(k)
        k += 1
    return out


_PR = primes(4 * 12 * 16 * 2 + 8)


def sky_values(case):
    """Distinct primes, one per (component, flat pixel) of the map."""
    n = map_size(case)
    return [[_PR[c * n + p] for p in range(n)] for c in range(len(case['stokes']))]


def map_shape(case):
    npix = 12 * case['nside'] ** 2
    return [case['nfreq'], npix] if case.get('land') == 'frequency' else [npix]


def map_size(case):
    return math.prod(map_shape(case))


def trig(case):
    import numpy as np

    pa = np.array(case['pa'], dtype=np.float64)
    return np.cos(2 * pa), np.sin(2 * pa)


def single_precision(case):
    """Are the map values held in float32 (x64 disabled, or a float32 landscape)?"""
    return not case.get('x64', True) or case.get('dtype', 'float64') == 'float32'


def rtol(case):
    return 1e-5 if single_precision(case) else 1e-9


def tolerance(case):
    return rtol(case) * (_PR[len(case['stokes']) * map_size(case)] + 1)


# ----------------------------------------------------------------------------------------------
# the real code (runs in the worker whose x64 mode matches the case)


def op_names(op):
    """Class names of a (flattened) chain; wrappers as Wrapper(inner)."""
    name = type(op).__name__
    if name == 'CompositionOperator':
        out = []
        for o in op.operands:
            out += op_names(o)
        return out
    inner = getattr(op, 'operator', None)
    if inner is not None and hasattr(inner, 'mv'):
        return [f'{name}({",".join(op_names(inner))})']
    return [name]


def build_inputs(case):
    import jax.numpy as jnp
    import numpy as np

    from furax.detectors import DetectorArray
    from furax.landscapes import FrequencyLandscape, HealpixLandscape, StokesPyTree
    from furax.samplings import Sampling

    dtype = np.dtype(case.get('dtype', 'float64'))
    if case.get('land') == 'frequency':
        land = FrequencyLandscape(case['nside'], jnp.arange(1.0, case['nfreq'] + 1.0), case['stokes'], dtype)
    else:
        land = HealpixLandscape(case['nside'], case['stokes'], dtype)
    samp = Sampling(jnp.asarray(np.array(case['theta'], dtype=np.float64)), jnp.asarray(np.array(case['phi'], dtype=np.float64)), jnp.asarray(np.array(case['pa'], dtype=np.float64)))
    det = DetectorArray(np.array(case['det_x'], dtype=np.float64), np.array(case['det_y'], dtype=np.float64), float(case.get('det_z', 1.0)))
    sky = StokesPyTree.from_stokes(*[jnp.asarray(np.array(v, dtype=dtype).reshape(land.shape)) for v in sky_values(case)])
    return land, samp, det, sky


def leaves(x):
    import jax
    import numpy as np

    return [np.asarray(leaf, dtype=np.float64).ravel().tolist() for leaf in jax.tree.leaves(x)]


def impl_case(case):
    import warnings

    import jax
    import numpy as np

    assert bool(jax.config.jax_enable_x64) == bool(case.get('x64', True)), 'x64 mode mismatch'
    with warnings.catch_warnings():
        warnings.simplefilter('ignore')
        if case['kind'] == 'pointing':
            return pointing_single(case)
        from furax._base.core import CompositionOperator
        from furax.instruments.sat import create_acquisition
        from furax.projections import create_projection_operator

        land, samp, det, sky = build_inputs(case)
        obs = {}
        try:
            P = create_projection_operator(land, samp, det)
        except Exception as e:  # an outcome of the code under test
            return {'error': type(e).__name__, 'where': 'create_projection_operator', 'msg': str(e)[:200]}
        idx = [o for o in getattr(P, 'operands', []) if type(o).__name__ == 'IndexOperator']
        if len(idx) != 1 or len(idx[0].indices) != 1:
            return {'error': 'unexpected-structure', 'where': 'create_projection_operator', 'msg': str(op_names(P))}
        table = np.asarray(idx[0].indices[0])
        obs['pix'] = table.ravel().tolist()
        obs['tod_shape'] = list(table.shape)
        # the independent pointing model (float64 NumPy + healpy) for the same table
        v = reference_directions(case['theta'], case['phi'], case['pa'], case['det_x'], case['det_y'], case.get('det_z', 1.0))
        if table.size == v[..., 0].size:
            bad, boundary, exp, exp2 = compare_table(case['nside'], table.reshape(v.shape[:-1]), v, case.get('x64', True))
            obs['ref_pix'] = exp.ravel().tolist()
            obs['pix_mismatch'] = np.flatnonzero((bad & ~boundary).ravel()).tolist()
            obs['pix_boundary'] = int((bad & boundary).sum())
        obs['proj_names'] = op_names(P)
        obs['proj'] = leaves(P(sky))
        obs['proj_shape'] = [list(leaf.shape) for leaf in jax.tree.leaves(P.out_structure())]
        # the acquisition, as built (captured at the call of .reduce()) and as returned
        captured = []
        orig = CompositionOperator.reduce

        def recording_reduce(self):
            if not captured:
                captured.append(self)
            return orig(self)

        CompositionOperator.reduce = recording_reduce
        try:
            try:
                H = create_acquisition(land, samp, det)
            finally:
                CompositionOperator.reduce = orig
        except Exception as e:
            obs.update({'error': type(e).__name__, 'where': 'create_acquisition', 'msg': str(e)[:200]})
            return obs
        if not captured:
            obs.update({'error': 'unexpected-structure', 'where': 'create_acquisition', 'msg': 'no composition was reduced'})
            return obs
        built = captured[0]
        obs['built_names'] = op_names(built)
        obs['acq_names'] = op_names(H)
        obs['acq_built'] = leaves(built(sky))[0]
        obs['acq'] = leaves(H(sky))[0]
        obs['acq_shape'] = list(jax.tree.leaves(H.out_structure())[0].shape)
        if case.get('dense', True):
            obs['H_built'] = np.asarray(built.as_matrix(), dtype=np.float64).tolist()
            obs['H'] = np.asarray(H.as_matrix(), dtype=np.float64).tolist()
        try:
            ptp = P.T @ P
            red = ptp.reduce()
            obs['ptp'] = leaves(ptp(sky))
            obs['ptp_red'] = leaves(red(sky))
            obs['ptp_names'] = op_names(red)
            m = np.asarray(red.as_matrix(), dtype=np.float64)
            d = np.diag(m).copy()
            obs['ptp_diag'] = d.tolist()
            obs['ptp_offdiag'] = float(np.abs(m - np.diag(d)).max()) if m.size else 0.0
            if case.get('dense', True) and m.shape[0] <= 200:
                m0 = np.asarray(ptp.as_matrix(), dtype=np.float64)
                obs['ptp_built_diag'] = np.diag(m0).tolist()
                obs['ptp_built_offdiag'] = float(np.abs(m0 - np.diag(np.diag(m0))).max())
        except Exception as e:
            obs.update({'error': type(e).__name__, 'where': 'P.T @ P', 'msg': str(e)[:200]})
        return obs


# ----------------------------------------------------------------------------------------------
# independent pointing computation (NumPy + healpy, float64), used by the acquisition cases (every pixel
# table is compared with it), by extra() and by 'pointing' replays

EPS64 = 1e-9  # rad: x64 enabled - rotation, vec2dir and the HEALPix lookup run in float64 whatever the map dtype
EPS32 = 2e-6  # rad: x64 disabled - the whole pointing runs in float32 (the angles are given as float32 values); near the poles
# the float32 rounding of z = cos(theta) (vec2dir: arccos(z / r); jax_healpy: 1 - |z|) moves the colatitude by up to 2**-22 / sin(theta)
DELTAS = (4e-9, 1e-8, 2.5e-8)  # rad: distances from a pixel border of the 'border' directions (x64 only)


def boundary_eps(x64, v=None):
    """Angular distance (rad) within which a pixel of the implementation other than the reference pixel is attributed to rounding
    (a scalar, or one value per direction of v)."""
    import numpy as np

    if x64:
        return EPS64 if v is None else np.full(np.asarray(v).reshape(-1, 3).shape[0], EPS64)
    if v is None:
        return EPS32
    v = np.asarray(v, dtype=np.float64).reshape(-1, 3)
    return EPS32 + 2.0**-22 / np.maximum(np.hypot(v[:, 0], v[:, 1]), 2.0**-11.5)


def _rz(a):
    import numpy as np

    c, s, o, z = np.cos(a), np.sin(a), np.ones_like(a), np.zeros_like(a)
    return np.stack([np.stack([c, -s, z], -1), np.stack([s, c, z], -1), np.stack([z, z, o], -1)], -2)


def _ry(a):
    import numpy as np

    c, s, o, z = np.cos(a), np.sin(a), np.ones_like(a), np.zeros_like(a)
    return np.stack([np.stack([c, z, s], -1), np.stack([z, o, z], -1), np.stack([-s, z, c], -1)], -2)


def unit_directions(det_x, det_y, det_z):
    import numpy as np

    x = np.asarray(det_x, dtype=np.float64)
    y = np.asarray(det_y, dtype=np.float64)
    z = np.broadcast_to(np.float64(det_z), x.shape)
    d = np.stack([x, y, z], axis=-1)
    return d / np.linalg.norm(d, axis=-1, keepdims=True)


def reference_directions(theta, phi, pa, det_x, det_y, det_z):
    """Unit vectors R_z(phi_t) R_y(theta_t) R_z(pa_t) d for every detector direction d and sample t, as the product
    of the three elementary rotations: array (ndet, ndir, nsamp, 3)."""
    import numpy as np

    th, ph, ps = (np.asarray(a, dtype=np.float64) for a in (theta, phi, pa))
    rot = _rz(ph) @ _ry(th) @ _rz(ps)  # (nsamp, 3, 3)
    return np.einsum('tij,dmj->dmti', rot, unit_directions(det_x, det_y, det_z))


def reference_pixels(nside, v):
    """Two float64 HEALPix lookups (ring ordering) of unit vectors: healpy.vec2pix and healpy.ang2pix."""
    import healpy as hp
    import numpy as np

    exp = hp.vec2pix(nside, v[..., 0], v[..., 1], v[..., 2])
    exp2 = hp.ang2pix(nside, np.arccos(np.clip(v[..., 2], -1, 1)), np.arctan2(v[..., 1], v[..., 0]))
    return np.asarray(exp, dtype=np.int64), np.asarray(exp2, dtype=np.int64)


def displaced(v, eps, k=16):
    """The k unit vectors at angular distance eps around every v (v: (n, 3)) -> (k, n, 3)."""
    import numpy as np

    v = np.asarray(v, dtype=np.float64).reshape(-1, 3)
    eps = np.reshape(np.asarray(eps, dtype=np.float64), (-1, 1))
    axis = np.eye(3)[np.argmin(np.abs(v), axis=1)]
    e1 = np.cross(v, axis)
    e1 /= np.linalg.norm(e1, axis=1, keepdims=True)
    e2 = np.cross(v, e1)
    out = []
    for a in np.arange(k) * (2 * np.pi / k):
        w = v + eps * (np.cos(a) * e1 + np.sin(a) * e2)
        out.append(w / np.linalg.norm(w, axis=1, keepdims=True))
    return np.stack(out)


def near_boundary(nside, v, got, eps):
    """Is the pixel got[i] reached from the direction v[i] by a displacement of at most ~eps[i] rad? (vectorised; the disc
    is sampled on rings, densely enough for discs wider than a pixel)"""
    import healpy as hp
    import numpy as np

    v = np.asarray(v, dtype=np.float64).reshape(-1, 3)
    got = np.asarray(got).reshape(-1)
    eps = np.broadcast_to(np.asarray(eps, dtype=np.float64), got.shape)
    ok = np.zeros(len(v), dtype=bool)
    if not len(v):
        return ok
    nrings = int(np.clip(np.ceil(4 * eps.max() * nside), 4, 40))
    for r in np.append(np.arange(1, nrings) / nrings, 1.05):
        w = displaced(v, r * eps, 16 if nrings == 4 else 64)
        ok |= (hp.vec2pix(nside, w[..., 0], w[..., 1], w[..., 2]) == got[None, :]).any(axis=0)
    return ok


def unstable(nside, v, eps):
    """Does the pixel of the direction change under a displacement of eps rad?"""
    import healpy as hp
    import numpy as np

    v = np.asarray(v, dtype=np.float64).reshape(-1, 3)
    p = hp.vec2pix(nside, v[:, 0], v[:, 1], v[:, 2])
    w = displaced(v, eps)
    return (hp.vec2pix(nside, w[..., 0], w[..., 1], w[..., 2]) != p[None, :]).any(axis=0)


def compare_table(nside, got, v, x64):
    """Pixel table of the implementation against the reference directions v (same leading shape + (3,)):
    boolean arrays (mismatch, of which within boundary_eps of a pixel border) and the two reference tables."""
    import numpy as np

    got = np.asarray(got, dtype=np.int64)
    exp, exp2 = reference_pixels(nside, v)
    bad = (got != exp) & (got != exp2)
    boundary = np.zeros(got.shape, dtype=bool)
    if bad.any():
        boundary[bad] = near_boundary(nside, v[bad], got[bad], boundary_eps(x64, v[bad]))
    return bad, boundary, exp, exp2


def implementation_table(nside, theta, phi, pa, det_x, det_y, det_z, dtype='float64'):
    import jax.numpy as jnp
    import numpy as np

    from furax.detectors import DetectorArray
    from furax.landscapes import HealpixLandscape
    from furax.projections import create_projection_operator
    from furax.samplings import Sampling

    land = HealpixLandscape(nside, 'I', np.dtype(dtype))
    samp = Sampling(jnp.asarray(np.asarray(theta, dtype=np.float64)), jnp.asarray(np.asarray(phi, dtype=np.float64)), jnp.asarray(np.asarray(pa, dtype=np.float64)))
    det = DetectorArray(np.asarray(det_x, dtype=np.float64), np.asarray(det_y, dtype=np.float64), float(det_z))
    P = create_projection_operator(land, samp, det)
    idx = [o for o in P.operands if type(o).__name__ == 'IndexOperator'][0]
    table = np.asarray(idx.indices[0])
    ndet, ndir = np.asarray(det_x).shape
    return table.reshape(ndet, ndir, len(theta))


def special_pixels(nside):
    npix = 12 * nside * nside
    ncap = 2 * nside * (nside - 1)
    cand = [0, 1, 2, 3, ncap - 1, ncap, ncap + 1, npix // 2, npix - ncap - 1, npix - ncap, npix - 4, npix - 1]
    for k in (24, 25, 26, 27, 28, 29):  # float32 holds integers exactly up to 2**24
        cand += [2**k - 1, 2**k, 2**k + 1, 2**k + 3, 3 * 2 ** (k - 1) + 1]
    return sorted({p for p in cand if 0 <= p < npix})


def target_directions(nside, pix, rng, mode):
    """Unit vectors inside the pixels `pix`, on the great arc from the pixel centre towards the centre of an
    edge-sharing neighbour: mode 'interior' - 30 % of the way (robustly inside); mode 'border' - at DELTAS[k] rad
    before the point where the arc leaves the pixel (located by bisection with healpy, float64)."""
    import healpy as hp
    import numpy as np

    pix = np.asarray(pix, dtype=np.int64)
    nb = np.asarray(hp.get_all_neighbours(nside, pix))[2 * rng.integers(0, 4, pix.size), np.arange(pix.size)]
    nb = np.where(nb < 0, (pix + 1) % (12 * nside * nside), nb)
    a = np.stack(hp.pix2vec(nside, pix), -1)
    b = np.stack(hp.pix2vec(nside, nb), -1)

    def at(t):
        w = (1 - t)[:, None] * a + t[:, None] * b
        return w / np.linalg.norm(w, axis=1, keepdims=True)

    if mode == 'interior':
        return at(np.full(pix.size, 0.3))
    lo, hi = np.zeros(pix.size), np.ones(pix.size)
    for _ in range(60):
        mid = 0.5 * (lo + hi)
        w = at(mid)
        inside = hp.vec2pix(nside, w[:, 0], w[:, 1], w[:, 2]) == pix
        lo, hi = np.where(inside, mid, lo), np.where(inside, hi, mid)
    c = at(lo)
    u = a - (a * c).sum(1, keepdims=True) * c
    u /= np.linalg.norm(u, axis=1, keepdims=True)
    delta = np.asarray(DELTAS)[rng.integers(0, len(DELTAS), pix.size)]
    w = c + delta[:, None] * u
    return w / np.linalg.norm(w, axis=1, keepdims=True)


def solve_pointing(w, d, psi):
    """(theta, phi) with R_z(phi) R_y(theta) R_z(psi) d = w, theta in [0, pi]; `ok` False where there is none."""
    import numpy as np

    d1 = np.einsum('tij,tj->ti', _rz(psi), d)
    amp = np.hypot(d1[:, 0], d1[:, 2])
    alpha = np.arctan2(d1[:, 0], d1[:, 2])
    ratio = w[:, 2] / amp
    ok = np.abs(ratio) <= 1 - 1e-7  # away from the branch point of arccos
    beta = np.arccos(np.clip(ratio, -1, 1))
    theta = beta - alpha
    alt = -beta - alpha
    theta = np.where((theta >= 0) & (theta <= np.pi), theta, np.where(alt < 0, alt + 2 * np.pi, alt))
    ok &= (theta >= 0) & (theta <= np.pi)
    u = np.einsum('tij,tj->ti', _ry(theta), d1)
    phi = np.arctan2(w[:, 1], w[:, 0]) - np.arctan2(u[:, 1], u[:, 0])
    return theta, phi, ok


def pointing_batch(nside, rng, ndet, ndir, det_z, nrandom, ntarget, x64):
    """One detector layout (every detector off the boresight axis except detector 0 / direction 0) and one pointing
    sequence made of the classes random / pole-meridian / pixel-centre / interior / border."""
    import healpy as hp
    import numpy as np

    pi = np.pi
    npix = 12 * nside * nside
    radius = rng.uniform(0.05, 0.45, (ndet, ndir))
    angle = rng.uniform(0, 2 * pi, (ndet, ndir))
    det_x, det_y = det_z * radius * np.cos(angle), det_z * radius * np.sin(angle)
    det_x[0, 0] = det_y[0, 0] = 0.0
    d = unit_directions(det_x, det_y, det_z).reshape(-1, 3)
    th, ph, ps, cls = [], [], [], []

    def add(name, t, p, s):
        th.append(np.asarray(t, dtype=np.float64))
        ph.append(np.asarray(p, dtype=np.float64))
        ps.append(np.asarray(s, dtype=np.float64))
        cls.extend([name] * len(t))

    def psi(n):  # third Euler angle over (-2 pi, 2 pi): both signs, more than one turn
        return rng.uniform(-2 * pi, 2 * pi, n)

    add('random', np.arccos(rng.uniform(-1, 1, nrandom)), rng.uniform(-pi, 2 * pi, nrandom), psi(nrandom))
    special_theta = [0.0, pi, pi / 2, 1e-9, pi - 1e-9, np.arccos(2 / 3), np.arccos(-2 / 3)]
    special_phi = [0.0, pi / 2, pi, 3 * pi / 2, 2 * pi - 1e-12, pi / 4, -pi / 3, 7.0]
    t = np.repeat(special_theta, len(special_phi))
    p = np.tile(special_phi, len(special_theta))
    add('pole-meridian', t, p, np.where(rng.random(t.size) < 0.25, 0.0, psi(t.size)))
    sel = np.arange(npix) if npix <= 192 else np.concatenate([special_pixels(nside), rng.integers(0, npix, 192)])
    tc, pc = hp.pix2ang(nside, sel)
    add('pixel-centre', tc, pc, psi(sel.size))
    for mode in ('interior', 'border') if x64 else ('interior',):
        pix = np.concatenate([special_pixels(nside), rng.integers(0, npix, ntarget)])
        w = target_directions(nside, pix, rng, mode)
        s = psi(pix.size)
        k = np.arange(pix.size) % len(d)  # the detector direction aimed at the target
        t, p, ok = solve_pointing(w, d[k], s)
        # no solution for this detector: aim the boresight detector (0, 0) instead
        t = np.where(ok, t, np.arctan2(np.hypot(w[:, 0], w[:, 1]), w[:, 2]))
        p = np.where(ok, p, np.arctan2(w[:, 1], w[:, 0]))
        add(mode, t, p, s)
    theta, phi, pa = np.concatenate(th), np.concatenate(ph), np.concatenate(ps)
    if not x64:  # the angles are float32 values: the reference starts from the same inputs as the float32 code
        theta, phi, pa = (a.astype(np.float32).astype(np.float64) for a in (theta, phi, pa))
    return theta, phi, pa, det_x, det_y, np.array(cls)


def pointing_check(configs, nrandom, ntarget, seed, x64):
    """configs: [[nside, landscape dtype], ...]; runs in the worker whose x64 mode is `x64`."""
    import warnings

    import jax
    import numpy as np

    assert bool(jax.config.jax_enable_x64) == bool(x64), 'x64 mode mismatch'
    eps = boundary_eps(x64)
    out = {'per_config': {}, 'failures': [], 'directions': 0, 'boundary_mismatches': 0, 'boundary_eps_rad': eps}
    for ci, (nside, dtype) in enumerate(configs):
        rng = np.random.default_rng([seed, nside, ci, int(x64)])
        stats = {'directions': 0, 'mismatches': 0, 'near_boundary': 0, 'by_class': {}, 'negative_psi': 0, 'off_axis': 0, 'pixels_above_2^24': 0}
        for ndet, ndir, det_z in ((4, 1, 1.0), (2, 3, 2.0)):
            theta, phi, pa, det_x, det_y, cls = pointing_batch(nside, rng, ndet, ndir, det_z, nrandom, ntarget, x64)
            with warnings.catch_warnings():
                warnings.simplefilter('ignore')
                try:
                    got = implementation_table(nside, theta, phi, pa, det_x, det_y, det_z, dtype)
                except ValueError as e:
                    if x64 or dtype != 'float64':
                        raise
                    stats['rejected'] = f'ValueError: {e}'[:120]  # declared float64 is not available with x64 disabled
                    break
                except Exception as e:  # an outcome of the code under test: reported with the first sample as replay
                    stats['raised'] = f'{type(e).__name__}: {e}'[:200]
                    c = {'kind': 'pointing', 'nside': int(nside), 'theta': [float(theta[0])], 'phi': [float(phi[0])], 'pa': [float(pa[0])],
                         'det_x': [[float(det_x[-1, -1])]], 'det_y': [[float(det_y[-1, -1])]], 'det_z': det_z, 'x64': bool(x64), 'dtype': dtype, 'class': str(cls[0])}  # fmt: skip
                    if len(out['failures']) < 5:
                        out['failures'].append({'case': c, 'observation': {'error': type(e).__name__, 'msg': str(e)[:200]}, 'key': 'create-projection-operator-raised',
                                                'oracle': f'create_projection_operator raised {type(e).__name__} ({str(e)[:200]}) for nside={nside}, {dtype} landscape, x64 {"on" if x64 else "off"}, {ndet} detectors x {ndir} directions, {len(theta)} samples'})  # fmt: skip
                    break
            v = reference_directions(theta, phi, pa, det_x, det_y, det_z)
            bad, boundary, exp, exp2 = compare_table(nside, got, v, x64)
            stats['directions'] += int(got.size)
            stats['negative_psi'] += int((pa < 0).sum()) * (ndet * ndir - 1)
            stats['off_axis'] += int(got.size) - len(theta)
            stats['pixels_above_2^24'] += int((exp >= 2**24).sum())
            if x64:
                sel = cls == 'border'
                vb = v[:, :, sel, :].reshape(-1, 3)
                stats['border_within_1e-7rad'] = stats.get('border_within_1e-7rad', 0) + int((unstable(nside, vb, 1e-7) & ~unstable(nside, vb, EPS64)).sum())
            stats['mismatches'] += int(bad.sum())
            stats['near_boundary'] += int((bad & boundary).sum())
            for i, m, t in np.argwhere(bad & ~boundary):
                name = str(cls[t])
                stats['by_class'][name] = stats['by_class'].get(name, 0) + 1
                if len(out['failures']) < 5 and sum(f['case']['nside'] == nside and f['case']['dtype'] == dtype for f in out['failures']) < 2:
                    c = {'kind': 'pointing', 'nside': int(nside), 'theta': [float(theta[t])], 'phi': [float(phi[t])], 'pa': [float(pa[t])],
                         'det_x': [[float(det_x[i, m])]], 'det_y': [[float(det_y[i, m])]], 'det_z': det_z, 'x64': bool(x64), 'dtype': dtype, 'class': name}  # fmt: skip
                    g, e = int(got[i, m, t]), int(exp[i, m, t])
                    out['failures'].append({'case': c, 'observation': {'pix': g, 'healpy_vec2pix': e, 'healpy_ang2pix': int(exp2[i, m, t]), 'near_boundary': False},
                                            'oracle': pointing_message(c, g, e), 'key': 'pixel-table-differs-from-independent-pointing'})  # fmt: skip
        out['per_config'][f'nside{nside}/{dtype}'] = stats
        out['directions'] += stats['directions']
        out['boundary_mismatches'] += stats['near_boundary']
    return out


def pointing_message(case, got, exp):
    return (
        f'pixel table entry {got} but the independent Rz(phi).Ry(theta).Rz(psi) + healpy computation (float64) gives {exp}: nside={case["nside"]}, '
        f'{case.get("dtype", "float64")} landscape, x64 {"on" if case.get("x64", True) else "off"}, psi={case["pa"][0]:.6g}, detector offset '
        f'({case["det_x"][0][0]:.4g}, {case["det_y"][0][0]:.4g}, {case.get("det_z", 1.0):g}), class {case.get("class")}; not within {boundary_eps(case.get("x64", True)):g} rad of a pixel border'
    )


def pointing_single(case):
    import numpy as np

    try:
        got = implementation_table(case['nside'], case['theta'], case['phi'], case['pa'], case['det_x'], case['det_y'], case['det_z'], case.get('dtype', 'float64'))
    except Exception as e:  # an outcome of the code under test
        return {'error': type(e).__name__, 'msg': str(e)[:200]}
    v = reference_directions(case['theta'], case['phi'], case['pa'], case['det_x'], case['det_y'], case['det_z'])
    bad, boundary, exp, exp2 = compare_table(case['nside'], got, v, case.get('x64', True))
    k = int(np.argmax((bad & ~boundary).ravel())) if bad.any() else 0
    return {'pix': int(got.ravel()[k]), 'healpy_vec2pix': int(exp.ravel()[k]), 'healpy_ang2pix': int(exp2.ravel()[k]), 'mismatch': bool(bad.ravel()[k]), 'near_boundary': bool(boundary.ravel()[k])}


# ----------------------------------------------------------------------------------------------
# worker processes


def worker_main():
    out = sys.stdout
    sys.stdout = sys.stderr
    try:  # XLA compilation dominates the run time: keep compiled executables between runs
        import jax

        cache = lib.WORK / 'jax-cache-C16'
        cache.mkdir(parents=True, exist_ok=True)
        jax.config.update('jax_compilation_cache_dir', str(cache))
        jax.config.update('jax_persistent_cache_min_compile_time_secs', 0)
        jax.config.update('jax_persistent_cache_min_entry_size_bytes', -1)
    except Exception:
        pass
    for line in sys.stdin:
        req = json.loads(line)
        try:
            if req['op'] == 'case':
                res = {'ok': impl_case(req['case'])}
            elif req['op'] == 'pointing':
                res = {'ok': pointing_check(req['configs'], req['nrandom'], req['ntarget'], req['seed'], req['x64'])}
            else:
                res = {'err': 'unknown op'}
        except Exception as e:
            import traceback

            res = {'err': f'{type(e).__name__}: {e}', 'tb': traceback.format_exc()[-1500:]}
        out.write(json.dumps(res) + '\n')
        out.flush()


_workers: dict = {}


NSLOTS = 3


def worker(x64: bool, slot: int = 0):
    x64 = (bool(x64), slot)
    if x64 not in _workers:
        env = dict(os.environ)
        env['JAX_ENABLE_X64'] = '1' if x64[0] else '0'
        env['PYTHONPATH'] = str(lib.REPO / 'src')
        env['JAX_PLATFORMS'] = 'cpu'
        p = subprocess.Popen([sys.executable, str(Path(__file__).resolve()), '--worker'], stdin=subprocess.PIPE, stdout=subprocess.PIPE, stderr=subprocess.DEVNULL, text=True, env=env)  # fmt: skip
        _workers[x64] = p
        atexit.register(p.kill)
    return _workers[x64]


def ask(x64: bool, req: dict, slot: int = 0):
    p = worker(x64, slot)
    p.stdin.write(json.dumps(req) + '\n')
    p.stdin.flush()
    line = p.stdout.readline()
    if not line:
        raise RuntimeError('worker died')
    res = json.loads(line)
    if 'err' in res:
        raise RuntimeError(res['err'] + '\n' + res.get('tb', ''))
    return res['ok']


# ----------------------------------------------------------------------------------------------
# the property, stated independently of the Coq model


def expected(case, pix):
    """Closed formulas of C16 given the pixel table: projection leaves, acquisition, hits, dense H."""
    import numpy as np

    stokes = case['stokes']
    n = map_size(case)
    sky = {s: np.array(v, dtype=np.float64) for s, v in zip(stokes, sky_values(case))}
    c2, s2 = trig(case)
    pix = np.asarray(pix, dtype=np.int64)
    nsamp = len(case['pa'])
    t = np.arange(pix.size) % nsamp
    c, s = c2[t], s2[t]
    zero = np.zeros(n)
    I, Q, U = (sky.get(k, zero)[pix] for k in 'IQU')
    proj = []
    for k in stokes:
        proj.append({'I': I, 'Q': Q * c - U * s, 'U': Q * s + U * c, 'V': sky.get('V', zero)[pix]}[k])
    acq = 0.5 * (I + Q * c - U * s)
    hits = np.bincount(pix, minlength=n).astype(np.float64)
    H = np.zeros((pix.size, len(stokes) * n))
    rows = np.arange(pix.size)
    for ci, k in enumerate(stokes):
        w = {'I': np.full(pix.size, 0.5), 'Q': 0.5 * c, 'U': -0.5 * s, 'V': np.zeros(pix.size)}[k]
        H[rows, ci * n + pix] = w
    return proj, acq, hits, H


_FRAC = __import__('re').compile(r'^-?\d+/\d+$')


def unfrac(x):
    """Inverse of lib.canon on numbers: 'num/den' strings back to floats."""
    if isinstance(x, str) and _FRAC.match(x):
        return float(Fraction(x))
    if isinstance(x, list):
        return [unfrac(i) for i in x]
    if isinstance(x, dict):
        return {k: unfrac(v) for k, v in x.items()}
    return x


def first_diff(a, b, tol):
    import numpy as np

    a = np.asarray(a, dtype=np.float64)
    b = np.asarray(b, dtype=np.float64)
    if a.shape != b.shape:
        return f'shape {list(a.shape)} vs {list(b.shape)}'
    bad = np.argwhere(~(np.abs(a - b) <= tol))
    if bad.size:
        i = tuple(int(k) for k in bad[0])
        return f'at {list(i)}: {float(a[i])} vs {float(b[i])}'
    return None


class Check(PropertyCheck):
    id = 'C16'
    props = ['C16.v']
    static_targets = ['theories/Lemmas/AcquisitionL.vo']
    coq_header = (
        'From Coq Require Import ZArith QArith List String.\n'
        'From Furax Require Import Model.Op Model.Algebra Model.Exec Model.Acquisition.\n'
        'Import ListNotations.\nOpen Scope string_scope.\n'
        'Definition obs_t (o : option acq_obs) := match o with Some o => Some (o_proj o, o_acq_built o, '
        'o_acq_reduced o, o_ptp_built o, o_ptp_reduced o, o_hits o) | None => None end.\n'
        'Definition plain_names (r : result xop) : result (list string) := e <- r ;; Ok (names (skel e)).'
    )
    shard = 6
    partial = (
        'that the pixel table pix[d, m, t] is the HEALPix pixel containing the detector direction rotated by '
        'Rz(phi_t).Ry(theta_t).Rz(psi_t): vec2dir (arccos / arctan2 in floating point) and jax_healpy.ang2pix are '
        'outside the model; the theorems hold for an ARBITRARY pixel table and the table is cross-checked numerically '
        'only, against an independent NumPy rotation + healpy: on every acquisition case (oracle) and at scale - nside up to 8192, '
        'float32/float64 landscapes, both x64 modes, directions a few 1e-9 rad inside pixel borders (numerical_tests_not_proof)'
    )
    trusted = [
        'translator tools/translate/euler.py (Python ast, fail closed): the nine entries of the jnp.array literal of '
        'get_rotation_matrix with the sin/cos and phi/theta/pa bindings resolved, and the einsum subscripts of '
        'create_projection_operator by their index meaning -> Gen/EulerMatrix.v, regenerated on every check',
        'JAX primitives as modelled in Model/Acquisition.v and compared by this harness: leaf[indices] with an integer '
        'array = gather of the flattened map; jax.linear_transpose of that gather = scatter-add into zeros; reshape keeps '
        'row-major order; broadcasting of the (nsamp,) angle array against the last axis; jnp.unique(size=n) + '
        '.at[].add (through coverage_of of Model/Algebra.v)',
        'floating point: the model computes in an exact commutative ring with an exact 1/2; the correspondence feeds it '
        'the float64 values of cos/sin(2 pa) as exact rationals and compares within 1e-9 (x64) / 1e-5 (float32) relative '
        'to the largest map value',
        'the model of reduce() (Model/Algebra.v, C01/C07) for the reduced skeletons and the multiplicity diagonal',
        'vec2dir, jax_healpy.ang2pix, DetectorArray normalisation (sqrt, division): NOT modelled; the pixel table is an '
        'input of the model',
        'the pixel-table oracle: NumPy float64 rotations, healpy.vec2pix / ang2pix / pix2vec / get_all_neighbours as the reference '
        'HEALPix implementation; a differing pixel is attributed to rounding only within 1e-9 rad of the reference direction (x64 '
        'enabled, any map dtype) or 2e-6 rad + 2**-22 / sin(theta) (x64 disabled: float32 pointing, float32 cos(theta) near the poles); '
        'with x64 disabled only float32 landscapes are in scope (a declared float64 structure is unavailable there, DESIGN section 7: '
        'create_projection_operator raises ValueError, recorded in the evidence)',
        'correspondence harness harness/c16.py (case generators, the two printers of one case description, worker protocol, '
        'capture of the acquisition as built by wrapping CompositionOperator.reduce)',
    ]

    def __init__(self, tier, seed):
        super().__init__(tier, seed)
        self._obs = {}
        self._cases = None
        self._prefetched = False
        self._pointing = None
        self.stats = {'samples_total': 0, 'multi_direction_cases': 0}

    # ---- translate -----------------------------------------------------------------------------
    def translate(self):
        import euler as tr

        tr.Tie = Tie
        text = tr.translate(lib.REPO)
        (self.gen_dir / 'EulerMatrix.v').write_text(text)
        self.stats['generated_sha1'] = __import__('hashlib').sha1(text.encode()).hexdigest()[:12]

    def gen_files(self):
        return ['EulerMatrix.v']

    # ---- cases ---------------------------------------------------------------------------------
    def pointing(self, rng, nsamp, style):
        pi = math.pi
        if style == 'exact':  # position angles whose doubled trig values are (nearly) exact
            pa = [rng.choice([0.0, pi / 4, pi / 2, 3 * pi / 4, pi, -pi / 4, 2 * pi, -pi / 2, -3 * pi / 4, -pi, -2 * pi, 5 * pi / 4]) for _ in range(nsamp)]
        elif style == 'pythagorean':  # cos 2pa = 3/5, sin 2pa = 4/5 and relatives
            pa = [rng.choice([1, -1]) * math.atan2(*rng.choice([(4, 3), (3, 4), (5, 12), (24, 7)])) / 2 for _ in range(nsamp)]
        else:
            pa = [rng.uniform(-2 * pi, 2 * pi) for _ in range(nsamp)]  # both signs, more than one turn
        if style == 'same-pixel':
            th, ph = math.acos(rng.uniform(-0.9, 0.9)), rng.uniform(0, 2 * pi)
            theta, phi = [th] * nsamp, [ph] * nsamp
        elif style == 'polar':
            theta = [rng.choice([0.0, pi, 1e-3, pi - 1e-3]) for _ in range(nsamp)]
            phi = [rng.choice([0.0, pi / 2, pi, 3 * pi / 2]) for _ in range(nsamp)]
        else:
            theta = [math.acos(rng.uniform(-1, 1)) for _ in range(nsamp)]
            phi = [rng.uniform(0, 2 * pi) for _ in range(nsamp)]
        return theta, phi, pa

    def one_case(self, rng, nside, stokes, ndet, ndir, nsamp, style, **kw):
        theta, phi, pa = self.pointing(rng, nsamp, style)
        spread = 0.02 if style == 'same-pixel' and nside <= 2 else 0.5
        det_x = [[round(rng.uniform(-spread, spread), 3) for _ in range(ndir)] for _ in range(ndet)]
        det_y = [[round(rng.uniform(-spread, spread), 3) for _ in range(ndir)] for _ in range(ndet)]
        if rng.random() < 0.5:  # one detector on the boresight axis (where the third Euler angle is invisible) in half of the cases
            det_x[0][0] = det_y[0][0] = 0.0
        c = {'kind': 'acq', 'nside': nside, 'stokes': stokes, 'ndet': ndet, 'ndir': ndir, 'style': style, 'theta': theta, 'phi': phi, 'pa': pa,
             'det_x': det_x, 'det_y': det_y, 'det_z': rng.choice([1.0, 1.0, 2.0, 0.5]), 'x64': True, 'dtype': 'float64', 'dense': nside <= 2}  # fmt: skip
        c.update(kw)
        return c

    def cases(self):
        quick = self.tier == 'quick'
        rng = self.rng
        cases = []
        styles = ['exact', 'pythagorean', 'generic', 'same-pixel', 'polar']
        k = 0
        # every Stokes kind x nside x number of directions, detectors/samples/style cycling
        for nside in (1, 2, 4):
            for stokes in STOKES:
                for ndir in (1, 2, 3) if not quick else ((1, 3) if nside == 1 else (1, 2) if nside == 2 else (1,)):
                    ndet = 1 + k % 3
                    nsamp = 1 + (k * 5) % 6
                    cases.append(self.one_case(rng, nside, stokes, ndet, ndir, nsamp, styles[k % len(styles)]))
                    k += 1
        # seeded random beyond
        for _ in range(8 if quick else 120):
            nside = rng.choice([1, 1, 2, 2, 4])
            cases.append(self.one_case(rng, nside, rng.choice(STOKES), rng.randrange(1, 4), rng.choice([1, 1, 1, 2, 3]), rng.randrange(1, 7), rng.choice(styles)))
        # 2-d map (FrequencyLandscape): the Ravel stays in the reduced chain
        for stokes in ('IQU', 'I') if quick else STOKES:
            cases.append(self.one_case(rng, 1, stokes, 2, 1, 3, 'generic', land='frequency', nfreq=2))
        # float32 landscape with x64 disabled
        for stokes in ('IQU',) if quick else ('QU', 'IQU', 'IQUV'):
            cases.append(self.one_case(rng, 1, stokes, 2, 1, 3, 'exact', x64=False, dtype='float32'))
            cases.append(self.one_case(rng, 2, stokes, 2, 2, 4, 'generic', x64=False, dtype='float32'))
        # float32 landscape with x64 enabled (single-precision maps, double-precision pointing)
        for stokes in ('IQU', 'I') if quick else STOKES:
            cases.append(self.one_case(rng, 4 if stokes == 'IQU' else 2, stokes, 2, 2 if stokes == 'I' else 1, 5, 'generic', dtype='float32'))
        cases += self.coincidence_cases(rng, quick)
        self._cases = cases
        return cases

    # Layouts (detectors, directions per detector, samples) in which axes of the time-ordered data coincide in size or have size 1:
    # any shape-based guess of the role of an axis (angles aligned with the detector axis, a squeezed axis, a transposed table)
    # is ambiguous exactly there.  ndir = 1: 2-d data (ndet, nsamp); ndir > 1: 3-d data (ndet, ndir, nsamp).  Two sizes per class.
    COINCIDENCES = {
        '2d:ndet=nsamp': [(3, 1, 3), (4, 1, 4), (2, 1, 2), (6, 1, 6)],
        '2d:ndet=1': [(1, 1, 3), (1, 1, 4)],
        '2d:nsamp=1': [(3, 1, 1), (2, 1, 1)],
        '2d:ndet=nsamp=1': [(1, 1, 1)],
        '3d:ndet=nsamp': [(3, 2, 3), (2, 3, 2)],
        '3d:ndet=ndir': [(2, 2, 3), (3, 3, 2)],
        '3d:ndir=nsamp': [(2, 3, 3), (3, 2, 2)],
        '3d:ndet=ndir=nsamp': [(2, 2, 2), (3, 3, 3)],
        '3d:ndet=1': [(1, 2, 3), (1, 3, 2)],
        '3d:nsamp=1': [(2, 3, 1), (3, 2, 1)],
        '3d:ndet=1,ndir=nsamp': [(1, 2, 2), (1, 3, 3)],
        '3d:nsamp=1,ndet=ndir': [(2, 2, 1), (3, 3, 1)],
        '3d:ndet=nsamp=1': [(1, 2, 1), (1, 3, 1)],
    }

    def asymmetric(self, case, rng):
        """Replaces the pointing and the detector offsets of a case by ones without any symmetry: position angles whose doubled
        angles are pairwise far apart (and far from multiples of pi/2, so that Q and U really mix), of both signs and beyond one
        turn; boresights in pairwise distinct pixels where the map has enough of them; detector offsets pairwise distinct.
        Exchanging the roles of two axes (sample <-> detector <-> direction) then changes the expected result."""
        import healpy as hp

        pi = math.pi
        nsamp = len(case['pa'])
        gap = min(0.35, 0.9 * pi / (2 * nsamp))

        def far(a, b):  # distance of the doubled angles on the circle
            d = abs((2 * a - 2 * b) % (2 * pi))
            return min(d, 2 * pi - d)

        pa = []
        while len(pa) < nsamp:
            a = rng.uniform(-2 * pi, 2 * pi)
            if all(far(a, b) >= gap for b in pa) and all(far(a, k * pi / 4) >= 0.1 for k in range(4)):
                pa.append(a)
        theta, phi, seen = [], [], set()
        while len(theta) < nsamp:
            t, p = math.acos(rng.uniform(-0.95, 0.95)), rng.uniform(0, 2 * pi)
            pix = int(hp.ang2pix(case['nside'], t, p))
            if pix not in seen or len(seen) >= 12 * case['nside'] ** 2 // 2:
                seen.add(pix)
                theta.append(t)
                phi.append(p)
        ndet, ndir = len(case['det_x']), len(case['det_x'][0])
        offsets = set()
        while len(offsets) < ndet * ndir:
            offsets.add((round(rng.uniform(-0.5, 0.5), 3), round(rng.uniform(-0.5, 0.5), 3)))
        offsets = sorted(offsets)
        rng.shuffle(offsets)
        case['det_x'] = [[offsets[d * ndir + m][0] for m in range(ndir)] for d in range(ndet)]
        case['det_y'] = [[offsets[d * ndir + m][1] for m in range(ndir)] for d in range(ndet)]
        case.update(theta=theta, phi=phi, pa=pa, style='coincidence')
        return case

    def coincidence_cases(self, rng, quick):
        """Every coincidence class x every Stokes kind (sizes, nside cycling), + frequency maps whose leading axis coincides too,
        + single-precision variants; pointing and detector offsets without symmetry."""
        out = []
        k = 0
        for name, layouts in self.COINCIDENCES.items():
            for si, stokes in enumerate(STOKES):
                for j in range(1 if quick else len(layouts)):
                    ndet, ndir, nsamp = layouts[(si + j) % len(layouts)]
                    nside = (2, 1, 4)[k % 3] if quick else (1, 2, 4)[k % 3]
                    k += 1
                    c = self.one_case(rng, nside, stokes, ndet, ndir, nsamp, 'generic', layout=name)
                    out.append(self.asymmetric(c, rng))
        variants = [
            ((3, 1, 3), 'IQU', dict(land='frequency', nfreq=3)),
            ((2, 2, 2), 'QU', dict(land='frequency', nfreq=2)),
            ((4, 1, 4), 'IQU', dict(x64=False, dtype='float32')),
            ((3, 2, 3), 'QU', dict(dtype='float32')),
        ]
        if not quick:
            variants += [
                ((3, 3, 3), 'IQUV', dict(land='frequency', nfreq=3)),
                ((2, 1, 2), 'IQUV', dict(land='frequency', nfreq=2)),
                ((3, 3, 3), 'IQUV', dict(x64=False, dtype='float32')),
                ((2, 3, 2), 'QU', dict(x64=False, dtype='float32')),
                ((6, 1, 6), 'IQUV', dict(dtype='float32')),
                ((2, 2, 3), 'IQU', dict(dtype='float32')),
            ]
        for (ndet, ndir, nsamp), stokes, kw in variants:
            nside = 1 if kw.get('land') == 'frequency' else 2
            c = self.one_case(rng, nside, stokes, ndet, ndir, nsamp, 'generic', layout='variant', **kw)
            out.append(self.asymmetric(c, rng))
        return out

    def search_cases(self):
        other = type(self)('thorough', self.seed + 1)
        return other.cases()[:40]

    def rule(self):
        return (
            'acq: nside {1,2,4} x Stokes {I,QU,IQU,IQUV} x directions per detector {1,2,3} (quick: a subset), detectors '
            '1-3 (off the boresight axis; one on it in half of the cases; detector plane z in {0.5,1,2}), samples 1-6, pointing styles '
            '{position angles k*pi/4 of both signs, Pythagorean doubled angles, generic psi in (-2pi,2pi), every sample '
            'in one pixel, polar boresight}, + seeded random cases, + FrequencyLandscape (2-d map: Ravel kept), + float32 '
            'landscapes with x64 disabled, + float32 landscapes with x64 enabled, + coincidence layouts: every class of coinciding / size-1 '
            'axes of the time-ordered data (2-d: ndet=nsamp, ndet=1, nsamp=1, both 1; 3-d: ndet=nsamp, ndet=ndir, ndir=nsamp, all equal, '
            'ndet=1, nsamp=1 and their combinations) x every Stokes kind (thorough: two sizes per class), with pairwise distinct position '
            'angles (doubled angles >= 0.1 rad from multiples of pi/2), distinct boresight pixels and distinct detector offsets, so that '
            'exchanging the roles of two axes changes the result, + such layouts on FrequencyLandscape (nfreq coinciding too) and in '
            'single precision; integer sky maps of distinct primes; every pixel '
            'table also compared with the independent float64 pointing model. Distinct by canonical JSON of the case. '
            'pointing (extra): see numerical_tests_not_proof.note.'
        )

    def nontrivial(self, case, obs):
        return isinstance(obs, dict) and 'error' not in obs and len(set(obs.get('pix', []))) >= 1

    def distribution(self, cases):
        d = {}
        for c in cases:
            key = f'{c["kind"]}/nside{c["nside"]}/{c["stokes"]}/ndir{c.get("ndir", 1)}' + ('' if c.get('dtype', 'float64') == 'float64' else '/' + c['dtype']) + ('' if c.get('x64', True) else '/x64-off') + ('/freq' if c.get('land') == 'frequency' else '')
            if c.get('style') == 'coincidence':
                key = f'coincidence/{c.get("layout")}/{c["stokes"]}' + ('' if c.get('dtype', 'float64') == 'float64' else '/' + c['dtype']) + ('' if c.get('x64', True) else '/x64-off') + ('/freq' if c.get('land') == 'frequency' else '')
            d[key] = d.get(key, 0) + 1
        return d

    # ---- implementation ------------------------------------------------------------------------
    def prefetch(self, cases):
        """Runs the cases of this tier on NSLOTS worker processes at once (the driver then asks one by one)."""
        from concurrent.futures import ThreadPoolExecutor

        todo = [c for c in cases if lib.case_id(c) not in self._obs]
        if self._cases:  # not on a replay
            self.start_pointing()

        def run(slot):
            for c in todo[slot::NSLOTS]:
                try:
                    self._obs[lib.case_id(c)] = ask(bool(c.get('x64', True)), {'op': 'case', 'case': c}, slot)
                except Exception:
                    pass  # asked again (and reported) by run_impl

        with ThreadPoolExecutor(max_workers=NSLOTS) as ex:
            list(ex.map(run, range(NSLOTS)))

    def run_impl(self, case):
        cid = lib.case_id(case)
        if cid not in self._obs and case['kind'] == 'acq' and not self._prefetched:
            self._prefetched = True
            self.prefetch(self._cases or [])
        if cid not in self._obs:
            self._obs[cid] = ask(bool(case.get('x64', True)), {'op': 'case', 'case': case})
        return self._obs[cid]

    # ---- model ---------------------------------------------------------------------------------
    def model_term(self, case):
        obs = self._obs.get(lib.case_id(case))
        if case['kind'] != 'acq' or not isinstance(obs, dict) or 'pix' not in obs or 'error' in obs:
            return None
        c2, s2 = trig(case)
        cq = lambda v: lib.cq(Fraction(float(v)))  # noqa: E731
        pix = clist(obs['pix'], cnat)
        keep = 'true' if len(map_shape(case)) > 1 else 'false'
        kind = KIND[case['stokes']]
        ndet, ndir, nsamp = len(case['det_x']), len(case['det_x'][0]), len(case['pa'])
        mshape = clist(map_shape(case), cnat)
        tod = f'(tod_shape {cnat(ndet)} {cnat(ndir)} {cnat(nsamp)})'
        run = (
            f'obs_t (run_acq {kind} {keep} {cnat(map_size(case))} {cnat(nsamp)} {clist(c2, cq)} {clist(s2, cq)} {pix} '
            f'({clist(sky_values(case), lambda r: clist(r, cz))})%Z)'
        )
        return (
            f'({run}, {tod}, (plain_names (proj_op {kind} {mshape} {tod} {pix}), plain_names (acq_op {kind} {mshape} {tod} {pix})), reduced_names (acq_op {kind} {mshape} {tod} {pix}), '
            f'reduced_names (ptp_op {kind} {mshape} {tod} {pix}), reduced_diag (ptp_op {kind} {mshape} {tod} {pix}))'
        )

    def decode(self, case, v):
        run, tod, (pnames, bnames), anames, tnames, tdiag = v
        impl = self._obs.get(lib.case_id(case)) or {}
        tol = tolerance(case)

        def ok(x):
            name, args = lib.coqparse.ctor(x)
            if name != 'Ok':
                raise ValueError(f'model error {x!r}')
            return args[0]

        def snap(model_vals, impl_vals):
            """Model values (exact rationals) replaced by the implementation's floats where they agree within
            the stated tolerance, so that the driver's exact comparison implements the tolerance."""
            out = []
            for i, m in enumerate(model_vals):
                m = Fraction(m[0], m[1])
                f = impl_vals[i] if isinstance(impl_vals, list) and i < len(impl_vals) else None
                if isinstance(f, (int, float)) and abs(float(m) - f) <= tol:
                    out.append(f)
                else:
                    out.append(float(m))
            return out

        name, args = lib.coqparse.ctor(run)
        if name != 'Some':
            raise ValueError('model rejected the sky map')
        proj, built, red, ptp, ptpr, hits = args[0]
        diag = lib.coqparse.ctor(ok(tdiag))
        n = map_size(case)
        ncomp = len(case['stokes'])
        d = [Fraction(a[0], a[1]) for a in diag[1][0]] if diag[0] == 'Some' else None
        return {
            'tod_shape': list(tod),
            'proj_names': ok(pnames),
            'built_names': ok(bnames),
            'acq_names': ok(anames),
            'ptp_names': ok(tnames),
            'proj': [snap(m, (impl.get('proj') or [[]] * ncomp)[i]) for i, m in enumerate(proj)],
            'acq_built': snap(built, impl.get('acq_built')),
            'acq': snap(red, impl.get('acq')),
            'ptp': [snap(m, (impl.get('ptp') or [[]] * ncomp)[i]) for i, m in enumerate(ptp)],
            'ptp_red': [snap(m, (impl.get('ptp_red') or [[]] * ncomp)[i]) for i, m in enumerate(ptpr)],
            'ptp_diag': None if d is None else [float(x) for x in d] * ncomp,
            'hits': [int(h) for h in hits],
            'n': n,
        }

    def comparable(self, case, obs):
        if not isinstance(obs, dict) or 'error' in obs:
            return obs
        n = map_size(case)
        import numpy as np

        return lib.canon(
            {
                'tod_shape': obs['tod_shape'],
                'proj_names': obs['proj_names'],
                'built_names': obs['built_names'],
                'acq_names': obs['acq_names'],
                'ptp_names': obs['ptp_names'],
                'proj': obs['proj'],
                'acq_built': obs['acq_built'],
                'acq': obs['acq'],
                'ptp': obs['ptp'],
                'ptp_red': obs['ptp_red'],
                'ptp_diag': obs['ptp_diag'],
                'hits': np.bincount(np.asarray(obs['pix'], dtype=np.int64), minlength=n).tolist(),
                'n': n,
            }
        )

    # ---- oracle --------------------------------------------------------------------------------
    def oracle(self, case, obs):
        import numpy as np

        obs = unfrac(obs)
        if case['kind'] == 'pointing':
            if 'error' in obs:
                return f'create_projection_operator raised {obs["error"]} ({obs.get("msg", "")}) for nside={case["nside"]}, {case.get("dtype", "float64")} landscape, x64 {"on" if case.get("x64", True) else "off"}'
            if obs.get('mismatch', obs['pix'] != obs['healpy_vec2pix']) and not obs.get('near_boundary'):
                return pointing_message(case, obs['pix'], obs['healpy_vec2pix'])
            return None
        ndet, ndir, nsamp = len(case['det_x']), len(case['det_x'][0]), len(case['pa'])
        self.stats['samples_total'] += ndet * ndir * nsamp
        self.stats['multi_direction_cases'] += ndir > 1
        self.stats['coincidence_layout_cases'] = self.stats.get('coincidence_layout_cases', 0) + (case.get('style') == 'coincidence')
        what = f'nside={case["nside"]} stokes={case["stokes"]} ndet={ndet} ndir={ndir} nsamp={nsamp} {case.get("dtype", "float64")} landscape' + ('' if case.get('x64', True) else ', x64 off')
        if 'error' in obs:
            return f'{obs.get("where")} raised {obs["error"]} ({obs.get("msg", "")}) for {what}'
        n = map_size(case)
        npix = 12 * case['nside'] ** 2
        pix = obs['pix']
        if len(pix) != ndet * ndir * nsamp:
            return f'pixel table has {len(pix)} entries for {what}'
        if min(pix) < 0 or max(pix) >= npix:
            return f'pixel table entry outside 0..{npix - 1}: {min(pix)}..{max(pix)}'
        if 'ref_pix' not in obs:
            return f'pixel table of {len(pix)} entries cannot be compared with the independent pointing model for {what}'
        if obs['pix_mismatch']:
            k = obs['pix_mismatch'][0]
            d, m, t = k // (ndir * nsamp), (k // nsamp) % ndir, k % nsamp
            return (
                f'pixel table entry [detector {d}, direction {m}, sample {t}] = {pix[k]} but the independent Rz(phi).Ry(theta).Rz(psi) + healpy '
                f'computation gives pixel {obs["ref_pix"][k]} (theta={case["theta"][t]:.6g}, phi={case["phi"][t]:.6g}, psi={case["pa"][t]:.6g}, detector offset '
                f'({case["det_x"][d][m]}, {case["det_y"][d][m]}, {case.get("det_z", 1.0)}); {len(obs["pix_mismatch"])} of {len(pix)} entries differ, none within '
                f'{boundary_eps(case.get("x64", True)):g} rad of a pixel border) for {what}'
            )
        shape = [ndet, nsamp] if ndir == 1 else [ndet, ndir, nsamp]
        if obs['tod_shape'] != shape or any(s != shape for s in obs['proj_shape']) or obs['acq_shape'] != shape:
            return f'time-ordered shapes {obs["tod_shape"]} / {obs["proj_shape"]} / {obs["acq_shape"]}, expected {shape} for {what}'
        tol = tolerance(case)
        proj, acq, hits, H = expected(case, pix)
        sky = sky_values(case)
        if len(obs['proj']) != len(case['stokes']):
            return f'projection returned {len(obs["proj"])} Stokes components for {case["stokes"]}'
        for ci, k in enumerate(case['stokes']):
            d = first_diff(obs['proj'][ci], proj[ci], tol)
            if d:
                return f'projection, component {k}: {d} (implementation vs sky[pix] rotated by 2 psi_t) for {what}'
        for name in ('acq_built', 'acq'):
            d = first_diff(obs[name], acq, tol)
            if d:
                return f'{"acquisition as built" if name == "acq_built" else "reduced acquisition"}: {d} (implementation vs (I + Q cos 2psi - U sin 2psi)/2 at the pixel) for {what}'
        for name in ('H_built', 'H'):
            if name in obs:
                d = first_diff(obs[name], H, rtol(case))
                if d:
                    return f'dense matrix of the {"acquisition as built" if name == "H_built" else "reduced acquisition"}: {d} for {what}'
        for name in ('ptp', 'ptp_red'):
            for ci, k in enumerate(case['stokes']):
                d = first_diff(obs[name][ci], hits * np.array(sky[ci], dtype=np.float64), tol * max(1.0, hits.max()))
                if d:
                    return f'{"P.T @ P" if name == "ptp" else "reduce(P.T @ P)"} applied to the map, component {k}: {d} (implementation vs hit count x map) for {what}'
        mtol = rtol(case)
        for dn, on, label in (('ptp_diag', 'ptp_offdiag', '(P.T @ P).reduce().as_matrix()'), ('ptp_built_diag', 'ptp_built_offdiag', '(P.T @ P).as_matrix()')):
            if dn in obs:
                d = first_diff(obs[dn], np.tile(hits, len(case['stokes'])), mtol * max(1.0, hits.max()))
                if d:
                    return f'diagonal of {label}: {d} (implementation vs hit counts) for {what}'
                if not obs[on] <= mtol * max(1.0, hits.max()):
                    return f'{label} has an off-diagonal entry of magnitude {obs[on]} for {what}'
        return None

    def finding_key(self, case, obs):
        if isinstance(obs, dict) and obs.get('where') == 'create_acquisition' and obs.get('error') == 'ValueError':
            if len(case['det_x'][0]) > 1:
                return 'acquisition-several-directions-per-detector-structure-mismatch'
            return 'acquisition-tod-dtype-structure-mismatch'
        if isinstance(obs, dict) and obs.get('where') == 'P.T @ P' and obs.get('error') == 'TypeError' and case.get('dtype') == 'float32' and case.get('x64', True):
            return 'float32-map-float64-angles-unreduced-transpose-TypeError'
        if isinstance(obs, dict) and obs.get('pix_mismatch'):
            return 'pixel-table-differs-from-independent-pointing'
        return case.get('key')

    def shrink(self, case, failing):
        """Fewer samples / detectors / directions while the oracle still fails."""
        if case['kind'] != 'acq':
            return case
        cur = dict(case)

        def fails(c):
            try:
                return bool(self.oracle(c, lib.canon(self.run_impl(c))))
            except Exception:
                return False

        for _ in range(12):
            changed = False
            cands = []
            if len(cur['pa']) > 1:
                cands.append({**cur, 'theta': cur['theta'][:-1], 'phi': cur['phi'][:-1], 'pa': cur['pa'][:-1]})
            if len(cur['det_x']) > 1:
                cands.append({**cur, 'det_x': cur['det_x'][:-1], 'det_y': cur['det_y'][:-1], 'ndet': len(cur['det_x']) - 1})
            if len(cur['det_x'][0]) > 2:
                cands.append({**cur, 'det_x': [r[:-1] for r in cur['det_x']], 'det_y': [r[:-1] for r in cur['det_y']], 'ndir': len(cur['det_x'][0]) - 1})
            for c in cands:
                if fails(c):
                    cur, changed = c, True
                    break
            if not changed:
                break
        return cur

    # ---- partial clause: numerical testing only ------------------------------------------------
    def pointing_requests(self):
        """(x64 mode, worker slot, request) of the numerical pointing cross-check; nside up to 8192 (pixel numbers above 2**24 from
        nside 2048), float32 and float64 landscapes, in both x64 modes."""
        quick = self.tier == 'quick'
        both = lambda nsides: [[n, dt] for n in nsides for dt in ('float32', 'float64')]  # noqa: E731
        nrandom, ntarget = (300, 150) if quick else (3000, 1500)
        parts = {
            (True, 10): [[n, 'float64'] for n in (1, 2, 4, 8, 16, 64)] + both((256, 8192) if quick else (32, 256, 4096)),
            (True, 11): [[n, 'float32'] for n in (1, 4, 64)] + both((1024, 2048) if quick else (1024, 2048, 8192)),
            # x64 disabled: float32 landscapes (a structure that declares float64 cannot be matched by any array in this mode - DESIGN
            # section 7 - and create_projection_operator rejects it: recorded for one configuration, not a failure)
            (False, 10): [[n, 'float32'] for n in ((1, 64, 2048) if quick else (1, 4, 64, 256, 2048))] + [[4, 'float64']],
            (False, 11): [[n, 'float32'] for n in ((1024, 8192) if quick else (16, 1024, 4096, 8192))],
        }
        return [(x64, slot, {'op': 'pointing', 'configs': cfg, 'nrandom': nrandom, 'ntarget': ntarget, 'seed': self.seed, 'x64': x64}) for (x64, slot), cfg in parts.items()]

    def start_pointing(self):
        """The cross-check runs on its own worker processes, concurrently with the acquisition cases and the model evaluation."""
        from concurrent.futures import ThreadPoolExecutor

        if self._pointing is None:
            ex = ThreadPoolExecutor(max_workers=4)
            self._pointing = [(x64, ex.submit(ask, x64, req, slot)) for x64, slot, req in self.pointing_requests()]
            ex.shutdown(wait=False)

    def extra(self):
        self.start_pointing()
        out = {'failures': []}
        for x64 in (True, False):
            merged = {'per_config': {}, 'directions': 0, 'boundary_mismatches': 0}
            for mode, fut in self._pointing:
                if mode != x64:
                    continue
                res = fut.result()
                merged['per_config'].update(res['per_config'])
                merged['directions'] += res['directions']
                merged['boundary_mismatches'] += res['boundary_mismatches']
                merged['boundary_eps_rad'] = res['boundary_eps_rad']
                out['failures'] += res['failures']
            out['pointing_vs_numpy_healpy_x64' if x64 else 'pointing_vs_numpy_healpy_x64_off'] = merged
        out['failures'] = out['failures'][:5]
        out['note'] = (
            'pixel table of create_projection_operator vs independent float64 NumPy Rz(phi).Ry(theta).Rz(psi) (product of the three elementary '
            'rotations) applied to the normalised detector directions + healpy.vec2pix / ang2pix (ring ordering). Per configuration (nside, landscape '
            'dtype, x64 mode): layouts 4 detectors x 1 direction and 2 x 3, every direction off the boresight axis except one; psi over (-2 pi, 2 pi), '
            'phi over (-pi, 2 pi), theta over [0, pi]; classes random / pole, meridian, cap-border boresights / pixel centres (all of them for nside <= 4, '
            'else special pixel numbers around 2**24..2**29 and random ones) / interior (a chosen off-axis detector aimed 30 % of the way from a pixel '
            f'centre to a neighbour) / border (x64 only: aimed {DELTAS} rad inside a pixel border located by bisection). A mismatch is a failure unless the '
            f"implementation's pixel is within {EPS64:g} rad (x64; float64 pointing whatever the map dtype) or {EPS32:g} rad (x64 off: float32 pointing, angles "
            'given as float32 values) of the reference direction; those are counted under near_boundary'
        )
        return out


if __name__ == '__main__':
    if '--worker' in sys.argv:
        worker_main()
