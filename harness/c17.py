"""C17 - sky pixelisation maps coordinates to indices consistently (partial: healpy agreement).

Real code: furax.landscapes.StokesLandscape (through a trivial CAR subclass, as the repository's own
tests do), HealpixLandscape, FrequencyLandscape: constructors, pixel2index, world2index, get_coverage.
Model: coq/theories/Model/Landscape.v.  Oracle (independent of the model): closed formula with
Python's round() on Fractions (round-half-even), set equality for the bijection, np.add.at over the
NumPy-broadcast Sampling fields (theta, phi, pa of different but broadcastable shapes), healpy.ang2pix.

Cases that need jax_enable_x64 (maps with more than 2^31-1 pixels) run in a worker subprocess
(`python c17.py --worker`, JAX_ENABLE_X64=1).  The numerical healpy cross-check (extra()) runs in BOTH
x64 modes (driver + worker, in parallel), for every landscape dtype, float64 and float32 angles, nside
1..8192 (and 16384, 2^20 with x64); its failures are VIOLATIONs with the direction as replay.
"""
from __future__ import annotations

import atexit
import itertools
import json
import math
import os
import subprocess
import sys
from fractions import Fraction
from pathlib import Path

sys.path.insert(0, str(Path(__file__).parent))

import lib  # noqa: E402
from lib import PropertyCheck, clist, copt, cz  # noqa: E402

I32MAX = 2**31 - 1
STOKES = ['I', 'QU', 'IQU', 'IQUV']
# Directions whose longitude lies within one ulp below 0: the pinned HealpixLandscape.world2pixel handed them to
# jax_healpy, whose polar-cap branch then returns the first pixel of the NEXT ring (or npix -> -1).  Fixed by furax
# commit 074fe93 (fixes/C17-healpix-phi-wrap.diff): the class is always on (red without that fix).
PHI_ULP_CLASS = True

# ----------------------------------------------------------------------------------------------
# the real code


_cls = {}


def car_class():
    """A StokesLandscape whose world2pixel is the identity (x = theta, y = phi, ...)."""
    if 'car' not in _cls:
        from furax.landscapes import StokesLandscape

        class CARStokesLandscape(StokesLandscape):
            def world2pixel(self, theta, phi):
                return theta, phi

        _cls['car'] = CARStokesLandscape
    return _cls['car']


def x64_mode() -> bool:
    import jax

    return bool(jax.config.jax_enable_x64)


def build(case):
    """The landscape of a case (constructor errors propagate)."""
    land = case.get('land', 'car')
    stokes = case.get('stokes', 'I')
    if land == 'car':
        kw = {}
        if case.get('by', 'shape') in ('shape', 'both'):
            kw['shape'] = tuple(reversed(case['ps']))
        if case.get('by', 'shape') in ('pixel_shape', 'both'):
            kw['pixel_shape'] = tuple(case['ps'])
        return car_class()(stokes=stokes, **kw)
    from furax.landscapes import FrequencyLandscape, HealpixLandscape

    # world2pixel is jitted with `self` static (hashed by identity): reuse the objects
    key = (land, case['nside'], case.get('nfreq'), stokes)
    if key not in _cls:
        if land == 'healpix':
            _cls[key] = HealpixLandscape(case['nside'], stokes)
        elif land == 'frequency':
            import jax.numpy as jnp

            _cls[key] = FrequencyLandscape(case['nside'], jnp.arange(1.0, case['nfreq'] + 1.0), stokes)
        else:
            raise ValueError(land)
    return _cls[key]


def coord_float(c) -> float:
    if isinstance(c, str):
        return float(c)
    return c[0] / c[1]


def axes_of(ps):
    """Quarter-integer numerators covering [-1.25, n + 0.25] on every axis."""
    return [list(range(-5, 4 * n + 2)) for n in ps]


def grid_points(axes):
    """All points of the grid, first axis fastest (the order of Landscape.cartesian)."""
    return [tuple(reversed(t)) for t in itertools.product(*reversed(axes))]


def call_p2i(landscape, columns):
    import numpy as np

    r = landscape.pixel2index(*columns)
    return {'dtype': str(r.dtype), 'idx': np.asarray(r).tolist()}


def impl_case(case):
    """Observation of the real code (runs in the process whose x64 mode matches the case)."""
    import warnings

    import numpy as np

    assert x64_mode() == bool(case.get('x64', False)), 'x64 mode mismatch'
    with warnings.catch_warnings():
        warnings.simplefilter('ignore')
        kind = case['kind']
        try:
            landscape = build(case)
        except (TypeError, ValueError, IndexError, OverflowError) as e:
            return {'error': type(e).__name__}
        if kind == 'ctor':
            return {
                'shape': list(landscape.shape),
                'pixel_shape': list(landscape.pixel_shape),
                'len': len(landscape),
                'size': landscape.size,
            }
        if kind == 'grid':
            pts = grid_points(axes_of(case['ps']) if 'axes' not in case else case['axes'])
            cols = [np.array([p[k] for p in pts], dtype=np.float64) / 4.0 for k in range(len(case['ps']))]
        elif kind == 'points':
            pts = case['pts']
            arity = len(pts[0]) if pts else 0
            cols = [np.array([coord_float(p[k]) for p in pts], dtype=np.float64) for k in range(arity)]
        elif kind == 'coverage':
            return impl_coverage(case, landscape)
        else:
            raise ValueError(kind)
        try:
            return call_p2i(landscape, cols)
        except (TypeError, ValueError, IndexError, OverflowError) as e:
            return {'error': type(e).__name__}


def field_shapes(case):
    """Shapes of the Sampling fields theta, phi, pa of a coverage case (lists; [] is a 0-d array)."""
    if 'tshape' in case:
        return list(case['tshape']), list(case['pshape']), list(case.get('pashape', []))
    shape = list(case.get('sshape') or [len(case['theta'])])
    return shape, shape, list(case.get('pashape', []))


def impl_coverage(case, landscape):
    import jax.numpy as jnp
    import numpy as np

    from furax.samplings import Sampling

    tshape, pshape, pashape = field_shapes(case)
    theta = jnp.asarray(np.array(case['theta'], dtype=np.float64).reshape(tshape))
    phi = jnp.asarray(np.array(case['phi'], dtype=np.float64).reshape(pshape))
    sampling = Sampling(theta, phi, jnp.zeros(tuple(pashape)))
    try:
        indices = landscape.world2index(theta, phi)
        coverage = landscape.get_coverage(sampling)
        n = len(sampling)
    except Exception as e:  # any failure of the code under test is an observation, not a harness crash
        return {'error': type(e).__name__}
    return {
        'indices': np.asarray(indices).ravel().tolist(),
        'index_shape': list(indices.shape),
        'index_dtype': str(indices.dtype),
        'coverage': np.asarray(coverage).ravel().tolist(),
        'cov_shape': list(coverage.shape),
        'shape': list(landscape.shape),
        'len': len(landscape),
        'n': n,
    }


# ----------------------------------------------------------------------------------------------
# healpy cross-check (numerical testing of the unproved clause; both x64 modes, every landscape dtype)


def healpy_directions(nside, nrandom, rng, every_class=True):
    """Test directions by class.  every_class=False keeps the classes that are well-conditioned when the angle
    arithmetic runs in float32 (no direction placed on purpose within 1e-6 rad of a pixel boundary or of the
    phi = 2 pi wrap)."""
    import healpy as hp
    import numpy as np

    th, ph, tag = [], [], []

    def add(t, p, name):
        t = np.atleast_1d(np.asarray(t, dtype=np.float64))
        p = np.atleast_1d(np.asarray(p, dtype=np.float64))
        t, p = np.broadcast_arrays(t, p)
        th.append(t.ravel())
        ph.append(p.ravel())
        tag.extend([name] * t.size)

    npix = 12 * nside * nside
    z = rng.uniform(-1, 1, nrandom)
    add(np.arccos(z), rng.uniform(0, 2 * np.pi if every_class else 6.28, nrandom), 'random')
    if nside <= 16:
        t, p = hp.pix2ang(nside, np.arange(npix))
        add(t, p, 'centre')
    else:
        t, p = hp.pix2ang(nside, rng.integers(0, npix, 2000))
        add(t, p, 'centre')
    # centres of the pixels whose NUMBER is a corner of an integer / floating-point representation (2^k and
    # neighbours, odd numbers above 2^24, the last pixels of the map, first and last pixel of random rings)
    corners = {0, 1, 2, 3, npix - 1, npix - 2, npix - 3, npix // 2, npix // 2 - 1, npix // 2 + 1}
    for k in range(8, 64):
        for d in (-3, -1, 0, 1, 3):
            corners.add(2**k + d)
            corners.add(npix - 2**k + d)
    corners |= {int(v) | 1 for v in rng.integers(npix // 2, npix, 200)}
    for r in rng.integers(1, 4 * nside, 40):
        r = int(r)
        first = 2 * r * (r - 1) if r < nside else (2 * nside * (nside - 1) + (r - nside) * 4 * nside if r <= 3 * nside else npix - 2 * (4 * nside - r) * (4 * nside - r + 1))
        corners |= {first, first - 1, first + 1}
    corners = np.array(sorted(c for c in corners if 0 <= c < npix), dtype=np.int64)
    t, p = hp.pix2ang(nside, corners)
    add(t, p, 'index-corner')
    if PHI_ULP_CLASS:
        # longitudes within one ulp below 0 (double and single precision), in the caps and in the belt
        tcap = np.concatenate([np.arccos(rng.uniform(2 / 3, 1, 6)), np.arccos(rng.uniform(-1, -2 / 3, 6)), np.arccos(rng.uniform(-2 / 3, 2 / 3, 4))])
        tlast, _ = hp.pix2ang(nside, np.array([0, npix - 1]))
        for p0 in (-5e-324, -1e-17, -1e-16, -3e-16, -1e-12, -1e-9, -1e-8, -5e-8):
            add(np.concatenate([tcap, tlast]), p0, 'phi-ulp-below-zero')
    if not every_class:
        theta = np.clip(np.concatenate(th), 0.0, np.pi)
        return theta, np.concatenate(ph), tag
    # between consecutive rings (ring r has z = 1 - r^2/(3 nside^2) in the caps, 4/3 - 2r/(3 nside)
    # in the belt) and at the polar-cap / equatorial-belt transition z = +-2/3
    def ring_z(r):
        if r < nside:
            return 1 - r * r / (3 * nside * nside)
        if r <= 3 * nside:
            return 4 / 3 - 2 * r / (3 * nside)
        rr = 4 * nside - r
        return -(1 - rr * rr / (3 * nside * nside))

    rings = np.unique(np.concatenate([np.arange(1, min(4 * nside - 1, 40)), rng.integers(1, max(2, 4 * nside - 1), 40)]))
    rings = rings[(rings >= 1) & (rings <= 4 * nside - 2)]
    if len(rings):
        mids = np.array([(np.arccos(ring_z(int(r))) + np.arccos(ring_z(int(r) + 1))) / 2 for r in rings])
    else:
        mids = np.array([np.pi / 2])
    phis = rng.uniform(0, 2 * np.pi, 8)
    for dt in (-1e-6, 0.0, 1e-6):
        add((mids + dt)[:, None], phis[None, :], 'ring-boundary')
    for zz in (2 / 3, -2 / 3):
        for dz in (-1e-7, 0.0, 1e-7):
            add(np.arccos(zz + dz), phis, 'cap-transition')
    # poles and phi wrap-around
    add([0.0, np.pi], 0.0, 'pole')
    add([0.0, np.pi, 1e-12, np.pi - 1e-12], phis[:4], 'pole')
    ts = np.arccos(rng.uniform(-1, 1, 16))
    for p0 in (0.0, 2 * np.pi, -1e-9, 2 * np.pi - 1e-9, -0.5, -2 * np.pi, 4 * np.pi + 0.25, -7.0, np.pi / 2, np.pi, 3 * np.pi / 2):
        add(ts, p0, 'phi-wrap')
    # pixel boundaries in phi on the equator ring (phi = k * pi / (2 nside) +- eps)
    k = rng.integers(0, 4 * nside, 16)
    for dp in (-1e-7, 1e-7):
        add(np.pi / 2, k * np.pi / (2 * nside) + dp, 'phi-boundary')
    theta = np.clip(np.concatenate(th), 0.0, np.pi)
    return theta, np.concatenate(ph), tag


EPS32 = 2.0**-23


def np_dtype(name):
    import numpy as np

    return {'float32': np.float32, 'float64': np.float64, 'float16': np.float16}[name]


def effective_angles(theta, phi, angle_dtype, x64):
    """The angle values the code really sees (float64 arrays holding them exactly) and whether the angle
    arithmetic runs in single precision.  With x64 disabled every array is float32."""
    import numpy as np

    single = angle_dtype == 'float32' or not x64
    theta = np.atleast_1d(np.asarray(theta, dtype=np.float64))
    phi = np.atleast_1d(np.asarray(phi, dtype=np.float64))
    if single:
        below_pi = np.nextafter(np.float32(np.pi), np.float32(0))  # float32(pi) > pi: healpy would reject it
        theta = np.minimum(theta.astype(np.float32), below_pi).astype(np.float64)
        phi = phi.astype(np.float32).astype(np.float64)
    return theta, phi, single


def angle_tolerance(theta, single):
    """Radius (rad) of the disc around a direction inside which the rounding of the angle arithmetic may
    legitimately move it: 1e-9 in double precision; in single precision 128 ulp of the pixel arithmetic plus the
    cancellation of 1 - |cos(theta)| near the poles (error eps / sin(theta) on theta)."""
    import numpy as np

    if not single:
        return 1e-9 + 0.0 * theta
    # 128 ulp: measured on jax_healpy's float32 ring arithmetic at nside 8192 (seed 4: one direction of 22 684 returned a pixel
    # 9.6e-6 rad = 0.08 pixel = 80 ulp away from the direction; the library itself warns that without 64-bit precision its
    # results diverge from healpy at moderate nside).  Double precision configurations keep the 1e-9 rad tolerance.
    return 128 * EPS32 * (1.0 + 1.0 / np.maximum(np.sin(theta), 1e-6))


def explained_by_rounding(nside, theta, phi, got, single):
    """Is pixel `got` within the rounding tolerance of the direction?  (superset test: healpy.query_disc with
    inclusive=True returns every pixel that overlaps the disc)"""
    import healpy as hp
    import numpy as np

    npix = 12 * nside * nside
    if not (0 <= got < npix):
        return False
    r = float(angle_tolerance(np.float64(theta), single))
    fact = max(1, min(2**29 // nside, 4096))
    disc = hp.query_disc(nside, hp.ang2vec(theta, phi), min(r, np.pi), inclusive=True, fact=fact)
    return bool(np.any(disc == got))


def exact_capacity(dtype) -> int:
    """Largest M such that every integer 0..M is exactly representable in the dtype."""
    import numpy as np

    dt = np.dtype(dtype)
    if dt.kind in 'iu':
        return int(np.iinfo(dt).max)
    if dt.kind == 'f':
        return 2 ** (np.finfo(dt).nmant + 1)
    return 0


def healpy_eval(nside, dtype, angle_dtype, theta, phi):
    """world2pixel / world2index of a HealpixLandscape(nside, dtype=dtype) on the directions, in THIS process's
    x64 mode, next to healpy.ang2pix (ring) on the angle values the code saw."""
    import warnings

    import healpy as hp
    import jax.numpy as jnp
    import numpy as np

    x64 = x64_mode()
    key = ('healpy', nside, dtype)
    if key not in _cls:
        from furax.landscapes import HealpixLandscape

        _cls[key] = HealpixLandscape(nside, 'I', dtype=np_dtype(dtype))
    landscape = _cls[key]
    th, ph, single = effective_angles(theta, phi, angle_dtype, x64)
    with warnings.catch_warnings():
        warnings.simplefilter('ignore')  # x64 off: the requested float64 is silently float32
        jt = jnp.asarray(th, dtype=np_dtype(angle_dtype))
        jp = jnp.asarray(ph, dtype=np_dtype(angle_dtype))
        pixels = landscape.world2pixel(jt, jp)
        index = landscape.world2index(jt, jp)
    return {
        'theta': th,
        'phi': ph,
        'single': single,
        'npixels': len(pixels) if isinstance(pixels, (tuple, list)) else None,
        'pixel': np.asarray(pixels[0]) if isinstance(pixels, (tuple, list)) and len(pixels) else np.asarray(pixels),
        'index': np.asarray(index),
        'healpy': np.asarray(hp.ang2pix(nside, th, ph)),
    }


def healpy_judge(nside, ev, i):
    """The 'agrees with healpy' clause on direction i of an evaluation: None or a message."""
    import numpy as np

    npix = 12 * nside * nside
    pix, idx = ev['pixel'], ev['index']
    if ev['npixels'] != 1:
        return f'world2pixel returned {ev["npixels"]} coordinates for a 1-d map'
    if pix.shape != ev['healpy'].shape or idx.shape != ev['healpy'].shape:
        return f'world2pixel/world2index shapes {pix.shape}/{idx.shape} for directions of shape {ev["healpy"].shape}'
    got, exp, p = int(idx[i]), int(ev['healpy'][i]), pix[i]
    if got != exp and not explained_by_rounding(nside, float(ev['theta'][i]), float(ev['phi'][i]), got, ev['single']):
        tol = float(angle_tolerance(np.float64(ev['theta'][i]), ev['single']))
        return (
            f'world2index={got} but healpy.ang2pix={exp} (nside={nside}, {pix.dtype} pixel number {p!r} from world2pixel; '
            f'pixel {got} is not within {tol:.1e} rad of the direction)'
        )
    if not np.isfinite(p) or float(p) != float(int(p)) or int(p) != got:
        return f'world2pixel={p!r} is not the integer world2index={got}'
    if exact_capacity(pix.dtype) < npix - 1:
        return f'world2pixel returns {pix.dtype}, which cannot hold every pixel number below npix={npix} exactly'
    if idx.dtype.kind not in 'iu' or exact_capacity(idx.dtype) < npix - 1:
        return f'world2index returns {idx.dtype}, not an integer type wide enough for npix={npix}'
    return None


def healpy_case(nside, dtype, angle_dtype, theta, phi):
    return {'kind': 'healpy', 'nside': int(nside), 'dtype': dtype, 'angle_dtype': angle_dtype, 'theta': float(theta), 'phi': float(phi), 'x64': x64_mode()}


NPOT_KEY = 'healpix-nside-not-power-of-two-equatorial-belt'


def npot_signature(nside, got, exp) -> bool:
    """The signature of the known jax_healpy defect: both pixel numbers lie in the SAME ring of the equatorial belt
    (rings nside .. 3 nside, 4 nside pixels each) - only the position inside the ring is wrong."""
    ncap, npix = 2 * nside * (nside - 1), 12 * nside * nside
    got, exp = int(got), int(exp)
    if not (ncap <= got < npix - ncap and ncap <= exp < npix - ncap):
        return False
    return (got - ncap) // (4 * nside) == (exp - ncap) // (4 * nside)


def healpy_check(configs, seed):
    """configs: [nside, landscape dtype, angle dtype, nrandom, hard].  `hard` configurations use every class of
    directions (double precision angles); the others (single precision angle arithmetic) use the classes that
    are well-conditioned in float32 (random directions away from the phi wrap, pixel centres, index corners)
    and the float32 tolerance."""
    import numpy as np

    rng = np.random.default_rng(seed)
    out = {'x64': x64_mode(), 'per_config': {}, 'failures': [], 'boundary_mismatches': 0, 'directions': 0}
    for nside, dtype, angle_dtype, nrandom, hard in configs:
        theta, phi, tag = healpy_directions(nside, nrandom, rng, every_class=hard)
        ev = healpy_eval(nside, dtype, angle_dtype, theta, phi)
        name = f'nside={nside} dtype={dtype} angles={angle_dtype}'
        rec = {'directions': int(theta.size), 'index_dtype': str(ev['index'].dtype), 'pixel_dtype': str(ev['pixel'].dtype)}
        same_shape = ev['index'].shape == ev['healpy'].shape == ev['pixel'].shape
        if same_shape:
            with np.errstate(invalid='ignore'):
                bad = np.nonzero((ev['index'] != ev['healpy']) | (ev['pixel'] != ev['index']))[0]
        else:
            bad = np.arange(min(1, theta.size))
        # structural clauses (dtype, arity) are judged on the first direction even without a mismatch
        todo = list(bad) if len(bad) else [0]
        npot = nside & (nside - 1) != 0
        if npot and len(bad):
            # known finding (KNOWN_FINDINGS.txt): jax_healpy's ring lookup masks the in-ring index with `& (4 nside - 1)`,
            # which is `% (4 nside)` only for power-of-two nside - wrong pixels in the equatorial belt |cos theta| <= 2/3.
            # Mismatches in the polar caps are examined FIRST so that anything else is still reported as a violation.
            belt = np.array([npot_signature(nside, ev['index'][j], ev['healpy'][j]) for j in bad]) if same_shape else np.zeros(len(bad), bool)
            todo = list(bad[np.argsort(belt, kind='stable')])
        nb, nfail, by_class = 0, 0, {}
        for i in todo:
            if nfail >= 1:
                rec['unexamined_mismatches'] = int(len(todo) - todo.index(i))
                break
            msg = healpy_judge(nside, ev, int(i))
            if msg is None:
                nb += int(len(bad) > 0)
                continue
            nfail += 1
            by_class[tag[i]] = by_class.get(tag[i], 0) + 1
            if len(out['failures']) < 4:
                out['failures'].append(
                    {
                        'case': healpy_case(nside, dtype, angle_dtype, ev['theta'][i], ev['phi'][i]),
                        'observation': {'world2index': int(ev['index'][i]) if same_shape else None, 'healpy': int(ev['healpy'][i]), 'class': tag[i], 'mismatching_directions': int(len(bad)), 'of': int(theta.size)},
                        'oracle': msg,
                        'key': NPOT_KEY if npot and same_shape and npot_signature(nside, ev['index'][i], ev['healpy'][i]) else None,
                    }
                )
        rec.update({'mismatches': int(len(bad)), 'within_rounding_tolerance': nb, 'failures': nfail, 'failures_by_class': by_class})
        out['per_config'][name] = rec
        out['boundary_mismatches'] += nb
        out['directions'] += int(theta.size)
    return out


def healpy_single(case):
    ev = healpy_eval(case['nside'], case.get('dtype', 'float64'), case.get('angle_dtype', 'float64'), [case['theta']], [case['phi']])
    msg = healpy_judge(case['nside'], ev, 0)
    return {'world2index': int(ev['index'].ravel()[0]), 'world2pixel': repr(ev['pixel'].ravel()[0]), 'pixel_dtype': str(ev['pixel'].dtype), 'index_dtype': str(ev['index'].dtype), 'healpy': int(ev['healpy'][0]), 'verdict': msg}


# ----------------------------------------------------------------------------------------------
# worker processes (one per x64 mode that differs from the driver's)


def worker_main():
    out = sys.stdout
    sys.stdout = sys.stderr  # keep the protocol channel clean
    for line in sys.stdin:
        req = json.loads(line)
        try:
            if req['op'] == 'case':
                res = {'ok': lib.canon(impl_case(req['case']))}
            elif req['op'] == 'healpy':
                res = {'ok': healpy_check(req['configs'], req['seed'])}
            elif req['op'] == 'healpy1':
                res = {'ok': healpy_single(req['case'])}
            else:
                res = {'err': 'unknown op'}
        except Exception as e:  # reported to the driver as a harness error
            import traceback

            res = {'err': f'{type(e).__name__}: {e}', 'tb': traceback.format_exc()[-1500:]}
        out.write(json.dumps(res) + '\n')
        out.flush()


_workers: dict = {}


def worker(x64: bool):
    if x64 not in _workers:
        env = dict(os.environ)
        env['JAX_ENABLE_X64'] = '1' if x64 else '0'
        env['PYTHONPATH'] = str(lib.REPO / 'src')
        env['JAX_PLATFORMS'] = 'cpu'
        p = subprocess.Popen(
            [sys.executable, str(Path(__file__).resolve()), '--worker'],
            stdin=subprocess.PIPE,
            stdout=subprocess.PIPE,
            stderr=subprocess.DEVNULL,
            text=True,
            env=env,
        )
        _workers[x64] = p
        atexit.register(p.kill)
    return _workers[x64]


def submit(x64: bool, req: dict):
    """Send a request to the worker of that mode; returns the function that waits for the answer."""
    p = worker(x64)
    p.stdin.write(json.dumps(req) + '\n')
    p.stdin.flush()

    def result():
        line = p.stdout.readline()
        if not line:
            raise RuntimeError('x64 worker died')
        res = json.loads(line)
        if 'err' in res:
            raise RuntimeError(res['err'] + '\n' + res.get('tb', ''))
        return res['ok']

    return result


def ask(x64: bool, req: dict):
    return submit(x64, req)()


# ----------------------------------------------------------------------------------------------
# the property, stated independently of the Coq model


def py_round(c):
    """Round half to even on an exact rational (Python's round on Fraction); infinities stay."""
    if isinstance(c, str):
        return {'inf': math.inf, '-inf': -math.inf, 'nan': None}[c]
    return round(Fraction(c[0], c[1]))


def expected_index(ps, rounded):
    idx, stride = 0, 1
    for c, n in zip(rounded, ps):
        if not (0 <= c < n):
            return -1
        idx += c * stride
        stride *= n
    return idx


def check_points(ps, pts, obs, x64):
    """The C17 clauses on a batch of full-arity points; None or a message with the failing point."""
    N = math.prod(ps)
    if 'error' in obs:
        return f'pixel2index raised {obs["error"]} on a {len(ps)}-d map of shape {ps}', None
    import numpy as np

    info = np.iinfo(obs['dtype'])
    if info.max < N - 1 or info.min > -1:
        return f'index dtype {obs["dtype"]} is not wide enough for N={N}', (pts[0] if pts else None)
    if len(obs['idx']) != len(pts):
        return f'{len(obs["idx"])} indices for {len(pts)} points', None
    seen = {}
    for p, got in zip(pts, obs['idx']):
        r = [py_round(c) for c in p]
        if any(c is None for c in r):
            continue  # nan is not a real coordinate (boundary, see the report)
        exp = expected_index(ps, r)
        if got != exp:
            shown = [coord_float(c) for c in p]
            return f'pixel_shape {ps}: coordinate {shown} -> {got}, expected {exp}', p
        if all(not isinstance(c, str) and c[0] % c[1] == 0 for c in p) and exp >= 0:
            if got in seen and seen[got] != r:
                return f'pixel_shape {ps}: integer points {seen[got]} and {r} share index {got}', p
            seen[got] = r
    return None, None


# ----------------------------------------------------------------------------------------------
# Coq terms


def coq_coord(c) -> str:
    if isinstance(c, str):
        return {'inf': 'PInf', '-inf': 'NInf', 'nan': 'NaN'}[c]
    return f'Fin (({c[0]}) # {c[1]})'


def coq_float(x) -> str:
    """A finite float as the exact rational it is."""
    f = Fraction(float(x))
    return f'Fin (({f.numerator}) # {f.denominator})'


def coq_landscape(case) -> str:
    n = len(case.get('stokes', 'I'))
    land = case.get('land', 'car')
    if land == 'car':
        by = case.get('by', 'shape')
        shape = clist(reversed(case['ps']), cz) if by in ('shape', 'both') else None
        pshape = clist(case['ps'], cz) if by in ('pixel_shape', 'both') else None
        return f'(stokes_landscape {copt(shape)} {copt(pshape)} {n})'
    if land == 'healpix':
        return f'(inl (healpix_landscape {case["nside"]} {n}))'
    return f'(inl (frequency_landscape {case["nside"]} {case["nfreq"]} {n}))'


def f32_exact(v: int) -> bool:
    import numpy as np

    return abs(v) < 2**120 and int(np.float32(v)) == v


def big_coords(n: int, x64: bool):
    """Interesting exactly representable integer coordinates along an axis of n pixels."""
    cands = {0, 1, 5, -1, n - 1, n, n - 2, n // 2, n - 64, n - 128, n - 4096, n + 128, n - 2**16, 2**31 - 128, 2**31, 2**32, 2**32 + 2**12, 3 * 10**9, -3 * 10**9, -(2**31), -(2**40), 2**62, 2**64, 2**100}
    ok = (lambda v: f32_exact(v)) if not x64 else (lambda v: abs(v) < 2**53 or (v & (v - 1)) == 0 or f32_exact(v))
    return sorted(v for v in cands if ok(v))


class Check(PropertyCheck):
    id = 'C17'
    props = ['C17.v', 'C17Ring.v']
    static_targets = ['theories/Lemmas/LandscapeL.vo']
    coq_header = (
        'From Coq Require Import ZArith QArith List.\nFrom Furax Require Import Model.Landscape.\n'
        'Import ListNotations.\nOpen Scope Z_scope.'
    )
    shard = 12
    partial = (
        'HealpixLandscape.world2index (jax_healpy.ang2pix) agrees with healpy.ang2pix (ring ordering) for every '
        'nside and sky direction: third-party floating-point code, cross-checked numerically only '
        '(numerical_tests_not_proof)'
    )
    trusted = [
        'JAX/XLA primitives as modelled in Model/Landscape.v and compared by this harness: jnp.round = round half to '
        'even; float->int astype saturates (nan -> 0); int32/int64 arithmetic wraps; a Python int operand is parsed '
        'as int32 (x64 off) / int64 (x64 on) with OverflowError beyond and then wrapped to the array dtype; with x64 '
        'off a requested int64 silently becomes int32; jnp.unique(return_counts) = sorted distinct values with '
        'multiplicities; .at[i].add drops nothing for in-range i and counts i = -1 into the last element; '
        'jnp.where; reshape keeps row-major order',
        'floating point: coordinates are modelled as exact rationals (every finite float is one); the '
        'correspondence uses exactly representable coordinates (quarter integers, integers with <= 24 significant '
        'bits when x64 is off)',
        'HealpixLandscape.world2pixel = jax_healpy.ang2pix is NOT modelled: theorems take the pixel number it '
        'returns as given (healpix_index_is_pixel); coverage cases feed the model the indices world2index returned',
        'healpy.ang2pix (ring) is the reference of the tested-only clause; a mismatch is tolerated only if the returned '
        'pixel overlaps (healpy.query_disc, inclusive) the disc of radius 1e-9 rad (double precision angles) or '
        '128 ulp32 * (1 + 1/sin theta) (single precision angle arithmetic: x64 off or float32 angles) around the direction; '
        'with single precision angles only random directions, pixel centres and index-corner pixel centres are used. The '
        'landscape dtype / x64 corners of HealpixLandscape.world2pixel (dtype able to hold every pixel number exactly, '
        'integral values equal to world2index) are checked on the implementation only (the model takes the pixel number as given)',
        'NumPy broadcasting (np.broadcast_shapes / broadcast_to) is the reference for Sampling fields of different '
        'shapes in the oracle; the model has its own broadcast (Model/Landscape.v: bshape, broadcast_to) for flat maps; '
        'for HEALPix maps the model receives the indices world2index returned and broadcasts them against pa',
        'correspondence harness harness/c17.py (case generators, the two printers of one case description, the '
        'x64 worker subprocess protocol)',
    ]

    def __init__(self, tier, seed):
        super().__init__(tier, seed)
        self._obs = {}
        self.exhaustive = True
        self.stats = {'points': 0, 'outside_guard_x64_off_large_map': 0, 'outside_guard_beyond_int64': 0, 'coverage_with_out_of_map_samples': 0, 'coverage_pa_broadcasts_beyond_pointing': 0, 'nan_points_skipped': 0}

    # ---- cases -------------------------------------------------------------------------------
    def grid_shapes(self, tier=None):
        quick = (tier or self.tier) == 'quick'
        dims = [1, 2, 3] if quick else [1, 2, 3, 4]
        for nax in (1, 2, 3):
            for ps in itertools.product(dims, repeat=nax):
                yield list(ps)

    def cases(self):
        quick = self.tier == 'quick'
        rng = self.rng
        cases = []
        # (1) exhaustive quarter-integer grids; construction by shape and by pixel_shape alternate,
        #     and every shape of <= 2 axes is done both ways
        for k, ps in enumerate(self.grid_shapes()):
            by = 'shape' if k % 2 == 0 else 'pixel_shape'
            cases.append({'kind': 'grid', 'ps': ps, 'by': by, 'stokes': STOKES[k % 4]})
            if len(ps) <= 2 or not quick:
                cases.append({'kind': 'grid', 'ps': ps, 'by': 'pixel_shape' if by == 'shape' else 'shape', 'stokes': 'I'})
        if not quick:
            # 4 axes: full grids for dims {1,2}, 1500 random grid points for the other shapes
            for ps in itertools.product([1, 2, 3, 4], repeat=4):
                ps = list(ps)
                if max(ps) <= 2:
                    cases.append({'kind': 'grid', 'ps': ps, 'by': 'shape'})
                else:
                    axes = axes_of(ps)
                    pts = [[[rng.choice(a), 4] for a in axes] for _ in range(1500)]
                    cases.append({'kind': 'points', 'ps': ps, 'by': rng.choice(['shape', 'pixel_shape']), 'pts': pts})
        # (2) random larger shapes, random quarter-integer and dyadic points
        for _ in range(30 if quick else 300):
            nax = rng.randrange(1, 5)
            ps = [rng.randrange(1, 40) for _ in range(nax)]
            pts = []
            for _ in range(200):
                p = []
                for n in ps:
                    r = rng.random()
                    if r < 0.6:
                        p.append([rng.randrange(-8, 4 * n + 8), 4])
                    elif r < 0.8:
                        p.append([rng.randrange(-64, 64 * n + 64), 64])
                    else:
                        p.append([2 * rng.randrange(-2, n + 2) + 1, 2])  # ties
                pts.append(p)
            cases.append({'kind': 'points', 'ps': ps, 'by': rng.choice(['shape', 'pixel_shape']), 'pts': pts})
        # (3) constructors
        for shape, pshape in [(None, None), ([2, 3], [3, 2]), ([2], [2]), ([], [])]:
            cases.append({'kind': 'ctor', 'ps': pshape if pshape is not None else [], 'by': 'both' if shape is not None else 'none', 'stokes': 'IQU'})
        for k, ps in enumerate([[2], [2, 3], [3, 2, 4], [5, 1, 1, 2], [7, 7], [1], [], [0, 3], [3, 0]]):
            for by in ('shape', 'pixel_shape'):
                cases.append({'kind': 'ctor', 'ps': ps, 'by': by, 'stokes': STOKES[(k + (by == 'shape')) % 4]})
        for nside in (1, 2, 4, 64, 8192, 16384):
            cases.append({'kind': 'ctor', 'land': 'healpix', 'nside': nside, 'stokes': STOKES[nside % 4]})
            cases.append({'kind': 'ctor', 'land': 'frequency', 'nside': nside, 'nfreq': 3, 'stokes': 'QU'})
        # (4) arity: no coordinate, fewer / more coordinates than dimensions, empty pixel_shape
        q = lambda *ks: [[k, 4] for k in ks]  # noqa: E731
        cases += [
            {'kind': 'points', 'ps': [2, 5], 'pts': [[]]},
            {'kind': 'points', 'ps': [2, 5], 'by': 'both', 'pts': [q(0, 0)]},
            {'kind': 'points', 'ps': [2, 5], 'by': 'none', 'pts': [q(0, 0)]},
            {'kind': 'points', 'ps': [], 'pts': [q(0)]},
            {'kind': 'points', 'ps': [], 'pts': [[]]},
            {'kind': 'points', 'ps': [2, 5], 'pts': [q(k) for k in range(-5, 11)]},
            {'kind': 'points', 'ps': [2, 3, 4], 'pts': [q(a, b) for a in range(-3, 10) for b in range(-3, 14)]},
            {'kind': 'points', 'ps': [2, 5], 'pts': [q(a, b, c) for a in (-4, 0, 4, 6) for b in (-4, 0, 8, 18) for c in (-40, 0, 4, 400)]},
            {'kind': 'points', 'ps': [3], 'pts': [q(a, b) for a in range(-3, 14) for b in (-8, 0, 8)]},
            {'kind': 'points', 'ps': [0, 3], 'pts': [q(a, b) for a in (-4, 0, 4) for b in (0, 4)]},
            {'kind': 'points', 'ps': [3, 0], 'pts': [q(a, b) for a in (-4, 0, 4) for b in (-4, 0, 4)]},
        ]
        # (5) infinities, nan, huge coordinates (saturation of astype)
        special = ['inf', '-inf', 'nan']
        for ps in ([3], [2, 5], [3, 2, 2]):
            pts = []
            for k in range(len(ps)):
                for s in special + [[3 * 10**9, 1], [-3 * 10**9, 1], [2**32, 1], [2**32 + 2**12, 1], [2**31, 1], [-(2**31), 1], [2**100, 1], [-(2**100), 1], [2**31 - 128, 1]]:
                    p = q(*([4] * len(ps)))
                    p[k] = s
                    pts.append(p)
            cases.append({'kind': 'points', 'ps': ps, 'pts': pts})
            cases.append({'kind': 'points', 'ps': ps, 'pts': pts, 'x64': True})
        # (6) width: maps around 2^31 pixels (never allocated), both x64 modes
        bigs = [
            [70000, 70000], [2**31 - 1], [2**31], [2**31, 1], [1, 2**31], [2**30, 2], [2, 2**30], [65536, 32768],
            [3, 2**31], [70000, 70000, 2], [2**31 + 1], [46341, 46341], [46340, 46341], [12 * 8192**2],
            [12 * 16384**2], [1291, 1291, 1289], [1290, 1290, 1290], [2**20, 2**20, 2**20], [2**16, 2**16, 2**16, 2**14], [2**16, 2**16, 2**16, 2**15],
        ]  # fmt: skip
        for ps in bigs:
            for x64 in (False, True):
                axes = [big_coords(n, x64) for n in ps]
                pts = []
                for k in range(len(ps)):  # vary one axis at a time around two base points
                    for base in (0, 1):
                        for v in axes[k]:
                            p = [[min(base, n - 1), 1] for n in ps]
                            p[k] = [v, 1]
                            pts.append(p)
                pts.append([[max(v for v in a if v < n), 1] for a, n in zip(axes, ps)])  # the far corner
                for _ in range(20):
                    pts.append([[rng.choice([v for v in a if -1 <= v <= n]), 1] for a, n in zip(axes, ps)])
                cases.append({'kind': 'points', 'ps': ps, 'by': 'pixel_shape', 'pts': pts, 'x64': x64})
        # (7) coverage
        import numpy as np

        nrng = np.random.default_rng(self.seed + 17)
        for nside in (1, 2, 4):
            npix = 12 * nside**2
            import healpy as hp

            tc, pc = hp.pix2ang(nside, np.arange(npix))
            sets = {
                'every-pixel-once': (tc, pc),
                'all-in-one-pixel': (np.full(57, tc[npix // 3]), np.full(57, pc[npix // 3])),
                'empty': (np.zeros(0), np.zeros(0)),
                'single': (tc[-1:], pc[-1:]),
                'last-and-first': (np.concatenate([tc[:1], tc[-1:], tc[-1:]]), np.concatenate([pc[:1], pc[-1:], pc[-1:]])),
            }
            for r in range(3 if quick else 12):
                n = (57, 200, 200, 1000)[r % 4]  # few distinct sizes: every new size recompiles ang2pix
                sets[f'random-{r}'] = (np.arccos(nrng.uniform(-1, 1, n)), nrng.uniform(0, 2 * np.pi, n))
            n2 = 6 * 7
            sets['two-dimensional'] = (np.arccos(nrng.uniform(-1, 1, n2)), nrng.uniform(0, 2 * np.pi, n2))
            for name, (t, p) in sets.items():
                c = {'kind': 'coverage', 'land': 'healpix', 'nside': nside, 'name': name, 'stokes': STOKES[nside % 4], 'theta': [float(x) for x in t], 'phi': [float(x) for x in p]}
                if name == 'two-dimensional':
                    c['sshape'] = [6, 7]
                cases.append(c)
            t, p = sets['random-0']
            cases.append({'kind': 'coverage', 'land': 'frequency', 'nside': nside, 'nfreq': 2, 'name': 'frequency', 'theta': [float(x) for x in t], 'phi': [float(x) for x in p]})
        # flat maps: the repository's own test, every pixel, and samples outside the map
        cases.append({'kind': 'coverage', 'land': 'car', 'ps': [2, 5], 'name': 'repo-test', 'theta': [0.0, 1, 0, 1, 1, 1, 0], 'phi': [0.0, 0, 0, 3, 0, 1, 0]})
        for ps in ([2, 5], [3, 3], [4, 1]):
            xs = [float(x) for y in range(ps[1]) for x in range(ps[0])]
            ys = [float(y) for y in range(ps[1]) for x in range(ps[0])]
            cases.append({'kind': 'coverage', 'land': 'car', 'ps': ps, 'by': 'pixel_shape', 'name': 'car-every-pixel', 'theta': xs + xs[:3], 'phi': ys + ys[:3]})
            n = 60
            cases.append({'kind': 'coverage', 'land': 'car', 'ps': ps, 'name': 'car-random-inside', 'theta': [nrng.integers(0, 4 * ps[0] - 2) / 4 - 0.25 for _ in range(n)], 'phi': [nrng.integers(0, 4 * ps[1] - 2) / 4 - 0.25 for _ in range(n)]})
            cases.append({'kind': 'coverage', 'land': 'car', 'ps': ps, 'name': 'car-with-outside', 'theta': [nrng.integers(-8, 4 * ps[0] + 8) / 4 for _ in range(n)], 'phi': [nrng.integers(-8, 4 * ps[1] + 8) / 4 for _ in range(n)]})
        # (8) Sampling fields of different but broadcastable shapes (0-d, (n,), (1,), (d,1) x (1,n), 3-d, empty,
        #     incompatible) x value regimes (spread / many hits in few pixels / one pixel) x fewer or more
        #     samples than pixels x pa shapes (0-d, trailing axis, full; larger than the pointing)
        cases += self.broadcast_coverage_cases(nrng)
        for c in cases:
            c.setdefault('x64', False)
        return cases

    @staticmethod
    def shape_pairs(d, n):
        """(theta shape, phi shape): every way two Sampling fields can differ and still broadcast."""
        pairs = [
            ([], []), ([], [n]), ([n], []), ([1], [n]), ([n], [1]), ([n], [n]), ([1], [1]), ([], [1]),
            ([d, 1], [1, n]), ([1, n], [d, 1]), ([d, 1], [n]), ([n], [d, 1]), ([d, n], [n]), ([n], [d, n]),
            ([d, n], []), ([], [d, n]), ([d, n], [d, 1]), ([d, 1], [d, n]), ([d, n], [1, n]), ([1, n], [d, n]),
            ([d, n], [d, n]), ([1, 1], [d, n]), ([d, n], [1, 1, 1]), ([2, 1, 1], [d, n]), ([d, 1, n], [2, 1]), ([2, 1, n], [d, 1]),
            ([0], [0]), ([0], []), ([], [0]), ([d, 0], [1]), ([1, 0], [d, 1]),
            ([2], [3]), ([d, n], [d + 1, 1]), ([n, d], [n]),
        ]  # fmt: skip
        return pairs

    def broadcast_coverage_cases(self, nrng):
        import numpy as np

        quick = self.tier == 'quick'
        out = []
        sizes = [(2, 5), (3, 50)]  # fewer samples than pixels / more samples than pixels

        def pa_shapes(tshape, pshape, k):
            try:
                b = list(np.broadcast_shapes(tuple(tshape), tuple(pshape)))
            except ValueError:
                return [], False
            choice = k % 4
            if choice == 1 and b:
                return b, False
            if choice == 2 and b:
                return b[-1:], False
            if choice == 3 and k % 8 == 3:
                return [2] + (b if b else [3]), True  # pa broadcasts the pointing further
            return [], False

        def values(kind, regime, size, lo, hi):
            """size coordinates: spread over [lo-1/4, hi+1/4) on the quarter-integer grid, from two values, or one."""
            if kind == 'car':
                if regime == 'spread':
                    return (nrng.integers(4 * lo - 1, 4 * hi - 2, size) / 4.0).tolist()
                if regime == 'few':
                    return nrng.choice([lo + 0.25, hi - 1.0], size).tolist()
                return [float((lo + hi) // 2)] * size
            raise ValueError(kind)

        k = 0
        flat = [([4, 6], 'pixel_shape'), ([5, 3], 'shape'), ([3, 2], 'pixel_shape')]
        for si, (d, n) in enumerate(sizes):
            for pi, (tshape, pshape) in enumerate(self.shape_pairs(d, n)):
                regimes = ['spread', 'few', 'one'] if not quick else [['spread', 'few', 'one'][(pi + si) % 3]]
                maps = flat if not quick else [flat[(pi + si) % len(flat)]]
                for ps, by in maps:
                    for regime in regimes:
                        k += 1
                        pashape, larger = pa_shapes(tshape, pshape, k)
                        c = {
                            'kind': 'coverage', 'land': 'car', 'ps': ps, 'by': by, 'name': f'broadcast-{regime}', 'stokes': STOKES[k % 4],
                            'tshape': tshape, 'pshape': pshape, 'pashape': pashape,
                            'theta': values('car', regime, math.prod(tshape), 0, ps[0]),
                            'phi': values('car', regime, math.prod(pshape), 0, ps[1]),
                        }  # fmt: skip
                        if larger:
                            c['pa_larger'] = True
                        out.append(c)
        # HEALPix maps: directions are random (spread), drawn from two values per field (few) or one (one)
        for nside in (1, 2) if quick else (1, 2, 4):
            for si, (d, n) in enumerate(sizes):
                if quick and (si + nside) % 2:
                    continue
                for pi, (tshape, pshape) in enumerate(self.shape_pairs(d, n)):
                    if quick and nside == 1 and pi % 3:
                        continue
                    for regime in ['spread', 'few', 'one'] if not quick else [['spread', 'few', 'one'][(pi + si) % 3]]:
                        k += 1
                        pashape, larger = pa_shapes(tshape, pshape, k)
                        nt, nph = math.prod(tshape), math.prod(pshape)
                        if regime == 'spread':
                            th, ph = np.arccos(nrng.uniform(-1, 1, nt)), nrng.uniform(0, 6.28, nph)
                        else:
                            # two (one) values per field: at most four (one) distinct generic directions, many hits
                            # each.  (Not pixel centres: the theta of one centre with the phi of another is a pixel
                            # corner, where single precision jax_healpy is erratic.)
                            nv = 2 if regime == 'few' else 1
                            th = nrng.choice(np.arccos(nrng.uniform(-1, 1, nv)), nt)
                            ph = nrng.choice(nrng.uniform(0, 6.28, nv), nph)
                        land = 'frequency' if k % 5 == 0 else 'healpix'
                        c = {
                            'kind': 'coverage', 'land': land, 'nside': nside, 'name': f'broadcast-{regime}', 'stokes': STOKES[k % 4],
                            'tshape': tshape, 'pshape': pshape, 'pashape': pashape,
                            'theta': [float(x) for x in th], 'phi': [float(x) for x in ph],
                        }  # fmt: skip
                        if land == 'frequency':
                            c['nfreq'] = 2
                        if larger:
                            c['pa_larger'] = True
                        out.append(c)
        return out

    def search_cases(self):
        for ps in self.grid_shapes('thorough'):
            for by in ('shape', 'pixel_shape'):
                yield {'kind': 'grid', 'ps': ps, 'by': by, 'x64': False}

    def rule(self):
        return (
            'grid: EVERY pixel_shape over dims {1,2,3} (thorough: {1..4}) with 1-3 axes x EVERY point of the '
            'quarter-integer grid [-1.25, n+0.25] per axis (one pixel2index call per shape), constructed by shape '
            'and by pixel_shape (exhaustive scope); thorough adds 4 axes (full grids for dims {1,2}, 1500 random grid '
            'points otherwise). points: random shapes (1-4 axes, dims < 40) x 200 quarter/64th/tie coordinates; '
            'arity (0, fewer, more coordinates; empty shape; zero dims); +-inf, nan, huge coordinates; 20 maps of '
            '~2^31 pixels (never allocated) in both x64 modes. ctor: shape/pixel_shape given both, neither, either; '
            'Healpix/Frequency landscapes. coverage: nside 1,2,4 x adversarial (every pixel once, all in one pixel, '
            'empty, single, 2-d sampling) and random samplings, FrequencyLandscape, flat maps incl. out-of-map samples; '
            'broadcast: 34 (theta shape, phi shape) pairs (0-d, (n,), (1,), (d,1)x(1,n), (d,n)x(n,), 3-d, empty, '
            'incompatible) x (d,n) in {(2,5) fewer samples than pixels, (3,50) more} x values spread / two pixels / one pixel x '
            'pa 0-d / trailing axis / full / larger than the pointing, on flat maps (model broadcasts itself) and HEALPix / '
            'Frequency maps nside 1,2(,4) (reference healpy.ang2pix). '
            'Distinct by canonical JSON of the case; evaluations counts cases, stats.points counts coordinates.'
        )

    def nontrivial(self, case, obs):
        if case['kind'] == 'coverage':
            return isinstance(obs, dict) and len(obs.get('indices', [])) > 1
        if case['kind'] == 'ctor':
            return True
        return isinstance(obs, dict) and ('error' in obs or (-1 in obs.get('idx', []) and any(i >= 0 for i in obs.get('idx', []))))

    def distribution(self, cases):
        d = {}
        for c in cases:
            k = c['kind'] + ('/x64' if c.get('x64') else '') + ('/' + c['land'] if c['kind'] == 'coverage' else '')
            if c['kind'] == 'coverage' and 'tshape' in c:
                k += '/broadcast' + ('/pa-larger' if c.get('pa_larger') else '')
            d[k] = d.get(k, 0) + 1
        return d

    # ---- implementation ----------------------------------------------------------------------
    def run_impl(self, case):
        if case['kind'] == 'healpy':
            want = bool(case.get('x64', True))
            return healpy_single(case) if x64_mode() == want else ask(want, {'op': 'healpy1', 'case': case})
        want = bool(case.get('x64', False))
        if x64_mode() == want:
            obs = lib.canon(impl_case(case))
        else:
            obs = ask(want, {'op': 'case', 'case': case})
        self._obs[lib.case_id(case)] = obs
        return obs

    # ---- model -------------------------------------------------------------------------------
    def model_term(self, case):
        x64 = 'true' if case.get('x64') else 'false'
        kind = case['kind']
        if kind == 'ctor':
            return f'show_landscape {coq_landscape(case)}'
        if kind == 'grid':
            axes = case.get('axes') or axes_of(case['ps'])
            return f'run_grid_ctor {x64} {coq_landscape(case)} {clist(axes, lambda a: clist(a, cz))}'
        if kind == 'points':
            pts = clist(case['pts'], lambda p: clist(p, coq_coord))
            return f'run_points_ctor {x64} {coq_landscape(case)} {pts}'
        if kind == 'coverage':
            if case['land'] == 'car':
                # the model broadcasts the fields itself, computes the indices and the histogram
                tshape, pshape, pashape = field_shapes(case)
                fld = lambda shape, data: f'(mkField {clist(shape, cz)} {clist(data, coq_float)})'  # noqa: E731
                return f'sampling_coverage {x64} {coq_landscape(case)} {fld(tshape, case["theta"])} {fld(pshape, case["phi"])} {clist(pashape, cz)}'
            obs = self._obs.get(lib.case_id(case))
            if not isinstance(obs, dict) or 'indices' not in obs:
                return None
            _, _, pashape = field_shapes(case)
            return f'coverage_of_indices {obs["len"]} {clist(obs["index_shape"], cz)} {clist(obs["indices"], cz)} {clist(pashape, cz)}'
        return None

    def decode(self, case, v):
        name, args = lib.coqparse.ctor(v)
        if case['kind'] == 'coverage':
            if name == 'Coverage':
                return {'index_shape': args[0], 'index_dtype': f'int{args[1]}', 'indices': args[2], 'coverage': args[3]}
            if name == 'Incompatible':
                return {'error': 'ValueError'}
            if name == 'CovError':
                return {'error': args[0]['c']}
            if name == 'Some':
                return {'coverage': args[0]}
            return {'coverage': None}
        if name == 'Ok':
            return {'dtype': f'int{args[0]}', 'idx': args[1]}
        if name in ('Error', 'Rejected'):
            return {'error': args[0]['c']}
        if name == 'Built':
            return {'shape': args[0], 'pixel_shape': args[1], 'len': args[2], 'size': args[3]}
        raise ValueError(f'unexpected model value {v!r}')

    def comparable(self, case, obs):
        if isinstance(obs, dict) and case['kind'] == 'coverage':
            if case['land'] == 'car':
                if 'error' in obs:
                    return {'error': 'ValueError' if obs['error'] == 'TypeError' else obs['error']}
                return {k: obs[k] for k in ('index_shape', 'index_dtype', 'indices', 'coverage')}
            if 'coverage' in obs:
                return {'coverage': obs['coverage']}
        return obs

    # ---- oracle ------------------------------------------------------------------------------
    def oracle(self, case, obs):
        msg, _ = self.oracle_point(case, obs)
        return msg

    def oracle_point(self, case, obs):
        kind = case['kind']
        if kind == 'healpy':
            return obs.get('verdict'), None
        by = case.get('by', 'shape')
        if case.get('land', 'car') == 'car' and by in ('both', 'none'):
            if obs != {'error': 'TypeError'}:
                return f'constructor with shape/pixel_shape given {by} returned {obs}, expected TypeError', None
            return None, None
        if kind == 'ctor':
            return self.oracle_ctor(case, obs), None
        if kind == 'coverage':
            return self.oracle_coverage(case, obs), None
        ps = case['ps']
        pts = grid_points(case.get('axes') or axes_of(ps)) if kind == 'grid' else case['pts']
        if kind == 'grid':
            pts = [[[k, 4] for k in p] for p in pts]
        self.stats['points'] += len(pts)
        arity = len(pts[0]) if pts else len(ps)
        if arity == 0:
            if obs != {'error': 'TypeError'}:
                return f'pixel2index() without coordinates returned {obs}, expected TypeError', None
            return None, None
        if arity != len(ps) or any(n <= 0 for n in ps):
            return None, None  # no clause of the property: compared with the model only
        if not case.get('x64') and math.prod(ps) > I32MAX:
            # outside the guard `fits`: x64-disabled JAX has no int64 (boundary, see the report)
            self.stats['outside_guard_x64_off_large_map'] += 1
            return None, None
        if math.prod(ps) > 2**63 - 1:
            self.stats['outside_guard_beyond_int64'] += 1
            return None, None
        self.stats['nan_points_skipped'] += sum(1 for p in pts if 'nan' in p)
        return check_points(ps, pts, obs, case.get('x64'))

    def oracle_ctor(self, case, obs):
        if 'error' in obs:
            return f'constructor raised {obs["error"]}'
        ns = len(case.get('stokes', 'I'))
        land = case.get('land', 'car')
        if land == 'car':
            shape, pshape = list(reversed(case['ps'])), list(case['ps'])
        else:
            npix = 12 * case['nside'] ** 2
            shape, pshape = ([npix] if land == 'healpix' else [case['nfreq'], npix]), [npix]
        exp = {'shape': shape, 'pixel_shape': pshape, 'len': math.prod(shape), 'size': ns * math.prod(shape)}
        if obs != exp:
            return f'landscape attributes {obs}, expected {exp}'
        return None

    def oracle_coverage(self, case, obs):
        """world2index over the broadcast Sampling fields against an independent reference (closed formula with
        round-half-even on exact rationals for flat maps, healpy.ang2pix for HEALPix maps), and get_coverage against
        the np.add.at histogram of those indices."""
        import numpy as np

        tshape, pshape, pashape = field_shapes(case)
        try:
            bshape = list(np.broadcast_shapes(tuple(tshape), tuple(pshape)))
        except ValueError:
            if obs.get('error') not in ('ValueError', 'TypeError'):
                return f'theta {tshape} and phi {pshape} cannot be broadcast but the outcome is {str(obs)[:200]}'
            return None
        if 'error' in obs:
            return f'world2index/get_coverage raised {obs["error"]} for theta {tshape}, phi {pshape}, pa {pashape}'
        N = obs['len']
        T = np.broadcast_to(np.array(case['theta'], dtype=np.float64).reshape(tshape), bshape).ravel()
        P = np.broadcast_to(np.array(case['phi'], dtype=np.float64).reshape(pshape), bshape).ravel()
        where = f'theta {tshape} x phi {pshape}'
        if obs.get('index_shape') != bshape:
            return f'world2index returned shape {obs.get("index_shape")} for {where} (broadcast shape {bshape})'
        idx = np.array(obs['indices'], dtype=np.int64)
        info = np.iinfo(obs['index_dtype']) if obs['index_dtype'].startswith(('int', 'uint')) else None
        if info is None or info.max < N - 1 or info.min > -1:
            return f'index dtype {obs["index_dtype"]} is not an integer type wide enough for N={N}'
        # the reference indices
        if case['land'] == 'car':
            ps = case['ps']
            exp = np.array([expected_index(ps, [round(Fraction(float(x))), round(Fraction(float(y)))]) for x, y in zip(T, P)], dtype=np.int64)
            tolerated = np.zeros(len(exp), dtype=bool)
        else:
            import healpy as hp

            nside = case['nside']
            th, ph, single = effective_angles(T, P, 'float64', bool(case.get('x64')))
            exp = hp.ang2pix(nside, th, ph).astype(np.int64) if len(T) else np.zeros(0, dtype=np.int64)
            tolerated = np.array([g != e and explained_by_rounding(nside, float(t), float(p), int(g), single) for g, e, t, p in zip(idx, exp, th, ph)], dtype=bool)
            self.stats['coverage_healpix_within_rounding'] = self.stats.get('coverage_healpix_within_rounding', 0) + int(tolerated.sum())
        bad = np.nonzero((idx != exp) & ~tolerated)[0]
        if len(bad):
            i = int(bad[0])
            return f'world2index differs from the reference on {len(bad)} of the {len(exp)} broadcast samples of {where}: sample {i} (theta={T[i]!r}, phi={P[i]!r}) -> {int(idx[i])}, expected {int(exp[i])}'
        ref = np.where(tolerated, idx, exp)
        if len(ref) and ref.min() < 0:
            # samples outside a flat map: no clause (boundary; the model says where they are counted)
            self.stats['coverage_with_out_of_map_samples'] += 1
            return None
        if obs['cov_shape'] != obs['shape']:
            return f'coverage has shape {obs["cov_shape"]}, the map has shape {obs["shape"]}'
        try:
            full = list(np.broadcast_shapes(tuple(bshape), tuple(pashape)))
        except ValueError:
            return None  # pa not broadcastable with the pointing: not a sampling
        nsamples = int(np.prod(full, dtype=np.int64))
        if obs['n'] != nsamples:
            return f'len(sampling)={obs["n"]} for fields of shapes {tshape}, {pshape}, {pashape}'
        if full != bshape:
            # pa broadcasts the pointing further (detectors sharing a direction): every sample counts
            self.stats['coverage_pa_broadcasts_beyond_pointing'] += 1
        hits = np.broadcast_to(ref.reshape(bshape), full).ravel()
        hist = np.zeros(N, dtype=np.int64)
        np.add.at(hist, hits, 1)
        if obs['coverage'] != hist.tolist():
            cov = obs['coverage']
            p = next((i for i, (a, b) in enumerate(zip(cov, hist.tolist())) if a != b), None) if len(cov) == N else None
            return (
                f'coverage differs from the histogram of the {nsamples} samples of {where} x pa {pashape} (first at pixel {p}; '
                f'sum {sum(cov)} for {nsamples} samples): {cov[:24]} vs {hist.tolist()[:24]}'
            )
        if sum(obs['coverage']) != obs['n']:
            return f'coverage sums to {sum(obs["coverage"])} for {obs["n"]} samples'
        return None

    def finding_key(self, case, obs):
        if case['kind'] == 'points' and case.get('x64') and math.prod(case['ps']) == 2**31 and 2**31 in case['ps']:
            return 'p2i-int32-with-2^31-pixels-along-one-axis'
        return case.get('key')

    def shrink(self, case, failing):
        """A grid / batch of points -> the single failing point."""
        if case['kind'] not in ('grid', 'points'):
            return case
        obs = failing.get('observation')
        _, p = self.oracle_point(case, obs)
        if p is None:
            return case
        small = {k: v for k, v in case.items() if k not in ('axes', 'pts')}
        small['kind'] = 'points'
        small['pts'] = [[list(c) if not isinstance(c, str) else c for c in p]]
        if self.oracle(small, lib.canon(self.run_impl(small))):
            return small
        return case

    # ---- partial clause: numerical testing only ----------------------------------------------
    def healpy_configs(self, x64: bool):
        """[nside, landscape dtype, angle dtype, random directions, every class of directions] for one x64 mode:
        EVERY power-of-two resolution up to 8192 (16384 and 2^20 with x64: int64 pixel numbers) for EVERY
        landscape dtype; float32 angles also under x64."""
        quick = self.tier == 'quick'
        configs = []
        top = 14 if quick else 15
        for k in range(0, top):
            nside = 2**k
            if nside > 8192 and not x64:
                continue  # more than 2^31 - 1 pixels: needs int64
            big = k >= 10
            for dtype in ('float64', 'float32'):
                if x64:
                    n = (20000 if quick else 100000) if dtype == 'float64' else (5000 if quick else 20000)
                    configs.append([nside, dtype, 'float64', n if not big else max(n, 20000), True])
                    if big or k % 3 == 0 or not quick:
                        configs.append([nside, dtype, 'float32', 5000, False])
                else:
                    configs.append([nside, dtype, 'float64', 5000 if not big else 20000, False])
        # resolutions that are NOT powers of two (legal in ring ordering): "for every resolution"
        for nside in ((3, 6, 37) if quick else (3, 5, 6, 7, 12, 37, 100, 1000)):
            configs.append([nside, 'float64', 'float64', 3000, bool(x64)])
        if x64:
            for nside in (16384, 2**20) if quick else (2**17, 2**20, 2**24):
                for dtype in ('float64', 'float32'):
                    configs.append([nside, dtype, 'float64', 5000, True])
        return configs

    def extra(self):
        here = x64_mode()
        other = submit(not here, {'op': 'healpy', 'configs': self.healpy_configs(not here), 'seed': self.seed})
        mine = healpy_check(self.healpy_configs(here), self.seed)
        res = {here: mine, (not here): other()}
        note = (
            'failures of this cross-check are reported as VIOLATION (replay: kind=healpy, nside, landscape dtype, angle '
            'dtype, x64, theta, phi). A mismatch with healpy.ang2pix is tolerated only if the returned pixel overlaps the '
            'disc of radius angle_tolerance(theta) around the direction: 1e-9 rad with double precision angles; with '
            'single precision angle arithmetic (x64 off, or float32 angles) 128 ulp * (1 + 1/sin theta), and only random '
            'directions, pixel centres and index-corner pixel centres are used (directions placed within 1e-6 rad of a '
            'pixel boundary or of the phi wrap are not meaningful in float32)'
        )
        return {
            'healpy_agreement_x64_on': {k: v for k, v in res[True].items() if k != 'failures'},
            'healpy_agreement_x64_off': {k: v for k, v in res[False].items() if k != 'failures'},
            'note': note,
            'failures': res[True]['failures'] + res[False]['failures'],
        }


if __name__ == '__main__':
    if '--worker' in sys.argv:
        worker_main()
