"""C18 - results do not depend on JIT compilation or pytree round trips (PARTIAL: tracing/XLA/equinox).

Proved part (Props/C18.v over Model/PytreeReg.v, T-tied by tools/translate/pytreereg.py):
  reg        the hand-registered pytree nodes of furax/landscapes.py: constructor, tree_flatten and
             tree_unflatten are run on the REAL classes (through jax.tree.flatten/unflatten) and on the
             model interpreter over the regenerated table, and compared field by field
  partition  for every operator instance: which dataclass fields carry array leaves in JAX's flattening
             of the module vs the regenerated field table (static flag, kind)
Tested part (numerical tests, never counted as theorems):
  routes     for EVERY operator class of the package (fail closed when a class has no instance) and the
             composites: eager vs jax.jit over a closure vs equinox.filter_jit with the operator as argument
             (boolean-mask operators excluded, as the property says) vs unflatten(flatten(op)) vs as_matrix vs
             eval_shape; values bit-for-bit where the arithmetic is exact, shapes, dtypes, structures; both x64
             modes (worker subprocesses).  The routes are run in several ORDERS on one object and on fresh
             equal objects (eager first then traced; jit / eval_shape / as_matrix / jit-as-argument FIRST then
             eager; jit twice; round trip of an object that was already traced), and - in the x64-on worker
             processes - with the traced route as the first use of the class in the process: hidden per-object
             or per-process state (cached_property, lru_cache, lazily computed attributes) only shows in
             sequences.
  variants   for every array-typed field of every operator class the instance table must contain the 0-d,
             1-element, rank >= 2, integer- and float-typed (and, for scalars, Python-number) variants (fail
             closed, `coverage` case; a variant may only be exempted by a constructor call that raises):
             Python-level conversions of a field inside mv (int(), float(), bool(), .item(), np.asarray) only
             fail when the field is a tracer, i.e. under the jit-as-argument route, and often only for one
             rank / dtype of the field.
  static     (`static` case, fail closed) scans of tools/translate/pytreereg.py: no operator class (furax part
             of the MRO, and the modules defining them) carries state besides its dataclass fields - caches,
             attribute writes outside the constructor, mutable class / module attributes; and no code
             reachable from mv / as_matrix / __call__ converts a traced array field at Python level.
  ambient    every route again with the AMBIENT furax configuration (the context variable behind Config) different at
             trace time and at call time: jit over a closure / jit taking the operator as argument / round trip traced
             or made INSIDE a `with Config(...)` block and called outside, and traced outside and called inside; eager
             inside and outside.  An operator captures its configuration when it is built; nothing may depend on what
             is active later.  Operators that hold a configuration (InverseOperator alone, preconditioned, with an
             initial guess, throwing, inside compositions / sums / block diagonals, nested with two configurations;
             one CG step of the three a 3x3 system needs, so that solver, preconditioner and initial guess all show in
             the values) get one variant per ConfigState field and alternative value plus the all-fields variant (fail
             closed on a ConfigState field without alternative); recording solver callbacks tell which configuration's
             callback ran.  All other instances get the all-fields variant.
  derived    (inside every routes case) operators DERIVED from an instance - reduce(), reduce twice, .T.T, .T.reduce().T.reduce(),
             wrapped in a composition with an identity / negated twice / added to itself / put in a block diagonal or block column and
             reduced, flatten-unflatten, jax.tree.map, equinox partition/combine, copy, deepcopy (`derivations`) - under an ambient
             configuration DIFFERENT from the one the instance was built under: derived eagerly inside a `with Config(...)` block and
             applied inside / outside (eagerly, jit over a closure, jit argument), derived inside a jitted function that closes over the
             original (traced inside, called outside; traced outside, called inside), derived outside and applied inside.  Every result
             must equal eager application of the ORIGINAL: deriving must not rebuild a lazy inverse with the configuration active then.
             All derivations for the operators that hold a configuration; reduce / .T.T / tree map for the others in the quick tier.
             Holders whose captured solver converges (alone, in a composition, in a sum) are also compared with numpy.linalg.solve.
  static++   scan ambient_rebuild_scan: no method resolved on a class whose constructor reads ambient state (InverseOperator) builds a
             new instance of it (type(self)(...), self.__class__(...), Cls(...), dataclasses.replace(self)).
  pairs      (`pairs` cases; coverage fail closed against the regenerated field table) for EVERY field of the jit cache
             key of every concrete operator class - static fields, every field of the record stored in a static field
             (ConfigState: solver, solver_throw, solver_options, solver_callback), Python leaves of dynamic fields (axes,
             fft_size, ints / slices of an index tuple) and the container structure of operand fields - two operators
             that differ EXACTLY there (verified by a harness-side field-by-field diff) are passed one after the other
             to the SAME equinox.filter_jit function and to the same jax.jit(static_argnums) function: each must give
             its own eager result (values, shapes, dtypes, callbacks), and the static parts (treedef + non-array leaves)
             must compare unequal, also after a round trip.  A result that equals the OTHER operator's eager result is
             reported as jit-cache conflation.
  static+    two more scans of tools/translate/pytreereg.py: no method of an operator class (nor module-level function
             of their modules) reads ambient state (Config, a ContextVar, os.environ) outside constructors; every
             dataclass field of every operator class and of the records stored in static fields takes part in the
             equality in use (compare=True; a hand-written __eq__ only as one and-chain reading self.f and other.f for
             every field) - regenerated as gen_field_compare / gen_static_records and decided in Props/C18.v.
Oracle (independent of the Coq model; the reference is eager application of the same instance, and for
as_matrix NumPy's float64 product of the matrix with the flattened input): the round-tripped object has the
same attributes / structures / action; every route in every order agrees with eager.
"""
from __future__ import annotations

import atexit
import json
import os
import subprocess
import sys
import threading
from pathlib import Path

sys.path.insert(0, str(Path(__file__).parent))

import lib  # noqa: E402
from lib import PropertyCheck, Tie, clist  # noqa: E402

sys.path.insert(0, str(lib.VERIF / 'tools' / 'translate'))

ERR_KINDS = ('TypeError', 'ValueError', 'AttributeError', 'AssertionError', 'NameError')

# ------------------------------------------------------------------------------------------------
# values of the registered-node cases: JSON <-> Python object <-> Coq term
#   null | int | "str" | {"t": [...]} tuple | {"b": bool} | {"o": name} named object | {"a": n, "id": k} array

NAMED_OBJECTS = {'f64': 1, 'f32': 11, 'jf32': 12, 'i32': 13, 'dt64': 14}


def named_object(name):
    import jax.numpy as jnp
    import numpy as np

    return {'f64': np.float64, 'f32': np.float32, 'jf32': jnp.float32, 'i32': np.int32, 'dt64': np.dtype('float64')}[name]


class Objs:
    """The opaque objects of one case: model id <-> Python object (identity)."""

    def __init__(self):
        self.items: list[tuple[int, object, int | None]] = []
        for name, k in NAMED_OBJECTS.items():
            self.items.append((k, named_object(name), None))

    def py(self, v):
        import jax.numpy as jnp

        if v is None or isinstance(v, (int, str)) and not isinstance(v, bool):
            return v
        if 't' in v:
            return tuple(self.py(i) for i in v['t'])
        if 'b' in v:
            return bool(v['b'])
        if 'o' in v:
            return named_object(v['o'])
        if 'a' in v:
            for k, o, _ in self.items:
                if k == 100 + v['id']:
                    return o
            arr = jnp.arange(1.0, v['a'] + 1.0)
            self.items.append((100 + v['id'], arr, v['a']))
            return arr
        raise ValueError(v)

    def canon(self, x):
        """Python value -> the canonical form the model's values decode to."""
        if x is None or (isinstance(x, (int, str)) and not isinstance(x, bool)):
            return x
        if isinstance(x, bool):
            return {'b': x}
        if isinstance(x, tuple):
            return {'t': [self.canon(i) for i in x]}
        for k, o, n in self.items:
            if o is x:
                return {'o': k, 'len': n}
        return {'o': -1, 'repr': repr(x)[:60]}


def coq_val(v) -> str:
    if v is None:
        return 'VNone'
    if isinstance(v, bool):
        raise ValueError(v)
    if isinstance(v, int):
        return f'(VInt ({v}))'
    if isinstance(v, str):
        return f'(VStr "{v}")'
    if 't' in v:
        return f'(VTuple {clist(v["t"], coq_val)})'
    if 'b' in v:
        return f'(VBool {"true" if v["b"] else "false"})'
    if 'o' in v:
        return f'(VObj {NAMED_OBJECTS[v["o"]]} None)'
    if 'a' in v:
        return f'(VObj {100 + v["id"]} (Some ({v["a"]})))'
    raise ValueError(v)


def dec_val(x):
    name, args = lib.coqparse.ctor(x)
    if name == 'VNone':
        return None
    if name in ('VInt', 'VStr'):
        return args[0]
    if name == 'VBool':
        return {'b': args[0]}
    if name == 'VTuple':
        return {'t': [dec_val(i) for i in args[0]]}
    if name == 'VObj':
        n = args[1]
        if isinstance(n, dict):
            n = n['a'][0]
        return {'o': args[0], 'len': n}
    raise ValueError(f'unexpected model value {x!r}')


def dec_env(e):
    return [[k, dec_val(v)] for k, v in e]


def dec_result(r):
    name, args = lib.coqparse.ctor(r)
    if name == 'Ok':
        return 'ok', dec_env(args[0])
    if name == 'Err':
        return args[0]['c'], None
    return 'unmodelled', None


# ------------------------------------------------------------------------------------------------
# the real registered classes


_concrete: dict = {}


def concrete(name):
    """The registered class itself, or - for an abstract one - a trivial concrete subclass registered
    the way a user of the library has to register it."""
    if name in _concrete:
        return _concrete[name]
    import inspect

    import jax

    import furax.landscapes as fl

    cls = getattr(fl, name)
    if inspect.isabstract(cls):
        stubs = {m: (lambda self, *a, **k: a) for m in cls.__abstractmethods__}
        if 'world2pixel' in stubs:
            stubs['world2pixel'] = lambda self, theta, phi: (theta, phi)
        cls = jax.tree_util.register_pytree_node_class(type('Concrete' + name, (cls,), stubs))
    _concrete[name] = cls
    return cls


def kind_of_exc(e) -> str:
    n = type(e).__name__
    return n if n in ERR_KINDS else 'Other:' + n


def run_config(case):
    """ConfigState defines tree_flatten/tree_unflatten but must stay an unregistered leaf (its pair is
    lossy: asdict turns the solver module into a dict)."""
    import jax

    from furax._base.config import ConfigState

    obj = ConfigState(solver_throw=bool(case.get('throw', False)), solver_options={'tag': 1} if case.get('options') else {})
    leaves, treedef = jax.tree.flatten(obj)
    if len(leaves) == 1 and leaves[0] is obj:
        return {'registered': False}
    out = {'registered': True, 'nleaves': len(leaves)}
    try:
        back = jax.tree.unflatten(treedef, leaves)
        out['equal'] = bool(back == obj)
        out['solver_type'] = [type(obj.solver).__name__, type(back.solver).__name__]
    except Exception as e:
        out['error'] = f'{type(e).__name__}: {str(e)[:200]}'
    return out


def run_reg(case):
    import warnings

    import jax
    import numpy as np

    objs = Objs()
    cls = concrete(case['cls'])
    args = [objs.py(a) for a in case['args']]
    kwargs = {k: objs.py(v) for k, v in case['kwargs']}
    with warnings.catch_warnings():
        warnings.simplefilter('ignore')
        try:
            obj = cls(*args, **kwargs)
        except Exception as e:
            return {'ctor': kind_of_exc(e)}
        out = {'ctor': 'ok', 'attrs': [[k, objs.canon(v)] for k, v in vars(obj).items()]}
        children, aux = obj.tree_flatten()
        out['children'] = [objs.canon(c) for c in children]
        out['aux'] = [[k, objs.canon(v)] for k, v in aux.items()]
        leaves, treedef = jax.tree.flatten(obj)
        out['nleaves'] = len(leaves)
        try:
            back = jax.tree.unflatten(treedef, leaves)
        except Exception as e:
            out['back'] = kind_of_exc(e)
            out['message'] = str(e)[:200]
            return out
        out['back'] = 'ok'
        out['attrs2'] = [[k, objs.canon(v)] for k, v in vars(back).items()]
        out['same_type'] = type(back) is type(obj)
        # same structures and same action (only where the landscape is usable: valid stokes, small map)
        act = {}
        usable = (
            hasattr(obj, 'stokes') and obj.stokes in ('I', 'QU', 'IQU', 'IQUV') and isinstance(obj.shape, tuple)
            and all(isinstance(n, int) and 0 <= n <= 400 for n in obj.shape)
        )
        if usable:
            key = jax.random.PRNGKey(0)
            th = np.array([0.1, 1.0, 1.5707, 2.5, 3.0])
            ph = np.array([0.0, 1.0, 3.0, 5.0, 6.0])

            def same_tree(a, b):
                return bool(jax.tree.structure(a) == jax.tree.structure(b)) and all(
                    x.dtype == y.dtype and x.shape == y.shape and np.array_equal(np.asarray(x), np.asarray(y))
                    for x, y in zip(jax.tree.leaves(a), jax.tree.leaves(b))
                )

            def same(f, eq=same_tree):
                """Same result, or the same kind of failure, on the original and the round-tripped object."""
                try:
                    a = f(obj)
                except Exception as e:
                    try:
                        f(back)
                    except Exception as e2:
                        return type(e2) is type(e)
                    return False
                try:
                    return bool(eq(a, f(back)))
                except Exception:
                    return False

            act['structure'] = same(lambda o: o.structure, lambda a, b: a == b)
            act['len_size'] = same(lambda o: (len(o), o.size), lambda a, b: a == b)
            act['full'] = same(lambda o: o.full(3))
            act['zeros_ones'] = same(lambda o: (o.zeros(), o.ones()))
            act['normal'] = same(lambda o: o.normal(key))
            act['uniform'] = same(lambda o: o.uniform(key, 1.0, 2.0))
            if hasattr(obj, 'nside') and isinstance(obj.nside, int) and obj.nside >= 1 and (obj.nside & (obj.nside - 1)) == 0:
                act['world2index'] = same(lambda o: o.world2index(th, ph), lambda a, b: a.dtype == b.dtype and np.array_equal(np.asarray(a), np.asarray(b)))
        out['action'] = act
    return out


# ------------------------------------------------------------------------------------------------
# operator instances: one or more per operator class, and the composites


# solver callbacks that record which one ran (jax.debug.callback: at RUN time, also under jit)
CB_LOG: list[str] = []


def captured_callback(solution) -> None:
    """The callback of the configuration under which the instance tables build their inverses."""
    CB_LOG.append('captured')


def captured_callback_b(solution) -> None:
    CB_LOG.append('captured-b')


def ambient_callback(solution) -> None:
    """The callback of the AMBIENT configuration of the trace-time / call-time sequences: must never run."""
    CB_LOG.append('ambient')


def cb_counts() -> dict:
    import jax

    jax.effects_barrier()
    out: dict = {}
    for t in CB_LOG:
        out[t] = out.get(t, 0) + 1
    CB_LOG.clear()
    return out


def S(shape, dt):
    import jax

    return jax.ShapeDtypeStruct(tuple(shape), dt)


def ints(shape, dt, start=1, mod=7):
    """Small exactly representable values with distinct entries and mixed signs."""
    import jax.numpy as jnp
    import numpy as np

    n = int(np.prod(shape)) if len(shape) else 1
    v = (np.arange(n) * 3 + start) % mod - mod // 2
    v = np.where(v == 0, mod, v)
    return jnp.asarray(v.reshape(shape), dtype=dt)


def _toast_file(workdir: Path) -> str:
    import numpy as np
    import scipy.sparse as sp

    path = workdir / 'c18_obs_matrix.npz'
    if not path.exists():
        workdir.mkdir(parents=True, exist_ok=True)
        m = sp.csr_matrix(np.array([[2.0, 0, 1, 0], [0, 3, 0, 0], [1, 0, 0, 4], [0, 0, 5, 1]]))
        tmp = workdir / f'c18_obs_matrix.{os.getpid()}.npz'  # the driver and its worker may both get here
        np.savez(tmp, format='csr', data=m.data, indices=m.indices, indptr=m.indptr, shape=np.array(m.shape))
        os.replace(tmp, path)
    return str(path)


def instances(dt_name: str, workdir: Path):
    """name -> (builder, exact, mask, note).  builder() -> (operator, input).  `exact`: every
    intermediate value is exactly representable, so all routes must agree bit for bit."""
    import jax
    import jax.numpy as jnp
    import numpy as np

    import furax as fx
    from furax import Config
    from furax._base.blocks import BlockColumnOperator, BlockDiagonalOperator, BlockRowOperator
    from furax._base.core import (
        AbstractLazyInverseOrthogonalOperator, AdditionOperator, CompositionOperator, HomothetyOperator,
        IdentityOperator, InverseOperator, TransposeOperator,
    )
    from furax._base.dense import DenseBlockDiagonalOperator
    from furax._base.diagonal import BroadcastDiagonalOperator, DiagonalInverseOperator, DiagonalOperator
    from furax._base.indices import IndexOperator
    from furax._base.linear import PackOperator
    from furax.landscapes import StokesPyTree
    from furax.operators.hwp import HWPOperator
    from furax.operators.polarizers import LinearPolarizerOperator
    from furax.operators.qu_rotations import QURotationOperator, QURotationTransposeOperator
    from furax.operators.toeplitz import SymmetricBandToeplitzOperator

    dt = {'f32': jnp.float32, 'f64': jnp.float64}[dt_name]
    out = {}

    def add(name, builder, exact=True, mask=False, tol=None):
        out[name] = (builder, exact, mask, tol)

    def stokes_x(kind, shape, start=1):
        cls = StokesPyTree.class_for(kind)
        return cls(*[ints(shape, dt, start + 2 * i, 11) for i in range(len(kind))])

    def stokes_s(kind, shape):
        return StokesPyTree.class_for(kind).structure_for(tuple(shape), dt)

    def dense(shape_blocks, in_shape, subs=None, start=1):
        b = ints(shape_blocks, dt, start, 5)
        return DenseBlockDiagonalOperator(b, S(in_shape, dt), subs) if subs else DenseBlockDiagonalOperator(b, S(in_shape, dt))

    x3 = lambda: ints((3,), dt, 2)  # noqa: E731
    x23 = lambda: ints((2, 3), dt, 2)  # noqa: E731
    x234 = lambda: ints((2, 3, 4), dt, 2, 11)  # noqa: E731

    # --- core
    add('identity', lambda: (IdentityOperator(S((2, 3), dt)), x23()))
    add('identity-stokes', lambda: (IdentityOperator(stokes_s('IQU', (4,))), stokes_x('IQU', (4,))))
    add('homothety', lambda: (HomothetyOperator(jnp.asarray(2.0, dtype=dt), S((2, 3), dt)), x23()))
    add('homothety-python-scalar', lambda: (HomothetyOperator(3.0, S((3,), dt)), x3()))
    add('homothety-pytree', lambda: (HomothetyOperator(jnp.asarray(-2.0, dtype=dt), {'a': S((2,), dt), 'b': S((3,), dt)}), {'a': ints((2,), dt), 'b': x3()}))
    add('homothety-inverse', lambda: (HomothetyOperator(jnp.asarray(4.0, dtype=dt), S((3,), dt)).I, x3()))
    add('dense', lambda: (dense((2, 3), (3,), 'ij,j->i'), x3()))
    add('dense-default-subscripts', lambda: (dense((2, 3, 4), (3, 4)), ints((3, 4), dt, 2, 11)))
    add('dense-batched', lambda: (dense((3, 2, 4), (3, 4), 'imn,in->im'), ints((3, 4), dt, 2, 11)))
    add('dense-pytree-input', lambda: (DenseBlockDiagonalOperator(ints((2, 3), dt, 1, 5), {'a': S((3,), dt), 'b': S((3,), dt)}, 'ij,j->i'), {'a': x3(), 'b': ints((3,), dt, 4)}))
    add('dense-transposed', lambda: (dense((2, 3), (3,), 'ij,j->i').T, ints((2,), dt, 2)))
    add('generic-transpose', lambda: (TransposeOperator(dense((2, 3), (3,), 'ij,j->i')), ints((2,), dt, 2)))
    add('composition', lambda: (dense((2, 3), (3,), 'ij,j->i') @ DiagonalOperator(ints((3,), dt, 3), in_structure=S((3,), dt)), x3()))
    add('composition-three', lambda: (CompositionOperator([HomothetyOperator(jnp.asarray(2.0, dtype=dt), S((2,), dt)), dense((2, 3), (3,), 'ij,j->i'), IdentityOperator(S((3,), dt))]), x3()))
    add('addition', lambda: (dense((2, 3), (3,), 'ij,j->i') + dense((2, 3), (3,), 'ij,j->i', start=3), x3()))
    add('addition-three', lambda: (AdditionOperator([IdentityOperator(S((3,), dt)), HomothetyOperator(jnp.asarray(2.0, dtype=dt), S((3,), dt)), DiagonalOperator(ints((3,), dt, 3), in_structure=S((3,), dt))]), x3()))
    add('negated', lambda: (-dense((2, 3), (3,), 'ij,j->i'), x3()))

    # --- operators that HOLD a solver configuration (captured when they are built).  `coarse` stops CG after
    # one step (of the three a 3x3 system needs): the result then depends visibly on the solver, the preconditioner and the initial guess, so a
    # configuration read at the wrong time (trace / call) or a conflated cache entry changes the values.
    import lineax as lx

    spd = lambda: DenseBlockDiagonalOperator(jnp.array([[4.0, 1.0, 0.0], [1.0, 3.0, 1.0], [0.0, 1.0, 2.0]], dtype=dt), S((3,), dt), 'ij,j->i')  # noqa: E731
    d2 = lambda: DiagonalOperator(jnp.array([2.0, 4.0, 8.0], dtype=dt), in_structure=S((3,), dt))  # noqa: E731
    b2 = lambda: jnp.array([1.0, 2.0, 3.0], dtype=dt)  # noqa: E731
    coarse = lambda: lx.CG(rtol=1e-6, atol=1e-6, max_steps=1)  # noqa: E731

    def built_under(make, cfg=lambda: {}):
        """`cfg()` is evaluated at every build: separately built instances hold separately built (equal)
        configuration values - solver objects, preconditioners, arrays."""
        def build():
            with Config(solver_callback=captured_callback, **cfg()):
                return make(), b2()

        return build

    add('inverse-cg', built_under(lambda: InverseOperator(spd())), exact=False, tol=1e-4)  # CG stops at rtol=atol=1e-6
    add('inverse-cg-throw', built_under(lambda: InverseOperator(spd()), lambda: {'solver_throw': True}), exact=False, tol=1e-4)
    add('inverse-cg-coarse', built_under(lambda: InverseOperator(spd()), lambda: {'solver': coarse()}), exact=False, tol=1e-4)
    add('inverse-cg-coarse-preconditioned', built_under(
        lambda: InverseOperator(spd()),
        lambda: {'solver': coarse(), 'solver_options': {'preconditioner': DiagonalOperator(jnp.array([0.25, 0.5, 1.0], dtype=dt), in_structure=S((3,), dt))}}), exact=False, tol=1e-4)
    add('inverse-cg-coarse-y0', built_under(lambda: InverseOperator(spd()), lambda: {'solver': coarse(), 'solver_options': {'y0': jnp.array([1.0, 1.0, 1.0], dtype=dt)}}), exact=False, tol=1e-4)
    add('inverse-of-addition', built_under(lambda: (spd() + d2()).I, lambda: {'solver': coarse()}), exact=False, tol=1e-4)
    add('inverse-in-composition', built_under(lambda: spd().I @ d2(), lambda: {'solver': coarse()}), exact=False, tol=1e-4)
    add('inverse-in-addition', built_under(lambda: spd().I + d2(), lambda: {'solver': coarse()}), exact=False, tol=1e-4)

    # converged captured solvers inside composites: the results are also compared with numpy.linalg.solve (NUMPY_REFERENCE)
    accurate = lambda: {'solver': lx.CG(rtol=1e-7, atol=1e-7, max_steps=50)}  # noqa: E731
    add('inverse-converged-in-composition', built_under(lambda: spd().I @ d2(), accurate), exact=False, tol=1e-4)
    add('inverse-converged-in-addition', built_under(lambda: spd().I + d2()), exact=False, tol=1e-4)

    def inverse_in_block_diagonal():
        op, _ = built_under(lambda: BlockDiagonalOperator([spd(), d2()]).I, lambda: {'solver': coarse()})()
        return op, [b2(), ints((3,), dt, 3)]

    add('inverse-in-block-diagonal', inverse_in_block_diagonal, exact=False, tol=1e-4)

    def inverse_nested_two_configs():
        with Config(solver_callback=captured_callback):
            inner = spd().I  # the default solver
            with Config(solver=coarse(), solver_callback=captured_callback_b):
                return InverseOperator(inner + d2()), b2()  # one outer step around converged inner solves

    add('inverse-nested-two-configs', inverse_nested_two_configs, exact=False, tol=1e-4)
    add('lazy-inverse-orthogonal', lambda: (AbstractLazyInverseOrthogonalOperator(QURotationOperator(jnp.zeros((4,), dtype=dt), stokes_s('QU', (4,)))), stokes_x('QU', (4,))))

    # --- diagonal
    add('diagonal-last', lambda: (DiagonalOperator(ints((3,), dt, 3), in_structure=S((2, 3), dt)), x23()))
    add('diagonal-first', lambda: (DiagonalOperator(ints((2,), dt, 3), axis_destination=0, in_structure=S((2, 3), dt)), x23()))
    add('diagonal-2d-axes', lambda: (DiagonalOperator(ints((4, 2), dt, 3), axis_destination=(2, 0), in_structure=S((2, 3, 4), dt)), x234()))
    add('diagonal-pytree', lambda: (DiagonalOperator(ints((2,), dt, 3), axis_destination=0, in_structure={'t': S((2, 3), dt), 'g': S((2,), dt)}), {'t': x23(), 'g': ints((2,), dt)}))
    add('broadcast-diagonal-left', lambda: (BroadcastDiagonalOperator(ints((2, 3), dt, 3), axis_destination=-1, in_structure=S((3,), dt)), x3()))
    add('broadcast-diagonal-right', lambda: (BroadcastDiagonalOperator(ints((2, 3), dt, 3), axis_destination=0, in_structure=S((2,), dt)), ints((2,), dt, 2)))
    add('diagonal-inverse', lambda: (DiagonalInverseOperator(DiagonalOperator(jnp.array([1.0, 2.0, 0.0, -4.0], dtype=dt), in_structure=S((4,), dt))), ints((4,), dt, 2)))
    add('diagonal-inverse-inverse', lambda: (DiagonalOperator(jnp.array([1.0, 2.0, 4.0], dtype=dt), in_structure=S((3,), dt)).I.I, x3()))

    # --- index / pack
    add('index-int', lambda: (IndexOperator(1, in_structure=S((2, 3), dt)), x23()))
    add('index-slice', lambda: (IndexOperator((slice(None), slice(0, 2)), in_structure=S((2, 3), dt)), x23()))
    add('index-int-array', lambda: (IndexOperator((..., jnp.array([2, 0, 2, 1])), in_structure=S((2, 3), dt)), x23()))
    add('index-int-array-unique', lambda: (IndexOperator(jnp.array([1, 0]), in_structure=S((2, 3), dt), unique_indices=True), x23()))
    add('index-ellipsis-array-slice', lambda: (IndexOperator((..., jnp.array([2, 0, 1, 1]), slice(None)), in_structure=S((2, 3, 4), dt)), x234()))
    add('index-2d-int-array', lambda: (IndexOperator((jnp.array([[0, 1], [1, 1]]),), in_structure=S((2, 3), dt)), x23()))
    add('index-two-arrays', lambda: (IndexOperator((jnp.array([0, 1, 1]), jnp.array([2, 0, 2])), in_structure=S((2, 3), dt)), x23()))
    add('index-int-array-transpose', lambda: (IndexOperator((..., jnp.array([2, 0, 2, 1])), in_structure=S((2, 3), dt)).T, ints((2, 4), dt, 2, 11)))
    add('index-pytree', lambda: (IndexOperator(jnp.array([1, 1, 0]), in_structure={'a': S((2, 3), dt), 'b': S((2,), dt)}), {'a': x23(), 'b': ints((2,), dt)}))
    mask = lambda: jnp.array([True, False, True])  # noqa: E731
    add('index-bool-mask', lambda: (IndexOperator((..., mask()), in_structure=S((2, 3), dt), out_structure=S((2, 2), dt)), x23()), mask=True)
    add('pack', lambda: (PackOperator(mask(), S((3,), dt)), x3()), mask=True)
    add('pack-transpose', lambda: (PackOperator(mask(), S((3,), dt)).T, ints((2,), dt, 2)), mask=True)
    add('pack-2d-mask', lambda: (PackOperator(jnp.array([[True, False, True], [False, True, True]]), S((2, 3), dt)), x23()), mask=True)

    # --- axes
    add('moveaxis', lambda: (fx.MoveAxisOperator(0, 1, in_structure=S((2, 3), dt)), x23()))
    add('moveaxis-tuple', lambda: (fx.MoveAxisOperator((0, 2), (2, 1), in_structure=S((2, 3, 4), dt)), x234()))
    add('moveaxis-negative', lambda: (fx.MoveAxisOperator(-1, 0, in_structure=S((2, 3, 4), dt)), x234()))
    add('moveaxis-transpose', lambda: (fx.MoveAxisOperator((0, 2), (2, 1), in_structure=S((2, 3, 4), dt)).T, ints((3, 4, 2), dt, 2, 11)))
    add('moveaxis-pytree', lambda: (fx.MoveAxisOperator(0, -1, in_structure=[S((2, 3), dt), S((2, 3, 4), dt)]), [x23(), x234()]))
    add('ravel', lambda: (fx.RavelOperator(in_structure=S((2, 3, 4), dt)), x234()))
    add('ravel-first-two', lambda: (fx.RavelOperator(0, 1, in_structure=S((2, 3, 4), dt)), x234()))
    add('ravel-last-two', lambda: (fx.RavelOperator(-2, -1, in_structure=[S((2, 3, 4), dt), S((2, 3), dt)]), [x234(), x23()]))
    add('ravel-transpose', lambda: (fx.RavelOperator(0, 1, in_structure=S((2, 3, 4), dt)).T, ints((6, 4), dt, 2, 11)))
    add('reshape', lambda: (fx.ReshapeOperator((3, 2), in_structure=S((2, 3), dt)), x23()))
    add('reshape-infer', lambda: (fx.ReshapeOperator((4, -1), in_structure=S((2, 3, 4), dt)), x234()))
    add('reshape-transpose', lambda: (fx.ReshapeOperator((3, 2), in_structure=S((2, 3), dt)).T, ints((3, 2), dt, 2)))

    # --- polarimetry
    zero = lambda n: jnp.zeros((n,), dtype=dt)  # noqa: E731
    generic = lambda n: jnp.asarray(np.linspace(0.1, 1.3, n), dtype=dt)  # noqa: E731
    for kind in ('I', 'QU', 'IQU', 'IQUV'):
        add(f'hwp-{kind}', lambda kind=kind: (HWPOperator(stokes_s(kind, (4,))), stokes_x(kind, (4,))))
        add(f'polarizer-{kind}', lambda kind=kind: (LinearPolarizerOperator(stokes_s(kind, (4,))), stokes_x(kind, (4,))))
        add(f'qu-rotation-zero-{kind}', lambda kind=kind: (QURotationOperator(zero(4), stokes_s(kind, (4,))), stokes_x(kind, (4,))))
        add(f'qu-rotation-generic-{kind}', lambda kind=kind: (QURotationOperator(generic(4), stokes_s(kind, (4,))), stokes_x(kind, (4,))), exact=False)
    add('qu-rotation-transpose-zero', lambda: (QURotationTransposeOperator(QURotationOperator(zero(4), stokes_s('IQU', (4,)))), stokes_x('IQU', (4,))))
    add('qu-rotation-transpose-generic', lambda: (QURotationOperator(generic(4), stokes_s('IQUV', (4,))).T, stokes_x('IQUV', (4,))), exact=False)
    add('qu-rotation-2d-broadcast', lambda: (QURotationOperator(generic(3), stokes_s('QU', (2, 3))), stokes_x('QU', (2, 3))), exact=False)
    add('hwp-create-rotated', lambda: (HWPOperator.create((4,), dt, 'IQU', angles=generic(4)), stokes_x('IQU', (4,))), exact=False)
    add('hwp-create-rotated-reduced', lambda: (HWPOperator.create((4,), dt, 'IQU', angles=generic(4)).reduce(), stokes_x('IQU', (4,))), exact=False)
    add('polarizer-create-rotated', lambda: (LinearPolarizerOperator.create((4,), dt, 'IQU', angles=generic(4)), stokes_x('IQU', (4,))), exact=False)
    add('polarizer-hwp-rotation-chain-reduced', lambda: ((LinearPolarizerOperator(stokes_s('IQU', (4,))) @ QURotationOperator(generic(4), stokes_s('IQU', (4,))).T @ HWPOperator(stokes_s('IQU', (4,))) @ QURotationOperator(generic(4), stokes_s('IQU', (4,)))).reduce(), stokes_x('IQU', (4,))), exact=False)

    # --- Toeplitz (the chunked FFT loops: static loop bounds)
    band = lambda k: jnp.asarray([4.0, 2.0, 1.0, 0.5][:k], dtype=dt)  # noqa: E731
    for method in ('dense', 'direct'):
        add(f'toeplitz-{method}', lambda method=method: (SymmetricBandToeplitzOperator(band(3), S((9,), dt), method=method), ints((9,), dt, 2, 11)))
        add(f'toeplitz-{method}-batched', lambda method=method: (SymmetricBandToeplitzOperator(jnp.stack([band(2), 2 * band(2)]), S((2, 7), dt), method=method), ints((2, 7), dt, 2, 11)))
    add('toeplitz-fft', lambda: (SymmetricBandToeplitzOperator(band(3), S((9,), dt), method='fft'), ints((9,), dt, 2, 11)), exact=False)
    add('toeplitz-overlap-save-default', lambda: (SymmetricBandToeplitzOperator(band(3), S((23,), dt)), ints((23,), dt, 2, 11)), exact=False)
    add('toeplitz-overlap-save-fft-size', lambda: (SymmetricBandToeplitzOperator(band(3), S((23,), dt), method='overlap_save', fft_size=7), ints((23,), dt, 2, 11)), exact=False)
    add('toeplitz-overlap-save-batched', lambda: (SymmetricBandToeplitzOperator(jnp.stack([band(2), 2 * band(2)]), S((2, 11), dt), fft_size=5), ints((2, 11), dt, 2, 11)), exact=False)
    add('toeplitz-single-band', lambda: (SymmetricBandToeplitzOperator(band(1), S((5,), dt), method='direct'), ints((5,), dt, 2, 11)))

    # --- blocks
    A = lambda: dense((2, 3), (3,), 'ij,j->i')  # noqa: E731
    B = lambda: dense((2, 3), (3,), 'ij,j->i', start=3)  # noqa: E731
    D3 = lambda: DiagonalOperator(ints((3,), dt, 3), in_structure=S((3,), dt))  # noqa: E731
    add('block-row-list', lambda: (BlockRowOperator([A(), B()]), [x3(), ints((3,), dt, 4)]))
    add('block-row-dict', lambda: (BlockRowOperator({'a': A(), 'b': B()}), {'a': x3(), 'b': ints((3,), dt, 4)}))
    add('block-row-single', lambda: (BlockRowOperator([A()]), [x3()]))
    add('block-diagonal-list', lambda: (BlockDiagonalOperator([A(), D3()]), [x3(), ints((3,), dt, 4)]))
    add('block-diagonal-dict', lambda: (BlockDiagonalOperator({'x': A(), 'y': D3()}), {'x': x3(), 'y': ints((3,), dt, 4)}))
    add('block-diagonal-nested', lambda: (BlockDiagonalOperator([[A(), D3()], B()]), [[x3(), ints((3,), dt, 4)], ints((3,), dt, 5)]))
    add('block-diagonal-tuple', lambda: (BlockDiagonalOperator((A(), D3())), (x3(), ints((3,), dt, 4))))
    add('block-column-list', lambda: (BlockColumnOperator([A(), D3()]), x3()))
    add('block-column-dict', lambda: (BlockColumnOperator({'p': A(), 'q': B()}), x3()))
    add('block-row-transpose', lambda: (BlockRowOperator([A(), B()]).T, ints((2,), dt, 2)))
    add('block-row-diagonal-reduced', lambda: ((BlockRowOperator([A(), B()]) @ BlockDiagonalOperator([D3(), D3()])).reduce(), [x3(), ints((3,), dt, 4)]))
    add('block-diagonal-inverse', lambda: (BlockDiagonalOperator([DiagonalOperator(jnp.array([1.0, 2.0, 4.0], dtype=dt), in_structure=S((3,), dt)), HomothetyOperator(jnp.asarray(2.0, dtype=dt), S((2,), dt))]).I, [x3(), ints((2,), dt)]))

    # --- parameter VARIANTS of the array-typed fields: 0-d, 1-element, rank-2, integer vs float, Python /
    # NumPy scalars (Python-level conversions of a field inside mv - int(), float(), bool(), .item(),
    # np.asarray - only fail when the field is a tracer, i.e. under the jit-as-argument route)
    i32 = lambda *v: jnp.asarray(list(v), dtype=jnp.int32)  # noqa: E731
    add('homothety-int-0d', lambda: (HomothetyOperator(jnp.asarray(2), S((2, 3), dt)), x23()))
    add('homothety-python-int', lambda: (HomothetyOperator(3, S((2, 3), dt)), x23()))
    add('homothety-numpy-scalar', lambda: (HomothetyOperator(np.float32(2), S((2, 3), dt)), x23()))
    add('homothety-1elem', lambda: (HomothetyOperator(jnp.asarray([2.0], dtype=dt), S((2, 3), dt)), x23()))
    add('homothety-1elem-rank2', lambda: (HomothetyOperator(jnp.asarray([[-2.0]], dtype=dt), S((2, 3), dt)), x23()))
    add('diagonal-1elem', lambda: (DiagonalOperator(jnp.asarray([2.0], dtype=dt), in_structure=S((2, 3), dt)), x23()))
    add('diagonal-int', lambda: (DiagonalOperator(i32(2, -1, 3), in_structure=S((2, 3), dt)), x23()))
    add('diagonal-int-inverse', lambda: (DiagonalOperator(i32(2, -1, 4), in_structure=S((2, 3), dt)).I, x23()))
    add('diagonal-1elem-inverse', lambda: (DiagonalOperator(jnp.asarray([2.0], dtype=dt), in_structure=S((2, 3), dt)).I, x23()))
    add('diagonal-2d-axes-inverse', lambda: (DiagonalOperator(jnp.asarray([[1.0, 2.0], [4.0, -2.0], [0.5, 1.0], [2.0, 4.0]], dtype=dt), axis_destination=(2, 0), in_structure=S((2, 3, 4), dt)).I, x234()))
    add('broadcast-diagonal-1elem', lambda: (BroadcastDiagonalOperator(jnp.asarray([[2.0]], dtype=dt), axis_destination=-1, in_structure=S((3,), dt)), x3()))
    add('broadcast-diagonal-int', lambda: (BroadcastDiagonalOperator(jnp.asarray([[2, 1, 3], [1, -1, 2]]), axis_destination=-1, in_structure=S((3,), dt)), x3()))
    add('broadcast-diagonal-1d', lambda: (BroadcastDiagonalOperator(jnp.asarray([2.0, 3.0], dtype=dt), axis_destination=-2, in_structure=S((3,), dt)), x3()))
    add('dense-int', lambda: (DenseBlockDiagonalOperator(jnp.asarray([[1, 2, 0], [0, 1, -1]]), S((3,), dt), 'ij,j->i'), x3()))
    add('dense-1elem', lambda: (DenseBlockDiagonalOperator(jnp.asarray([[2.0]], dtype=dt), S((1,), dt), 'ij,j->i'), ints((1,), dt, 2)))
    add('dense-pytree-blocks', lambda: (DenseBlockDiagonalOperator({'a': ints((2, 3), dt, 1, 5), 'b': jnp.asarray([[2, 0, 1]])}, {'a': S((3,), dt), 'b': S((3,), dt)}, 'ij,j->i'), {'a': x3(), 'b': ints((3,), dt, 4)}))
    add('index-0d', lambda: (IndexOperator(jnp.array(1), in_structure=S((2, 3), dt)), x23()))
    add('index-ellipsis-0d', lambda: (IndexOperator((..., jnp.array(-2)), in_structure=S((2, 3), dt)), x23()))
    add('index-1d-and-0d', lambda: (IndexOperator((jnp.array([0, 1, 1]), jnp.array(1)), in_structure=S((2, 3), dt)), x23()))
    add('index-0d-and-0d', lambda: (IndexOperator((jnp.array(1), jnp.array(-1)), in_structure=S((2, 3), dt)), x23()))
    add('index-int-slice-0d', lambda: (IndexOperator((1, slice(None), jnp.array(3)), in_structure=S((2, 3, 4), dt)), x234()))
    add('index-0d-slice-1d', lambda: (IndexOperator((jnp.array(0), slice(1, 3), jnp.array([3, 0, 3])), in_structure=S((2, 3, 4), dt)), x234()))
    add('index-0d-transpose', lambda: (IndexOperator((..., jnp.array(-2)), in_structure=S((2, 3), dt)).T, ints((2,), dt, 2)))
    add('index-0d-stokes', lambda: (IndexOperator((jnp.array(0), slice(1, 3)), in_structure=stokes_s('IQU', (2, 3))), stokes_x('IQU', (2, 3))))
    add('index-1elem', lambda: (IndexOperator(jnp.array([1]), in_structure=S((2, 3), dt)), x23()))
    add('index-uint8', lambda: (IndexOperator((..., jnp.array([2, 0, 1], dtype=jnp.uint8)), in_structure=S((2, 3), dt)), x23()))
    add('index-int64', lambda: (IndexOperator((..., jnp.array([2, 0, -1], dtype=jnp.int64)), in_structure=S((2, 3), dt)), x23()))
    add('index-negative', lambda: (IndexOperator((jnp.array([-1, 0, -2]),), in_structure=S((2, 3), dt)), x23()))
    add('index-numpy-array', lambda: (IndexOperator((..., np.array([2, 0, 1])), in_structure=S((2, 3), dt)), x23()))
    add('index-numpy-0d', lambda: (IndexOperator((np.array(1), slice(None)), in_structure=S((2, 3), dt)), x23()))
    half = lambda: jnp.asarray(0.5, dtype=dt)  # noqa: E731
    add('qu-rotation-0d-IQU', lambda: (QURotationOperator(half(), stokes_s('IQU', (4,))), stokes_x('IQU', (4,))), exact=False)
    add('qu-rotation-0d-zero-QU', lambda: (QURotationOperator(jnp.asarray(0.0, dtype=dt), stokes_s('QU', (4,))), stokes_x('QU', (4,))))
    add('qu-rotation-python-float', lambda: (QURotationOperator(0.5, stokes_s('IQU', (4,))), stokes_x('IQU', (4,))), exact=False)
    add('qu-rotation-1elem-QU', lambda: (QURotationOperator(jnp.asarray([0.5], dtype=dt), stokes_s('QU', (4,))), stokes_x('QU', (4,))), exact=False)
    add('qu-rotation-rank2-IQUV', lambda: (QURotationOperator(jnp.asarray([[0.5, 0.1, 0.2], [0.3, 0.4, 0.6]], dtype=dt), stokes_s('IQUV', (2, 3))), stokes_x('IQUV', (2, 3))), exact=False)
    add('qu-rotation-int-IQU', lambda: (QURotationOperator(i32(0, 1, 2, 3), stokes_s('IQU', (4,))), stokes_x('IQU', (4,))), exact=False)
    add('qu-rotation-int-zero-IQU', lambda: (QURotationOperator(i32(0, 0, 0, 0), stokes_s('IQU', (4,))), stokes_x('IQU', (4,))))
    add('qu-rotation-0d-transpose', lambda: (QURotationOperator(half(), stokes_s('IQU', (4,))).T, stokes_x('IQU', (4,))), exact=False)
    add('hwp-create-0d-angle', lambda: (HWPOperator.create((4,), dt, 'IQU', angles=half()), stokes_x('IQU', (4,))), exact=False)
    add('polarizer-create-0d-angle', lambda: (LinearPolarizerOperator.create((4,), dt, 'IQU', angles=half()), stokes_x('IQU', (4,))), exact=False)
    add('polarizer-create-0d-angle-reduced', lambda: (LinearPolarizerOperator.create((4,), dt, 'IQU', angles=half()).reduce(), stokes_x('IQU', (4,))), exact=False)
    for method in SymmetricBandToeplitzOperator.METHODS:
        inexact = method in ('fft', 'overlap_save')
        # (an integer band makes the FFT methods transform in single precision whatever the input dtype: float32 tolerance)
        add(f'toeplitz-{method}-int-band', lambda method=method: (SymmetricBandToeplitzOperator(i32(4, 2, 1), S((9,), dt), method=method), ints((9,), dt, 2, 11)), exact=not inexact, tol=2e-5 if inexact else None)
        add(f'toeplitz-{method}-1elem-band', lambda method=method: (SymmetricBandToeplitzOperator(jnp.asarray([4.0], dtype=dt), S((9,), dt), method=method), ints((9,), dt, 2, 11)), exact=not inexact)
        add(f'toeplitz-{method}-one-row-batch', lambda method=method: (SymmetricBandToeplitzOperator(jnp.asarray([[4.0, 1.0]], dtype=dt), S((2, 9), dt), method=method), ints((2, 9), dt, 2, 11)), exact=not inexact)

    # --- acquisition composite
    def projection():
        from furax.detectors import DetectorArray
        from furax.landscapes import HealpixLandscape
        from furax.projections import create_projection_operator
        from furax.samplings import Sampling

        land = HealpixLandscape(2, 'IQU', dt)
        n = 5
        samp = Sampling(jnp.asarray(np.linspace(0.3, 2.5, n)), jnp.asarray(np.linspace(0.2, 5.5, n)), jnp.asarray(np.linspace(0.0, 1.0, n), dtype=dt))
        det = DetectorArray(np.array([[0.0], [0.05]]), np.array([[0.0], [0.02]]), 1.0)
        op = create_projection_operator(land, samp, det)
        x = StokesPyTree.class_for('IQU')(*[ints((48,), dt, 1 + 2 * i, 11) for i in range(3)])
        return op, x

    add('projection', projection, exact=False)
    add('projection-transpose', lambda: (lambda op_x: (op_x[0].T, op_x[0](op_x[1])))(projection()), exact=False)

    # --- toast (optional extra)
    try:
        from furax.toast.obs_matrix import ToastObservationMatrixOperator

        add('toast-obs-matrix', lambda: (ToastObservationMatrixOperator(_toast_file(workdir)), ints((4,), jnp.float64 if jax.config.jax_enable_x64 else jnp.float32, 2)))
        add('toast-obs-matrix-transpose', lambda: (ToastObservationMatrixOperator(_toast_file(workdir)).T, ints((4,), jnp.float64 if jax.config.jax_enable_x64 else jnp.float32, 2)))
    except ImportError:
        pass
    return out


# ------------------------------------------------------------------------------------------------
# PAIRS of operators that differ in exactly one field of the jit cache key
#
# A jit that takes the operator as argument and keeps its non-array fields static keys its cache on the
# static part of the operator: the treedef (holding the values of the static fields, compared with ==) and
# the non-array leaves (Python ints, tuples, slices, None in dynamic fields).  Two operators that differ
# there, passed one after the other to the SAME jitted function, must each act as they do eagerly; if their
# keys compare equal the second one silently runs the function compiled for the first.


def pairs(dt_name: str):
    """name -> dict(build -> (op_a, x_a, op_b, x_b), diff = the key paths in which a and b differ,
    exact, apply (False: boolean-mask operator, outside the jit-as-argument clause), distinct: the eager
    results of a and b differ (so a conflated cache entry changes values / shapes / dtypes), tol)."""
    import jax.numpy as jnp
    import lineax as lx

    import furax as fx
    from furax import Config
    from furax._base.blocks import BlockColumnOperator, BlockDiagonalOperator, BlockRowOperator
    from furax._base.core import AdditionOperator, CompositionOperator, HomothetyOperator, IdentityOperator, InverseOperator
    from furax._base.dense import DenseBlockDiagonalOperator
    from furax._base.diagonal import BroadcastDiagonalOperator, DiagonalOperator
    from furax._base.indices import IndexOperator
    from furax._base.linear import PackOperator
    from furax.landscapes import StokesPyTree
    from furax.operators.hwp import HWPOperator
    from furax.operators.polarizers import LinearPolarizerOperator
    from furax.operators.qu_rotations import QURotationOperator
    from furax.operators.toeplitz import SymmetricBandToeplitzOperator

    dt = {'f32': jnp.float32, 'f64': jnp.float64}[dt_name]
    alt = jnp.float16  # the dtype of the `other` declared structure (same shapes: the same input fits both)
    out = {}

    def add(name, build, diff, exact=True, apply=True, distinct=True, tol=None):
        out[name] = {'build': build, 'diff': sorted(diff), 'exact': exact, 'apply': apply, 'distinct': distinct, 'tol': tol}

    def two(make, a, b, x):
        """The same constructor call with one argument changed, applied to the same input."""
        return lambda: (make(a), x(), make(b), x())

    x3 = lambda: ints((3,), dt, 2)  # noqa: E731
    x33 = lambda: ints((3, 3), dt, 2, 11)  # noqa: E731
    x23 = lambda: ints((2, 3), dt, 2)  # noqa: E731
    x234 = lambda: ints((2, 3, 4), dt, 2, 11)  # noqa: E731
    sq = lambda start=1: ints((3, 3), dt, start, 5)  # noqa: E731

    def stokes_x(kind, shape, start=1):
        return StokesPyTree.class_for(kind)(*[ints(shape, dt, start + 2 * i, 11) for i in range(len(kind))])

    def stokes_s(kind, shape, d):
        return StokesPyTree.class_for(kind).structure_for(tuple(shape), d)

    # --- declared structures (static): same shapes, another dtype
    add('identity/in_structure', two(IdentityOperator, S((3,), dt), S((3,), alt), x3), ['IdentityOperator._in_structure'], distinct=False)
    add('homothety/in_structure', two(lambda s: HomothetyOperator(jnp.asarray(2.0, dtype=dt), s), S((3,), dt), S((3,), alt), x3), ['HomothetyOperator._in_structure'], distinct=False)
    add('moveaxis/in_structure', two(lambda s: fx.MoveAxisOperator(0, 1, in_structure=s), S((2, 3), dt), S((2, 3), alt), x23), ['MoveAxisOperator._in_structure'], distinct=False)
    add('dense/in_structure', two(lambda s: DenseBlockDiagonalOperator(sq(), s, 'ij,j->i'), S((3,), dt), S((3,), alt), x3), ['DenseBlockDiagonalOperator._in_structure'], distinct=False)
    add('broadcast-diagonal/in_structure', two(lambda s: BroadcastDiagonalOperator(ints((2, 3), dt, 3), axis_destination=-1, in_structure=s), S((3,), dt), S((3,), alt), x3), ['BroadcastDiagonalOperator._in_structure'], distinct=False)
    add('diagonal/in_structure', two(lambda s: DiagonalOperator(ints((3,), dt, 3), in_structure=s), S((3, 3), dt), S((3, 3), alt), x33), ['DiagonalOperator._in_structure'], distinct=False)
    add('diagonal-inverse/in_structure', two(lambda s: DiagonalOperator(jnp.array([1.0, 2.0, 4.0], dtype=dt), in_structure=s).I, S((3, 3), dt), S((3, 3), alt), x33), ['DiagonalInverseOperator._in_structure', 'DiagonalOperator._in_structure'], distinct=False)
    add('index/in_structure', two(lambda s: IndexOperator((..., jnp.array([2, 0, 2])), in_structure=s, out_structure=S((2, 3), dt)), S((2, 3), dt), S((2, 3), alt), x23), ['IndexOperator._in_structure'], distinct=False)
    add('index/out_structure', two(lambda s: IndexOperator((..., jnp.array([2, 0, 2])), in_structure=S((2, 3), dt), out_structure=s), S((2, 3), dt), S((2, 3), alt), x23), ['IndexOperator._out_structure'], distinct=False)
    add('pack/in_structure', two(lambda s: PackOperator(jnp.array([True, False, True]), s), S((3,), dt), S((3,), alt), x3), ['PackOperator._in_structure'], apply=False, distinct=False)
    add('qu-rotation/in_structure', two(lambda s: QURotationOperator(jnp.zeros((4,), dtype=dt), s), stokes_s('IQU', (4,), dt), stokes_s('IQU', (4,), alt), lambda: stokes_x('IQU', (4,))), ['QURotationOperator._in_structure'], distinct=False)
    add('hwp/in_structure', two(HWPOperator, stokes_s('IQU', (4,), dt), stokes_s('IQU', (4,), alt), lambda: stokes_x('IQU', (4,))), ['HWPOperator._in_structure'], distinct=False)
    add('polarizer/in_structure', two(LinearPolarizerOperator, stokes_s('IQU', (4,), dt), stokes_s('IQU', (4,), alt), lambda: stokes_x('IQU', (4,))), ['LinearPolarizerOperator._in_structure'], distinct=False)
    band = lambda: jnp.asarray([4.0, 2.0, 1.0], dtype=dt)  # noqa: E731
    x9 = lambda: ints((9,), dt, 2, 11)  # noqa: E731
    x23l = lambda: ints((23,), dt, 2, 11)  # noqa: E731
    add('toeplitz/in_structure', two(lambda s: SymmetricBandToeplitzOperator(band(), s, method='direct'), S((9,), dt), S((9,), alt), x9), ['SymmetricBandToeplitzOperator._in_structure'], distinct=False)
    add('ravel/in_structure', two(lambda s: fx.RavelOperator(0, 1, in_structure=s), S((2, 3, 4), dt), S((2, 3, 4), alt), x234), ['RavelOperator._in_structure'], distinct=False)
    add('reshape/in_structure', two(lambda s: fx.ReshapeOperator((3, 2), in_structure=s), S((2, 3), dt), S((2, 3), alt), x23), ['ReshapeOperator._in_structure'], distinct=False)

    # --- other static fields
    add('dense/subscripts', two(lambda sub: DenseBlockDiagonalOperator(sq(), S((3,), dt), sub), 'ij,j->i', 'ji,j->i', x3), ['DenseBlockDiagonalOperator.subscripts'])
    add('diagonal/axis_destination', two(lambda ax: DiagonalOperator(ints((3,), dt, 3), axis_destination=ax, in_structure=S((3, 3), dt)), -1, 0, x33), ['DiagonalOperator.axis_destination'])
    add('diagonal-inverse/axis_destination', two(lambda ax: DiagonalOperator(jnp.array([1.0, 2.0, 4.0], dtype=dt), axis_destination=ax, in_structure=S((3, 3), dt)).I, -1, 0, x33), ['DiagonalInverseOperator.axis_destination', 'DiagonalOperator.axis_destination'])
    add('broadcast-diagonal/axis_destination', two(lambda ax: BroadcastDiagonalOperator(ints((3, 3), dt, 3, 11), axis_destination=ax, in_structure=S((3,), dt)), (0, 1), (1, 0), x3), ['BroadcastDiagonalOperator.axis_destination'])
    add('index/unique_indices', two(lambda u: IndexOperator(jnp.array([1, 0]), in_structure=S((2, 3), dt), unique_indices=u), True, False, x23), ['IndexOperator.unique_indices'], distinct=False)
    add('index-transpose/unique_indices', two(lambda u: IndexOperator(jnp.array([1, 0]), in_structure=S((2, 3), dt), unique_indices=u).T, True, False, x23), ['IndexOperator.unique_indices'], distinct=False)
    for m1, m2 in (('dense', 'direct'), ('direct', 'fft'), ('fft', 'dense')):
        add(f'toeplitz/method-{m1}-{m2}', two(lambda m: SymmetricBandToeplitzOperator(band(), S((9,), dt), method=m), m1, m2, x9), ['SymmetricBandToeplitzOperator.method'], exact=False, distinct=False)
    add('ravel/first_axis', two(lambda a: fx.RavelOperator(a, 2, in_structure=S((2, 3, 4), dt)), 0, 1, x234), ['RavelOperator.first_axis'])
    add('ravel/last_axis', two(lambda a: fx.RavelOperator(0, a, in_structure=S((2, 3, 4), dt)), 1, 2, x234), ['RavelOperator.last_axis'])
    add('reshape/shape', two(lambda sh: fx.ReshapeOperator(sh, in_structure=S((2, 3), dt)), (3, 2), (6,), x23), ['ReshapeOperator.shape'])

    # --- Python leaves of dynamic fields (static under a filtering jit)
    add('moveaxis/source', two(lambda a: fx.MoveAxisOperator(a, 2, in_structure=S((2, 3, 4), dt)), 0, 1, x234), ['MoveAxisOperator.source'])
    add('moveaxis/destination', two(lambda a: fx.MoveAxisOperator(0, a, in_structure=S((2, 3, 4), dt)), 1, 2, x234), ['MoveAxisOperator.destination'])
    add('moveaxis-transpose/destination', two(lambda a: fx.MoveAxisOperator(0, a, in_structure=S((2, 2, 2), dt)).T, 1, 2, lambda: ints((2, 2, 2), dt, 2, 11)), ['MoveAxisOperator.source'])  # (the transpose swaps the two)
    add('toeplitz/fft_size', two(lambda n: SymmetricBandToeplitzOperator(band(), S((23,), dt), method='overlap_save', fft_size=n), 7, 5, x23l), ['SymmetricBandToeplitzOperator.fft_size'], exact=False, distinct=False)
    add('toeplitz/fft_size-none', two(lambda n: SymmetricBandToeplitzOperator(band(), S((23,), dt), method='overlap_save', fft_size=n), None, 7, x23l), ['SymmetricBandToeplitzOperator.fft_size'], exact=False, distinct=False)  # (None: the default size is computed by the constructor)
    add('index/int', two(lambda i: IndexOperator((i, slice(None)), in_structure=S((2, 3), dt)), 0, 1, x23), ['IndexOperator.indices'])
    add('index/slice', two(lambda sl: IndexOperator((..., sl), in_structure=S((2, 3), dt)), slice(0, 2), slice(1, 3), x23), ['IndexOperator.indices'])
    add('index/slice-with-array', two(lambda sl: IndexOperator((jnp.array([1, 0, 1]), sl), in_structure=S((2, 3), dt)), slice(0, 2), slice(1, 3), x23), ['IndexOperator.indices'])
    add('index-transpose/int', two(lambda i: IndexOperator((i, slice(None)), in_structure=S((2, 3), dt)).T, 0, 1, x3), ['IndexOperator.indices'])

    # --- structure of the containers of operands
    A = lambda: DenseBlockDiagonalOperator(ints((2, 3), dt, 1, 5), S((3,), dt), 'ij,j->i')  # noqa: E731
    B = lambda: DenseBlockDiagonalOperator(ints((2, 3), dt, 3, 5), S((3,), dt), 'ij,j->i')  # noqa: E731
    D3 = lambda: DiagonalOperator(ints((3,), dt, 3), in_structure=S((3,), dt))  # noqa: E731
    H3 = lambda: HomothetyOperator(jnp.asarray(2.0, dtype=dt), S((3,), dt))  # noqa: E731
    add('block-column/keys', two(lambda k: BlockColumnOperator({'p': A(), k: B()}), 'q', 'r', x3), ['BlockColumnOperator.blocks:structure'])
    add('block-row/keys', lambda: (BlockRowOperator({'a': A(), 'b': B()}), {'a': x3(), 'b': ints((3,), dt, 4)}, BlockRowOperator({'a': A(), 'c': B()}), {'a': x3(), 'c': ints((3,), dt, 4)}), ['BlockRowOperator.blocks:structure'], distinct=False)
    add('block-diagonal/list-tuple', lambda: (BlockDiagonalOperator([A(), D3()]), [x3(), ints((3,), dt, 4)], BlockDiagonalOperator((A(), D3())), (x3(), ints((3,), dt, 4))), ['BlockDiagonalOperator.blocks:structure'])
    add('addition/operands', two(lambda n: AdditionOperator([IdentityOperator(S((3,), dt)), H3(), D3()][:n]), 2, 3, x3), ['AdditionOperator.operands:structure'])
    add('composition/operands', two(lambda n: CompositionOperator([D3(), H3(), D3()][:n]), 2, 3, x3), ['CompositionOperator.operands:structure'])

    # --- the fields of the configuration stored in a static field.  One CG step of the three a 3x3 system
    # needs: solver, preconditioner and initial guess all change the values.
    spd = lambda: DenseBlockDiagonalOperator(jnp.array([[4.0, 1.0, 0.0], [1.0, 3.0, 1.0], [0.0, 1.0, 2.0]], dtype=dt), S((3,), dt), 'ij,j->i')  # noqa: E731
    rhs = lambda: jnp.array([1.0, 2.0, 3.0], dtype=dt)  # noqa: E731
    steps = lambda n, r=1e-6: lx.CG(rtol=r, atol=r, max_steps=n)  # noqa: E731
    prec = lambda v: DiagonalOperator(jnp.array(v, dtype=dt), in_structure=S((3,), dt))  # noqa: E731

    def inv_pair(cfg_a, cfg_b, make=lambda: InverseOperator(spd())):
        def build():
            with Config(**{'solver_callback': captured_callback, 'solver': steps(1), **cfg_a()}):
                a = make()
            with Config(**{'solver_callback': captured_callback, 'solver': steps(1), **cfg_b()}):
                b = make()
            return a, rhs(), b, rhs()

        return build

    CFG = 'InverseOperator.config.'
    no = lambda: {}  # noqa: E731
    add('inverse/solver-max-steps', inv_pair(no, lambda: {'solver': steps(2)}), [CFG + 'solver'], exact=False, tol=1e-4)
    add('inverse/solver-tolerance', inv_pair(lambda: {'solver': steps(500)}, lambda: {'solver': steps(500, 0.25)}), [CFG + 'solver'], exact=False, tol=1e-4)
    add('inverse/solver-throw', inv_pair(lambda: {'solver': steps(500)}, lambda: {'solver': steps(500), 'solver_throw': True}), [CFG + 'solver_throw'], exact=False, tol=1e-4, distinct=False)
    add('inverse/options-preconditioner', inv_pair(no, lambda: {'solver_options': {'preconditioner': prec([0.25, 0.5, 1.0])}}), [CFG + 'solver_options'], exact=False, tol=1e-4)
    add('inverse/options-preconditioner-value', inv_pair(lambda: {'solver_options': {'preconditioner': prec([0.25, 0.5, 1.0])}}, lambda: {'solver_options': {'preconditioner': prec([1.0, 0.5, 0.25])}}), [CFG + 'solver_options'], exact=False, tol=1e-4)
    add('inverse/options-y0', inv_pair(no, lambda: {'solver_options': {'y0': jnp.ones((3,), dtype=dt)}}), [CFG + 'solver_options'], exact=False, tol=1e-4)
    add('inverse/options-y0-value', inv_pair(lambda: {'solver_options': {'y0': jnp.ones((3,), dtype=dt)}}, lambda: {'solver_options': {'y0': jnp.array([0.0, 1.0, 0.0], dtype=dt)}}), [CFG + 'solver_options'], exact=False, tol=1e-4)
    add('inverse/callback', inv_pair(no, lambda: {'solver_callback': captured_callback_b}), [CFG + 'solver_callback'], exact=False, tol=1e-4, distinct=False)
    add('inverse-in-composition/options-preconditioner', inv_pair(no, lambda: {'solver_options': {'preconditioner': prec([0.25, 0.5, 1.0])}}, make=lambda: InverseOperator(spd()) @ D3()), [CFG + 'solver_options'], exact=False, tol=1e-4)
    add('inverse-in-block-diagonal/solver', lambda: (lambda t: (t[0], [t[1], x3()], t[2], [t[3], x3()]))(inv_pair(no, lambda: {'solver': steps(2)}, make=lambda: BlockDiagonalOperator([spd(), D3()]).I)()), [CFG + 'solver'], exact=False, tol=1e-4)
    return out


def _is_array(v) -> bool:
    import jax
    import numpy as np

    return isinstance(v, (jax.Array, np.ndarray, np.generic))


def same_static(u, v) -> bool:
    """Equality of two values of the static part, decided by the HARNESS (field by field; never through the
    __eq__ of a furax dataclass): used to establish in which key paths a pair really differs."""
    import dataclasses

    import equinox as eqx
    import numpy as np

    if u is v:
        return True
    if type(u) is not type(v):
        return False
    if isinstance(u, dict):
        return list(u) == list(v) and all(same_static(u[k], v[k]) for k in u)
    if isinstance(u, (tuple, list)):
        return len(u) == len(v) and all(same_static(a, b) for a, b in zip(u, v))
    if _is_array(u):
        return u.shape == v.shape and u.dtype == v.dtype and bool(np.array_equal(np.asarray(u), np.asarray(v)))
    if isinstance(u, eqx.Module):
        return bool(eqx.tree_equal(u, v))
    if dataclasses.is_dataclass(u) and not isinstance(u, type):
        return all(same_static(getattr(u, f.name), getattr(v, f.name)) for f in dataclasses.fields(u))
    try:
        return bool(u == v)
    except Exception:
        return False


def key_diff(a, b) -> list[str]:
    """The paths of the jit cache key (static fields; structure and Python leaves of dynamic fields; shapes
    and dtypes of array leaves) in which two operators differ.  `Class.field` names the class of the
    operator that owns the field (also for nested operators); the fields of a dataclass stored in a static
    field are named `Class.field.subfield`."""
    import dataclasses

    import equinox as eqx
    import jax

    from furax._base.core import AbstractLinearOperator

    is_op = lambda z: isinstance(z, AbstractLinearOperator)  # noqa: E731
    if type(a) is not type(b):
        return [f'{type(a).__name__}|{type(b).__name__}:type']
    out = []
    for f in dataclasses.fields(a):
        va, vb = getattr(a, f.name), getattr(b, f.name)
        p = f'{type(a).__name__}.{f.name}'
        if f.metadata.get('static'):
            if is_opaque_record(va) and type(va) is type(vb):
                out += [f'{p}.{g.name}' for g in dataclasses.fields(va) if not same_static(getattr(va, g.name), getattr(vb, g.name))]
            elif not same_static(va, vb):
                out.append(p)
            continue
        la, ta = jax.tree.flatten(va, is_leaf=is_op)
        lb, tb = jax.tree.flatten(vb, is_leaf=is_op)
        if ta != tb:
            out.append(p + ':structure')
            continue
        for u, v in zip(la, lb):
            if is_op(u) and is_op(v):
                out += key_diff(u, v)
            elif _is_array(u) and _is_array(v):
                if u.shape != v.shape or u.dtype != v.dtype:
                    out.append(p + ':aval')
            elif _is_array(u) or _is_array(v) or not same_static(u, v):
                out.append(p)
    return sorted(set(out))


_ARRAY = '<array>'


def static_key(op):
    """(treedef, non-array leaves): what a jit taking the operator as argument keys its cache on."""
    import jax

    leaves, treedef = jax.tree.flatten(op)
    return treedef, tuple(_ARRAY if _is_array(l) else l for l in leaves)


def keys_equal(ka, kb) -> dict:
    try:
        out = {'treedef_eq': bool(ka[0] == kb[0])}
    except Exception as e:
        out = {'treedef_eq': f'error {type(e).__name__}: {str(e)[:200]}'}
    try:
        out['static_leaves_eq'] = bool(ka[1] == kb[1])
    except Exception as e:
        out['static_leaves_eq'] = f'error {type(e).__name__}'
    try:
        out['hash_eq'] = hash(ka) == hash(kb)
    except Exception as e:
        out['hash_eq'] = f'unhashable: {type(e).__name__}'
    out['equal'] = out['treedef_eq'] is True and out['static_leaves_eq'] is True
    return out


def static_argnums_jit():
    """A jax.jit that takes the operator as argument the plain way: array leaves traced, the treedef and every
    other leaf static (a fresh function, hence a fresh cache, per call of this factory)."""
    from functools import partial

    import jax

    @partial(jax.jit, static_argnums=(0, 1))
    def apply(treedef, static_leaves, array_leaves, x):
        it = iter(array_leaves)
        leaves = [next(it) if s is _ARRAY else s for s in static_leaves]
        return jax.tree.unflatten(treedef, leaves).mv(x)

    def call(op, x):
        import jax

        treedef, static_leaves = static_key(op)
        return apply(treedef, static_leaves, [l for l in jax.tree.leaves(op) if _is_array(l)], x)

    return call


def run_pairs(case, workdir: Path):
    """Two operators that differ in exactly one field of the jit cache key, applied one after the other by the
    SAME jitted function taking the operator as argument (equinox.filter_jit, and jax.jit with the treedef and
    the non-array leaves as static arguments), in both orders, and by jits over closures."""
    import warnings

    import equinox as eqx
    import jax

    assert bool(jax.config.jax_enable_x64) == bool(case.get('x64', False)), 'x64 mode mismatch'
    table = pairs(case['dt'])
    if case['pair'] not in table:
        return {'missing_pair': case['pair']}
    spec = table[case['pair']]
    out = {k: spec[k] for k in ('diff', 'exact', 'apply', 'distinct', 'tol')}
    out['routes'] = {}
    with warnings.catch_warnings():
        warnings.simplefilter('ignore')
        a, xa, b, xb = spec['build']()
        ops = {'a': (a, xa), 'b': (b, xb)}
        out['classes'] = sorted(classes_in(a) | classes_in(b))
        out['key_diff'] = key_diff(a, b)
        out['keys'] = keys_equal(static_key(a), static_key(b))
        out['roundtrip_keys'] = keys_equal(static_key(jax.tree.unflatten(*reversed(jax.tree.flatten(a)))), static_key(b))

        def route(name, who, f):
            CB_LOG.clear()
            try:
                o = leaf_obs(f(*ops[who]))
            except Exception as e:
                o = {'error': f'{type(e).__name__}: {str(e)[:300]}'}
            try:
                cb = cb_counts()
            except Exception as e:
                cb = {'error': f'{type(e).__name__}: {str(e)[:200]}'}
            o['who'] = who
            if cb:
                o['cb'] = cb
            out['routes'][name] = o

        for w in 'ab':
            route(f'eager/{w}', w, lambda o, x: o.mv(x))
        quick = bool(case.get('quick'))
        for w in '' if quick and spec['apply'] else 'ab':  # (quick tier: the jits over closures belong to the `routes` cases)
            route(f'jit-closure/{w}', w, lambda o, x: jax.jit(lambda v: o.mv(v))(x))
        if spec['apply']:
            for order in ('abab',) if quick else ('abab', 'ba'):
                fj = eqx.filter_jit(lambda o, v: o.mv(v))
                for i, w in enumerate(order):
                    route(f'filter-jit[{order}]/{i + 1}-{w}', w, fj)
                sj = static_argnums_jit()
                for i, w in enumerate(order[:2]):
                    route(f'static-argnums-jit[{order[:2]}]/{i + 1}-{w}', w, sj)
    return out


def judge_leaves(name, ref, o, exact, tol, bitwise=False):
    """One route against its reference (eager application of the same operator)."""
    import numpy as np

    if 'error' in o:
        return f'route {name} failed: {o["error"]}'
    if o['treedef'] != ref['treedef']:
        return f'route {name} returned structure {o["treedef"]}, eager {ref["treedef"]}'
    for i, (p, q) in enumerate(zip(ref['leaves'], o['leaves'])):
        if p['shape'] != q['shape'] or p['dtype'] != q['dtype']:
            return f'route {name} leaf {i}: shape/dtype {q["shape"]} {q["dtype"]}, eager {p["shape"]} {p["dtype"]}'
        if p['hex'] == q['hex']:
            continue
        vp, vq = leaf_values(p), leaf_values(q)
        if exact or bitwise:
            return f'route {name} leaf {i}: values differ bit-wise from eager: {vq[:8].tolist()} vs {vp[:8].tolist()}'
        t = _num(tol) or TOL.get(p['dtype'], 1e-6)
        scale = max(1.0, float(np.max(np.abs(vp)))) if vp.size else 1.0
        worst = float(np.max(np.abs(vp - vq))) if vp.size else 0.0
        if not worst <= t * scale * 8:
            return f'route {name} leaf {i}: |difference| {worst:.3g} exceeds {t * scale * 8:.3g}: {vq[:6].tolist()} vs {vp[:6].tolist()}'
    return None


def judge_pairs(case, obs):
    if 'missing_pair' in obs:
        return f'no pair named {obs["missing_pair"]}'
    what = f'the two operators of the pair differ in {obs["key_diff"]}'
    if obs['key_diff'] != obs['diff']:
        return f'pair table of harness/c18.py: declared to differ exactly in {obs["diff"]}, but {what}'
    r = obs['routes']
    refs = {w: r.get(f'eager/{w}') for w in 'ab'}
    for w, ref in refs.items():
        if ref is None or 'error' in ref:
            return f'eager application of operator {w} failed: {ref}'
    if obs['distinct'] and judge_leaves('eager/b', refs['a'], refs['b'], True, None) is None and refs['a'].get('cb') == refs['b'].get('cb'):
        return f'pair table of harness/c18.py: {what} and are declared to act differently, but their eager results coincide'
    for name, o in r.items():
        if name.startswith('eager/'):
            continue
        w = o['who']
        other = 'b' if w == 'a' else 'a'
        msg = judge_leaves(name, refs[w], o, obs['exact'], obs['tol'])
        if msg is None and 'error' not in o and o.get('cb', {}) != refs[w].get('cb', {}):
            msg = f'route {name}: solver callbacks that ran: {o.get("cb", {})}, eager application of the same operator: {refs[w].get("cb", {})}'
        if msg:
            conflated = 'error' not in o and judge_leaves(name, refs[other], o, obs['exact'], obs['tol']) is None and o.get('cb', {}) == refs[other].get('cb', {})
            return (
                f'operator {w} of the pair ({what}): {msg}'
                + (f' - it IS the eager result of operator {other}: the two share one compiled function (jit cache conflation)' if conflated else '')
                + f' (order of the calls: {" -> ".join(r)})'
            )
    for k in ('keys', 'roundtrip_keys'):
        if isinstance(obs[k]['treedef_eq'], str) or isinstance(obs[k]['static_leaves_eq'], str):
            return (
                f'{what}: comparing their static parts (treedef and non-array leaves: what a jit taking the operator as argument '
                f'compares with == to look its cache up) RAISED: {obs[k]}'
            )
        if obs[k]['equal']:
            return (
                f'{what}, yet their static parts (treedef and non-array leaves: the cache key of a jit that takes the operator as '
                f'argument) compare EQUAL{" after a flatten/unflatten round trip of the first" if k == "roundtrip_keys" else ""}: {obs[k]}'
            )
    return None


# kinds of DYNAMIC fields whose leaves are Python objects: static under a jit that keeps non-array fields static
PYTHON_LEAF_KINDS = ('KInt', 'KOptInt', 'KStr', 'KBool', 'KIntTuple', 'KIndexTuple')

VARIANT_TAGS = {
    # field kind -> the variants of an array-typed field that the instance table must contain
    'KArray': ('0d', '1elem', 'rank2', 'int', 'float'),
    'KScalar': ('0d', '1elem', 'int', 'float', 'python'),
    'KIndexTuple': ('0d', '1elem', 'rank2', 'int', 'mixed-0d'),
    'KBoolArray': ('rank2',),
}


def variant_exemptions():
    """(class, field, tag) -> a constructor call that MUST raise: the variant does not exist because the
    class rejects it.  Probed on every run (a stale exemption is reported)."""
    import jax
    import jax.numpy as jnp

    from furax._base.dense import DenseBlockDiagonalOperator
    from furax._base.diagonal import BroadcastDiagonalOperator, DiagonalOperator
    from furax._base.linear import PackOperator
    from furax.operators.toeplitz import SymmetricBandToeplitzOperator

    f32 = jnp.float32
    s3 = jax.ShapeDtypeStruct((3,), f32)
    diag0 = lambda: DiagonalOperator(jnp.asarray(2.0), in_structure=s3)  # noqa: E731
    return {
        ('DiagonalOperator', '_diagonal', '0d'): diag0,
        ('DiagonalInverseOperator', '_diagonal', '0d'): diag0,  # only built from a DiagonalOperator
        ('BroadcastDiagonalOperator', '_diagonal', '0d'): lambda: BroadcastDiagonalOperator(jnp.asarray(2.0), in_structure=s3),
        ('DenseBlockDiagonalOperator', 'blocks', '0d'): lambda: DenseBlockDiagonalOperator(jnp.asarray(2.0), s3, ',j->j'),
        ('DenseBlockDiagonalOperator', 'blocks', '1d'): lambda: DenseBlockDiagonalOperator(jnp.asarray([2.0, 1.0, 3.0]), s3, 'j,j->j'),
        ('SymmetricBandToeplitzOperator', 'band_values', '0d'): lambda: SymmetricBandToeplitzOperator(jnp.asarray(2.0), s3, method='direct'),
    }


def field_variant_tags(kind, value) -> set[str]:
    """Tags of the array(-like) leaves found under one field of one instance."""
    import jax
    import numpy as np

    tags = set()
    leaves = jax.tree.leaves(value, is_leaf=lambda z: z is None)
    zero_d = other = False
    for l in leaves:
        if isinstance(l, (bool, int, float, complex)) and not isinstance(l, bool):
            tags.add('python')
            tags.add('int' if isinstance(l, int) else 'float')
            other = True
            continue
        if not hasattr(l, 'shape') or not hasattr(l, 'dtype'):
            other = other or l is not None
            continue
        k = np.dtype(l.dtype).kind
        tags.add({'i': 'int', 'u': 'int', 'f': 'float', 'b': 'bool'}.get(k, k))
        if len(l.shape) == 0:
            tags.add('0d')
            zero_d = True
        else:
            other = True
            if int(np.prod(l.shape)) == 1:
                tags.add('1elem')
            if len(l.shape) >= 2:
                tags.add('rank2')
    if kind == 'KIndexTuple' and zero_d and (other or any(isinstance(i, (int, slice)) or i is Ellipsis for i in value)):
        tags.add('mixed-0d')
    return tags


def run_coverage(case, workdir: Path):
    """Which operator classes of the package occur in the instance table (alone or nested), and which
    variants (0-d, 1-element, rank >= 2, integer / float, Python scalar) of every array-typed field?"""
    import dataclasses
    import inspect
    import warnings

    import jax

    import pytreereg as tr

    from furax._base.core import AbstractLinearOperator

    seen: set[str] = set()
    tags: dict[tuple[str, str], set[str]] = {}
    tr.import_all()
    _, finfo = tr.gen_fieldtable()
    kinds = {(c, n): k for c, fs in finfo.items() for n, st, k in fs if not st}
    static_kinds = {(c, n): k for c, fs in finfo.items() for n, st, k in fs if st}

    records: dict[tuple[str, str], type] = {}  # static fields that store an opaque record (ConfigState)

    def walk(o):
        for f in dataclasses.fields(o):
            v = getattr(o, f.name)
            k = kinds.get((type(o).__name__, f.name))
            if f.metadata.get('static') and is_opaque_record(v):
                records[(type(o).__name__, f.name)] = type(v)
            if k in VARIANT_TAGS:
                tags.setdefault((type(o).__name__, f.name), set()).update(field_variant_tags(k, v))
            for leaf in jax.tree.leaves(v, is_leaf=lambda z: isinstance(z, AbstractLinearOperator)):
                if isinstance(leaf, AbstractLinearOperator):
                    walk(leaf)

    with warnings.catch_warnings():
        warnings.simplefilter('ignore')
        for name, (builder, _, _, _) in instances('f32', workdir).items():
            op = builder()[0]
            seen |= classes_in(op)
            walk(op)
        exempt = variant_exemptions()
        stale = []
        for key, probe in exempt.items():
            try:
                probe()
                stale.append(list(key))
            except Exception:
                pass
    concrete = [k for k in tr.all_operator_classes() if not inspect.isabstract(k)]
    gaps = []
    for c in concrete:
        if c.__name__ not in finfo:
            gaps.append([c.__name__, '*', 'class absent from the field table'])
        for n, st, k in finfo.get(c.__name__, []):
            if st or k not in VARIANT_TAGS:
                continue
            have = tags.get((c.__name__, n), set())
            for t in VARIANT_TAGS[k]:
                if t not in have and (c.__name__, n, t) not in exempt:
                    gaps.append([c.__name__, n, t])
    # every field of the jit cache key of every concrete class has a PAIR of operators differing exactly there
    with warnings.catch_warnings():
        warnings.simplefilter('ignore')
        ptable = pairs('f32')
        paired: set[str] = set()
        for name, spec in ptable.items():
            paired.update(spec['diff'])
            a, _, b, _ = spec['build']()
            walk(a)
            walk(b)
    required = []
    for c in concrete:
        for n, st, k in finfo.get(c.__name__, []):
            path = f'{c.__name__}.{n}'
            if st and (c.__name__, n) in records:
                required += [f'{path}.{g.name}' for g in dataclasses.fields(records[(c.__name__, n)])]
            elif st and k in tr.STATIC_RECORD_KINDS:
                required.append(path + '.<no instance stores a record here>')
            elif st or k in PYTHON_LEAF_KINDS:
                required.append(path)
            elif k == 'KOperators':
                required.append(path + ':structure')
    pair_gaps = sorted(set(required) - paired)
    return {
        'covered': sorted(seen), 'missing': [k.__name__ for k in concrete if k.__name__ not in seen],
        'variant_gaps': sorted(gaps), 'stale_exemptions': stale, 'key_fields': sorted(required), 'pair_gaps': pair_gaps,
        'variants': {f'{c}.{n}': sorted(t) for (c, n), t in sorted(tags.items())},
    }


def run_static(case):
    """The static scans of tools/translate/pytreereg.py on the imported package: state besides the
    dataclass fields (caches, attribute writes outside the constructor, mutable class / module attributes)
    and Python-level conversions of traced array fields in the code reachable from mv."""
    import pytreereg as tr

    tr.import_all()
    ops = tr.all_operator_classes()
    _, finfo = tr.gen_fieldtable()
    return {
        'hidden_state': tr.hidden_state_scan(ops), 'conversions': tr.conversion_scan(ops, finfo), 'classes': len(ops),
        'static_equality': tr.static_equality_scan(ops, finfo)[0], 'ambient_reads': tr.ambient_read_scan(ops),
        'ambient_rebuilds': tr.ambient_rebuild_scan(ops),
    }


def shape_level_probe(workdir: Path):
    """Informative: the dynamic fields the model classifies as shape-level (Python ints / tuples kept
    static by a filtering jit) really are consulted at trace time - turning them into arrays, which a
    filtering jit traces, makes the jitted application fail."""
    import warnings

    import equinox as eqx
    import jax.numpy as jnp

    table = instances('f32', workdir)
    out = {}
    probes = [
        ('toeplitz-overlap-save-fft-size', 'fft_size'), ('moveaxis-tuple', 'source'), ('moveaxis-tuple', 'destination'),
    ]
    with warnings.catch_warnings():
        warnings.simplefilter('ignore')
        for inst, field in probes:
            op, x = table[inst][0]()
            try:
                traced = eqx.tree_at(lambda o: getattr(o, field), op, jnp.asarray(getattr(op, field)), is_leaf=lambda z: isinstance(z, (tuple, int)))
                eqx.filter_jit(lambda o, v: o.mv(v))(traced, x)
                out[f'{inst}.{field}'] = 'applied although traced'
            except Exception as e:
                out[f'{inst}.{field}'] = f'fails when traced: {type(e).__name__}'
    return out


def classes_in(op) -> set[str]:
    """Class names of the operator and of every operator nested in it."""
    import jax

    from furax._base.core import AbstractLinearOperator

    seen = set()

    def walk(o):
        seen.add(type(o).__name__)
        import dataclasses

        for f in dataclasses.fields(o):
            v = getattr(o, f.name)
            for leaf in jax.tree.leaves(v, is_leaf=lambda z: isinstance(z, AbstractLinearOperator)):
                if isinstance(leaf, AbstractLinearOperator):
                    walk(leaf)

    walk(op)
    return seen


def leaf_obs(tree):
    import jax
    import numpy as np

    leaves, treedef = jax.tree.flatten(tree)
    return {
        'treedef': str(treedef),
        'leaves': [{'shape': list(np.shape(l)), 'dtype': str(l.dtype), 'hex': np.asarray(l).tobytes().hex()} for l in leaves],
    }


def structure_str(s) -> str:
    import jax

    leaves, treedef = jax.tree.flatten(s)
    return str(treedef) + ' ' + str([(tuple(l.shape), str(l.dtype)) for l in leaves])


def hidden_attrs(op) -> list[str]:
    """Instance attributes of the operator (and of every nested operator) that are not dataclass fields:
    per-object state that flatten/unflatten, ==, and the field table do not see (caches)."""
    import dataclasses

    import jax

    from furax._base.core import AbstractLinearOperator

    out = set()

    def walk(o):
        names = {f.name for f in dataclasses.fields(o)}
        for k in getattr(o, '__dict__', {}):
            if k not in names:
                out.add(f'{type(o).__name__}.{k}')
        for f in dataclasses.fields(o):
            v = getattr(o, f.name, None)
            for leaf in jax.tree.leaves(v, is_leaf=lambda z: isinstance(z, AbstractLinearOperator)):
                if isinstance(leaf, AbstractLinearOperator):
                    walk(leaf)

    walk(op)
    return sorted(out)


def shape_obs(tree):
    import jax

    leaves, treedef = jax.tree.flatten(tree)
    return {'treedef': str(treedef), 'leaves': [{'shape': list(l.shape), 'dtype': str(l.dtype)} for l in leaves]}


def as_matrix_obs(op, x):
    """The dense matrix (built by tracing mv inside a fori_loop) applied by NumPy in float64 to the
    flattened input."""
    import jax
    import numpy as np

    m = op.as_matrix()
    flat = np.concatenate([np.asarray(l, dtype=np.float64).ravel() for l in jax.tree.leaves(x)])
    mat = np.asarray(m, dtype=np.float64)
    if mat.ndim != 2 or mat.shape[1] != flat.size:
        return {'asmatrix': {'shape': list(mat.shape), 'dtype': str(m.dtype), 'in_size': int(flat.size)}}
    return {'asmatrix': {'shape': list(mat.shape), 'dtype': str(m.dtype), 'in_size': int(flat.size), 'mx_hex': (mat @ flat).tobytes().hex()}}


# instances whose as_matrix is not an application of mv under a trace that the oracle can compare
_COARSE = 'InverseOperator.as_matrix is the exact inverse matrix, mv a conjugate gradient stopped after one step'
AS_MATRIX_SKIP: dict[str, str] = {
    n: _COARSE for n in (
        'inverse-cg-coarse', 'inverse-cg-coarse-preconditioned', 'inverse-cg-coarse-y0', 'inverse-of-addition', 'inverse-in-composition',
        'inverse-in-addition', 'inverse-in-block-diagonal', 'inverse-nested-two-configs',
    )
}


def _numpy_reference():
    import numpy as np

    a = np.array([[4.0, 1.0, 0.0], [1.0, 3.0, 1.0], [0.0, 1.0, 2.0]])
    d = np.array([2.0, 4.0, 8.0])
    b = np.array([1.0, 2.0, 3.0])
    return {
        'inverse-cg': lambda: np.linalg.solve(a, b),
        'inverse-cg-throw': lambda: np.linalg.solve(a, b),
        'inverse-converged-in-composition': lambda: np.linalg.solve(a, d * b),
        'inverse-converged-in-addition': lambda: np.linalg.solve(a, b) + d * b,
    }


# instances whose captured solver converges: expected values by numpy.linalg.solve on the same matrices (float64),
# independent of furax and lineax; eager application must match it at the instance's tolerance, and every other route
# (ambient / derived sequences included) is compared with eager
NUMPY_REFERENCE = _numpy_reference()


def run_routes(case, workdir: Path):
    """All execution routes of one operator instance, in several ORDERS on the same object and on fresh
    (separately built, equal) objects.  Hidden per-object or per-process state (caches filled during a
    trace, lazily computed attributes) only shows in such sequences.

      main   the first object: eager, __call__, jit over a closure, filtering jit, round trip, then eager
             AGAIN and a second, independent jit over the same object (eager first, traced afterwards)
      seqB   fresh object: jit over a closure FIRST, then eager, a second jit, the filtering jit, and the
             round trip of the already traced object          (case['first'] == 'traced': before main,
             so that it is also the first use of the class in the process)
      seqC   fresh object: jax.eval_shape first (trace only), then eager, then jit
      seqD   fresh object: as_matrix first (mv traced inside a fori_loop), then eager, then jit
      seqE   fresh object: filtering jit with the operator as ARGUMENT first, then eager, then jit
    """
    import warnings

    import equinox as eqx
    import jax

    assert bool(jax.config.jax_enable_x64) == bool(case.get('x64', False)), 'x64 mode mismatch'
    table = instances(case['dt'], workdir)
    if case['inst'] not in table:
        return {'missing_instance': case['inst']}
    builder, exact, mask, tol = table[case['inst']]
    with warnings.catch_warnings():
        warnings.simplefilter('ignore')
        op, x = builder()
        out = {'class': type(op).__name__, 'classes': sorted(classes_in(op)), 'exact': exact, 'mask': mask, 'tol': tol, 'routes': {}}
        objects = {'main': op}
        hidden_before = hidden_attrs(op)

        def route(name, f, obs=leaf_obs):
            CB_LOG.clear()
            try:
                out['routes'][name] = obs(f())
            except Exception as e:
                msg = ' '.join(str(e).split())
                out['routes'][name] = {'error': f'{type(e).__name__}: {msg if len(msg) <= 300 else msg[:100] + " ... " + msg[-200:]}'}
            try:
                cb = cb_counts()
            except Exception as e:  # a callback that raised surfaces at the barrier
                cb = {'error': f'{type(e).__name__}: {str(e)[:200]}'}
            if cb:
                out['routes'][name]['cb'] = cb

        def fresh(tag):
            o, _ = builder()
            objects[tag] = o
            return o

        fj = eqx.filter_jit(lambda o, v: o.mv(v))

        def seq_b():
            o = fresh('seqB')
            route('seqB/1-jit-closure-first', lambda: jax.jit(lambda v: o.mv(v))(x))
            route('seqB/2-eager', lambda: o.mv(x))
            route('seqB/3-jit-closure-again', lambda: jax.jit(lambda v: o(v))(x))
            if not mask:
                route('seqB/4-filter-jit', lambda: fj(o, x))
            route('seqB/5-roundtrip-eager', lambda: jax.tree.unflatten(*reversed(jax.tree.flatten(o))).mv(x))

        if case.get('first') == 'traced':
            seq_b()
        route('eager', lambda: op.mv(x))
        if case['inst'] in NUMPY_REFERENCE:
            out['numpy_reference_hex'] = NUMPY_REFERENCE[case['inst']]().astype('float64').tobytes().hex()
        route('call', lambda: op(x))
        route('jit-closure', lambda: jax.jit(lambda v: op.mv(v))(x))
        if not mask:
            route('filter-jit', lambda: fj(op, x))
            # the same jitted function applied to a second, separately built, equal instance (an array
            # kept as static metadata makes this call fail or reuse a stale compilation)
            route('filter-jit-second-instance', lambda: fj(*builder()))
        else:
            # outside the property (boolean mask); recorded, not judged
            try:
                eqx.filter_jit(lambda o, v: o.mv(v))(op, x)
                out['mask_filter_jit'] = 'ok'
            except Exception as e:
                out['mask_filter_jit'] = type(e).__name__
        # flatten / unflatten
        try:
            leaves, treedef = jax.tree.flatten(op)
            back = jax.tree.unflatten(treedef, leaves)
            objects['roundtrip'] = back
            out['roundtrip'] = {
                'same_type': type(back) is type(op),
                'same_treedef': bool(jax.tree.structure(back) == treedef),
                'in_structure': [structure_str(op.in_structure()), structure_str(back.in_structure())],
                'out_structure': [structure_str(op.out_structure()), structure_str(back.out_structure())],
                'nleaves': len(leaves),
            }
            route('roundtrip', lambda: back.mv(x))
            route('roundtrip-jit', lambda: jax.jit(lambda v: back.mv(v))(x))
        except Exception as e:
            out['roundtrip'] = {'error': f'{type(e).__name__}: {str(e)[:300]}'}
        # the first object again, after its traced uses
        route('main/eager-again', lambda: op.mv(x))
        route('main/jit-closure-again', lambda: jax.jit(lambda v: op(v))(x))
        if case.get('first') != 'traced':
            seq_b()
        # eval_shape first
        oc = fresh('seqC')
        route('seqC/1-eval-shape-first', lambda: jax.eval_shape(lambda v: oc.mv(v), x), obs=shape_obs)
        route('seqC/2-eager', lambda: oc.mv(x))
        route('seqC/3-jit-closure', lambda: jax.jit(lambda v: oc.mv(v))(x))
        # as_matrix first
        if case.get('asm') and case['inst'] not in AS_MATRIX_SKIP:
            od = fresh('seqD')
            route('seqD/1-as-matrix-first', lambda: od, obs=lambda o: as_matrix_obs(o, x))
            route('seqD/2-eager', lambda: od.mv(x))
            route('seqD/3-jit-closure', lambda: jax.jit(lambda v: od.mv(v))(x))
            if case.get('asm') == 'both':
                route('main/as-matrix-after', lambda: op, obs=lambda o: as_matrix_obs(o, x))
        # the operator as a jit ARGUMENT first
        if not mask:
            oe = fresh('seqE')
            route('seqE/1-filter-jit-first', lambda: fj(oe, x))
            route('seqE/2-eager', lambda: oe.mv(x))
            route('seqE/3-jit-closure', lambda: jax.jit(lambda v: oe.mv(v))(x))
        # the AMBIENT configuration differs between trace time and call time
        ambient_sequences(case, out, route, fresh, builder, op, x, mask)
        # operators DERIVED from this one (reduce, transposition, wrapping, tree maps, copies) under another ambient configuration
        derived_sequences(case, out, route, fresh, builder, op, x, mask)
        # declared output structure vs what eager returned
        try:
            out['declared_out'] = structure_str(op.out_structure())
            out['eager_out'] = structure_str(jax.eval_shape(lambda: op.mv(x)))
        except Exception as e:
            out['declared_out'] = f'error {type(e).__name__}'
        # per-object state left behind by the routes (informative; named in the oracle's message)
        gained = sorted({a for o in objects.values() for a in hidden_attrs(o)} - set(hidden_before))
        out['hidden_state'] = {'before': hidden_before, 'gained': gained}
        # field facts for the partition correspondence
        out['facts'] = field_facts(op)
    return out


def is_opaque_record(v) -> bool:
    """A dataclass instance that JAX treats as ONE opaque leaf (not a registered pytree node, not an equinox
    module): a record of Python objects stored whole in a static field (ConfigState)."""
    import dataclasses

    import jax

    if not dataclasses.is_dataclass(v) or isinstance(v, type):
        return False
    leaves = jax.tree.leaves(v)
    return len(leaves) == 1 and leaves[0] is v


def config_holders(op) -> list[str]:
    """Paths of the fields (of the operator or of any nested operator) that store a configuration object: a
    dataclass instance that is not a pytree of arrays (ConfigState in InverseOperator.config)."""
    import dataclasses

    import equinox as eqx
    import jax

    from furax._base.core import AbstractLinearOperator

    out = []

    def walk(o):
        for f in dataclasses.fields(o):
            v = getattr(o, f.name, None)
            if is_opaque_record(v):
                out.append(f'{type(o).__name__}.{f.name}')
            for leaf in jax.tree.leaves(v, is_leaf=lambda z: isinstance(z, AbstractLinearOperator)):
                if isinstance(leaf, AbstractLinearOperator):
                    walk(leaf)

    walk(op)
    return sorted(set(out))


def ambient_alternatives(op):
    """Per field of the configuration class: alternative values for the AMBIENT configuration (all differ
    from what the instance tables capture).  -> (alternatives, fields of ConfigState without alternative)."""
    import dataclasses

    import jax
    import jax.numpy as jnp
    import lineax as lx

    from furax._base.config import ConfigState

    ones = jax.tree.map(lambda s: jnp.ones(s.shape, s.dtype), op.in_structure())
    alts = {
        # two steps: differs visibly both from a captured converged solver and from a captured one-step solver (3x3 systems)
        'solver': [('2-steps', lx.CG(rtol=1e-12, atol=1e-12, max_steps=2)), ('default', ConfigState().solver)],
        'solver_throw': [('True', True)],
        'solver_options': [('y0', {'y0': ones})],
        'solver_callback': [('recording', ambient_callback)],
    }
    names = [f.name for f in dataclasses.fields(ConfigState)]
    gap = sorted(set(names) ^ set(alts))
    return {k: alts[k] for k in names if k in alts}, gap


def ambient_sequences(case, out, route, fresh, builder, op, x, mask):
    """Every route with the active (ambient) furax configuration DIFFERENT at trace time and at call time.
    An operator captures its configuration when it is built; what is active later - when a jitted function
    is traced, when it is called, when the operator is applied eagerly or rebuilt from its leaves - must not
    matter.  All results are compared with the plain eager application (`eager`, default ambient).

      A  trace INSIDE a `with Config(...)` block (jit over a closure, jit taking the operator as argument,
         round trip), apply eagerly inside, then call the same jitted functions OUTSIDE the block
      B  trace OUTSIDE, then call the same jitted functions (and trace a new one, and apply eagerly) INSIDE

    Operators that hold a configuration get one variant per configuration field and alternative value plus
    the all-fields variant, with both sequences; the others the all-fields variant of sequence A.  (Quick
    tier, case['amb'] an integer: two single-field variants per case, sequence B for the all-fields variant
    only, and for the operators that hold no configuration the jit over a closure only.)"""
    import equinox as eqx
    import jax

    from furax import Config

    holders = config_holders(op)
    thorough = case.get('amb', 'full') == 'full'
    alts, gap = ambient_alternatives(op)
    variants = [('all-fields', {k: v[0][1] for k, v in alts.items()})]
    if holders:
        singles = [(f'{k}={tag}', {k: val}) for k, vs in alts.items() for tag, val in vs]
        amb = case.get('amb', 'full')
        if amb == 'all-fields':
            singles = []
        elif amb != 'full':
            # quick tier: two single-field variants per case, rotating with the case so that the holder
            # instances (default / one-step / preconditioned / nested ... captured configurations) share them out
            singles = [singles[(int(amb) + j * 3) % len(singles)] for j in range(2)] if len(singles) > 2 else singles
        variants += singles
    out['ambient'] = {'holders': holders, 'unvaried_config_fields': gap, 'variants': [t for t, _ in variants]}
    rt = lambda o: jax.tree.unflatten(*reversed(jax.tree.flatten(o)))  # noqa: E731
    for tag, amb in variants:
        p = f'ambient[{tag}]'
        oa = fresh(p + '/A')
        fa = jax.jit(lambda v, o=oa: o.mv(v))
        fja = eqx.filter_jit(lambda o, v: o.mv(v))
        made_inside = {}
        with Config(**amb):
            route(f'{p}/A1-jit-closure-traced-inside', lambda: fa(x))
            route(f'{p}/A2-eager-inside', lambda: oa.mv(x))
            if not mask and (holders or thorough):
                route(f'{p}/A3-jit-argument-traced-inside', lambda: fja(oa, x))
            if holders:
                def a4():
                    made_inside['rt'] = rt(oa)
                    return made_inside['rt'].mv(x)

                route(f'{p}/A4-roundtrip-made-inside-eager-inside', a4)
        route(f'{p}/A5-jit-closure-called-outside', lambda: fa(x))
        if not mask and (holders or thorough):
            route(f'{p}/A6-jit-argument-called-outside', lambda: fja(oa, x))
        if not holders:
            continue
        route(f'{p}/A7-eager-outside', lambda: oa.mv(x))
        if 'rt' in made_inside:
            route(f'{p}/A8-roundtrip-made-inside-eager-outside', lambda: made_inside['rt'].mv(x))
        if not mask:
            route(f'{p}/A9-jit-argument-equal-object-outside', lambda: fja(*builder()))
        if not thorough and (tag != 'all-fields' or case.get('amb') == 'all-fields'):
            continue  # quick tier: the trace-outside / call-inside sequence for the all-fields variant (x64 off) only
        ob = fresh(p + '/B')
        fb = jax.jit(lambda v, o=ob: o.mv(v))
        fjb = eqx.filter_jit(lambda o, v: o.mv(v))
        route(f'{p}/B1-jit-closure-traced-outside', lambda: fb(x))
        if not mask:
            route(f'{p}/B2-jit-argument-traced-outside', lambda: fjb(ob, x))
        with Config(**amb):
            route(f'{p}/B3-jit-closure-called-inside', lambda: fb(x))
            if not mask:
                route(f'{p}/B4-jit-argument-called-inside', lambda: fjb(ob, x))
            route(f'{p}/B5-eager-inside', lambda: ob.mv(x))
            if tag == 'all-fields':
                route(f'{p}/B6-new-jit-closure-traced-inside', lambda: jax.jit(lambda v: ob(v))(x))
                route(f'{p}/B7-roundtrip-made-inside-jit-inside', lambda: jax.jit(lambda v: rt(ob).mv(v))(x))
                if case['inst'] not in AS_MATRIX_SKIP:
                    route(f'{p}/B8-as-matrix-inside', lambda: ob, obs=lambda o: as_matrix_obs(o, x))


def derivations(op):
    """Ways of obtaining a NEW operator object from an existing one that must act like the original and must not create
    a new lazy inverse: name -> (derive(o) -> o', adapt(x) -> input of o', pick(y) -> the part of o'(adapt(x)) that must
    equal o(x)).  Algebraic (reduce, transposition, wrapping in a composition / sum / block and reducing that) and
    structural (pytree round trip, tree map, partition/combine, copies).  `.I.I` is NOT one of them: the second `.I`
    legitimately creates a new inverse under the configuration active then."""
    import copy

    import equinox as eqx
    import jax

    from furax._base.blocks import BlockColumnOperator, BlockDiagonalOperator
    from furax._base.core import IdentityOperator

    same = lambda v: v  # noqa: E731
    half = lambda y: jax.tree.map(lambda l: l / 2, y)  # noqa: E731  (exact: a power of two)
    table = {
        'reduce': (lambda o: o.reduce(), same, same),
        'reduce-twice': (lambda o: o.reduce().reduce(), same, same),
        'transpose-twice': (lambda o: o.T.T, same, same),
        'transpose-reduce-transpose-reduce': (lambda o: o.T.reduce().T.reduce(), same, same),
        'compose-identity-reduce': (lambda o: (o @ IdentityOperator(o.in_structure())).reduce(), same, same),
        'identity-compose-reduce': (lambda o: (IdentityOperator(o.out_structure()) @ o).reduce(), same, same),
        'negate-twice-reduce': (lambda o: (-(-o)).reduce(), same, same),
        'sum-with-itself-reduce': (lambda o: (o + o).reduce(), same, half),
        'block-diagonal-reduce': (lambda o: BlockDiagonalOperator([IdentityOperator(o.in_structure()), o]).reduce(), lambda v: [v, v], lambda y: y[1]),
        'block-column-reduce': (lambda o: BlockColumnOperator({'p': o, 'q': o}).reduce(), same, lambda y: y['q']),
        'flatten-unflatten': (lambda o: jax.tree.unflatten(*reversed(jax.tree.flatten(o))), same, same),
        'tree-map': (lambda o: jax.tree.map(lambda l: l, o), same, same),
        'partition-combine': (lambda o: eqx.combine(*eqx.partition(o, eqx.is_array)), same, same),
        'copy': (lambda o: copy.copy(o), same, same),
        'deepcopy': (lambda o: copy.deepcopy(o), same, same),
    }
    return table


DERIVED_QUICK_PLAIN = ('reduce', 'transpose-twice', 'tree-map')  # quick tier, operators that hold no configuration


def derived_sequences(case, out, route, fresh, builder, op, x, mask):
    """Operators DERIVED from an existing one (see `derivations`) under an ambient configuration that differs from the
    one the original was built under - deriving must not rebuild a lazy inverse (and so replace the configuration it
    captured by the one active when reduce() / .T / a tree map happens to run, eagerly or at trace time).  Reference:
    eager application of the ORIGINAL object under the default ambient configuration (`eager`).

      I  derive eagerly INSIDE a `with Config(...)` block: apply eagerly inside and outside, jit over a closure and
         jit taking the derived operator as argument outside
      J  derive inside a jitted function that closes over the original: traced (first called) inside, called again outside
      O  derive eagerly OUTSIDE (default ambient - the instance tables build the holders under another one) and apply
         inside; derive inside a jitted function traced outside and called inside

    Operators that hold a configuration: every derivation (quick tier: the jit-over-closure / jit-argument / traced-outside
    routes for three derivations rotating with the instance).  Others: thorough every derivation with I and J; quick
    (x64 off) DERIVED_QUICK_PLAIN with eager-inside and J."""
    import equinox as eqx
    import jax

    from furax import Config

    holders = config_holders(op)
    thorough = case.get('amb', 'full') == 'full'
    if not holders and not thorough and case.get('x64'):
        return
    alts, _ = ambient_alternatives(op)
    variants = [('all-fields', {k: v[0][1] for k, v in alts.items()})]
    if holders and thorough:
        variants.append(('solver=default', {'solver': alts['solver'][1][1]}))
    table = derivations(op)
    names = list(table)
    if not holders and not thorough:
        names = [n for n in names if n in DERIVED_QUICK_PLAIN]
    k0 = sum(map(ord, case['inst'])) + (5 if case.get('x64') else 0) + (3 if case.get('dt') == 'f64' else 0)
    full = set(names) if thorough else ({names[(k0 + 5 * j) % len(names)] for j in range(3)} if holders else set())
    # a derivation that raises on the plain object under the default configuration (deterministic Python-level failure of
    # reduce() / .T, whatever the route) is no clause of this property: recorded (evidence: informative), not run
    not_derivable = {}
    for d in list(names):
        try:
            table[d][0](op)
        except Exception as e:
            not_derivable[d] = f'{type(e).__name__}: {str(e)[:160]}'
            names.remove(d)
    CB_LOG.clear()
    if not names:
        out['derived'] = {'derivations': [], 'not_derivable': not_derivable}
        return
    full = {d for d in full if d in names}
    out['derived'] = {'derivations': names, 'all_routes_for': sorted(full), 'variants': [t for t, _ in variants], 'not_derivable': not_derivable}
    fja = eqx.filter_jit(lambda o, v: o.mv(v))
    for tag, amb in variants:
        oa = fresh(f'derived[{tag}]/I')
        ob = fresh(f'derived[{tag}]/O')
        for d in names:
            derive, adapt, pick = table[d]
            p = f'derived[{tag}]/{d}'
            xa = adapt(x)
            made = {}
            fj = jax.jit(lambda v, derive=derive, adapt=adapt, pick=pick: pick(derive(oa).mv(adapt(v))))
            with Config(**amb):
                def i1():
                    made['i'] = derive(oa)
                    return pick(made['i'].mv(xa))

                route(f'{p}/I1-derived-inside-applied-inside', i1)
                # copy.deepcopy INSIDE a trace turns the closed-over concrete arrays into tracers: a boolean mask then is
                # no longer concrete (NonConcreteBooleanIndexError) - an artefact of this derivation, not of furax
                # (false alarm of the thorough tier on index-bool-mask / pack*); such operators are deep-copied eagerly only
                in_jit_ok = not (mask and d == 'deepcopy')
                if in_jit_ok:
                    route(f'{p}/J1-derived-in-jit-traced-inside', lambda: fj(x))
            if in_jit_ok:
                route(f'{p}/J2-derived-in-jit-called-outside', lambda: fj(x))
            if not holders and not thorough:
                continue
            if 'i' in made:
                route(f'{p}/I2-derived-inside-applied-outside', lambda: pick(made['i'].mv(xa)))
                if d in full:
                    route(f'{p}/I3-derived-inside-jit-closure-outside', lambda: pick(jax.jit(lambda v: made['i'].mv(v))(xa)))
                    if not mask:
                        route(f'{p}/I4-derived-inside-jit-argument-outside', lambda: pick(fja(made['i'], xa)))
            if not holders:
                continue

            def o1():
                made['o'] = derive(ob)
                return pick(made['o'].mv(xa))

            route(f'{p}/O1-derived-outside-applied-outside', o1)
            if d in full and in_jit_ok:
                fo = jax.jit(lambda v, derive=derive, adapt=adapt, pick=pick: pick(derive(ob).mv(adapt(v))))
                route(f'{p}/O2-derived-in-jit-traced-outside', lambda: fo(x))
            with Config(**amb):
                if 'o' in made:
                    route(f'{p}/O3-derived-outside-applied-inside', lambda: pick(made['o'].mv(xa)))
                if d in full and in_jit_ok:
                    route(f'{p}/O4-derived-in-jit-called-inside', lambda: fo(x))


def field_facts(op):
    """Per dataclass field (in order): does JAX's flattening of the module expose array leaves under it?"""
    import dataclasses

    import equinox as eqx
    import jax

    paths = jax.tree_util.tree_flatten_with_path(op)[0]
    has = {}
    for path, leaf in paths:
        first = path[0]
        name = getattr(first, 'name', None)
        if name is None:
            name = str(first).lstrip('.')
        has[name] = has.get(name, False) or bool(eqx.is_array(leaf))
    return [[f.name, bool(has.get(f.name, False))] for f in dataclasses.fields(op)]


TOL = {'float32': 2e-5, 'float64': 1e-12}


def leaf_values(leaf):
    import numpy as np

    return np.frombuffer(bytes.fromhex(leaf['hex']), dtype=np.dtype(leaf['dtype'])).astype(np.float64)


def _num(v):
    """A float that went through lib.canon ('num/den' string) back to a float."""
    from fractions import Fraction

    return float(Fraction(v)) if isinstance(v, str) else v


BITWISE_STEPS = ('call', 'roundtrip', 'main/eager-again', 'seqB/2-eager', 'seqB/5-roundtrip-eager', 'seqC/2-eager', 'seqD/2-eager', 'seqE/2-eager')
BITWISE_SUFFIXES = ('-eager-inside', '-eager-outside')  # ambient sequences: eager application of an equal object


def is_bitwise(name: str) -> bool:
    return name in BITWISE_STEPS or name.endswith(BITWISE_SUFFIXES)


AMBIENT_NOTE = (
    ' [ambient sequence: `inside` = while a `with Config(...)` block replacing the named field(s) of the active furax '
    'configuration is active, `outside` = under the default configuration; the operator captured its configuration when it was '
    'built, so neither the configuration active at trace time nor the one active at call time may matter]'
)


DERIVED_NOTE = (
    ' [derived operator: route derived[<ambient fields replaced>]/<derivation, see harness/c18.py derivations()>/<step>; the operator '
    'was built under one configuration, a new operator object was derived from it (reduce(), .T.T, wrapped in a composition / sum / '
    'block and reduced, tree map, copy ...) `inside` = while a `with Config(...)` block replacing the named field(s) is active or '
    '`outside` = under the default configuration, eagerly or inside a jitted function that closes over the original; the derived '
    'operator must act like the ORIGINAL applied eagerly: a lazy inverse keeps the configuration it captured when it was created]'
)


def judge_routes(case, obs):
    """The property on one instance: all routes, in every order and on every equal object, agree with
    eager application in structure, shapes, dtypes and values."""
    import numpy as np

    if 'missing_instance' in obs:
        return f'no instance named {obs["missing_instance"]}'
    r = obs['routes']
    ref = r.get('eager')
    hs = obs.get('hidden_state', {})
    note = f' [the routes left per-object state behind: {hs["gained"]}]' if hs.get('gained') else ''
    if ref is None or 'error' in ref:
        return f'eager application failed: {ref}{note}'
    if 'numpy_reference_hex' in obs:
        want = np.frombuffer(bytes.fromhex(obs['numpy_reference_hex']), dtype=np.float64)
        got = np.concatenate([leaf_values(l).ravel() for l in ref['leaves']])
        tol = _num(obs.get('tol')) or 1e-6
        if got.shape != want.shape or not float(np.max(np.abs(got - want))) <= tol * max(1.0, float(np.max(np.abs(want)))) * 8:
            return f'eager application returns {got.tolist()}, numpy.linalg.solve on the same system {want.tolist()} (tolerance {tol * 8:.3g} relative to the largest entry)'
    rt = obs.get('roundtrip', {})
    if 'error' in rt:
        return f'flatten/unflatten of the operator failed: {rt["error"]}'
    if not rt.get('same_type') or not rt.get('same_treedef'):
        return f'round-tripped operator differs in type/treedef: {rt}'
    for k in ('in_structure', 'out_structure'):
        if rt[k][0] != rt[k][1]:
            return f'round-tripped operator has a different {k}: {rt[k][1]} vs {rt[k][0]}'
    amb = obs.get('ambient', {})
    if amb.get('unvaried_config_fields'):
        return f'fields of ConfigState without an alternative value in harness/c18.py ambient_alternatives (ambient sequences do not vary them): {amb["unvaried_config_fields"]}'
    base_order = ' (sequence order: ' + ' -> '.join(n for n in r if not n.startswith(('ambient[', 'derived['))) + ')'
    ref_cb = ref.get('cb', {})
    for name, o in r.items():
        if name == 'eager':
            continue
        ambient = name.startswith(('ambient[', 'derived['))
        amb_note = DERIVED_NOTE if name.startswith('derived[') else AMBIENT_NOTE
        order = amb_note if ambient else base_order
        note = (f' [the routes left per-object state behind: {hs["gained"]}]' if hs.get('gained') else '') + (amb_note if ambient else '')
        cb = o.get('cb', {})
        if cb.get('ambient') or 'error' in cb:
            return f'route {name}: the solver callback of the ACTIVE configuration ran (the operator captured another one when it was built): {cb}{note}'
        if 'error' not in o and 'asmatrix' not in o and 'hex' in (o.get('leaves') or [{}])[0] and bool(cb) != bool(ref_cb):
            return f'route {name}: solver callbacks that ran: {cb}, eager application: {ref_cb}{note}'
        if 'error' in o:
            return f'route {name} failed: {o["error"]}{note}{"" if ambient else order}'
        if 'asmatrix' in o:
            am = o['asmatrix']
            want = np.concatenate([leaf_values(l).ravel() for l in ref['leaves']]) if ref['leaves'] else np.zeros(0)
            if am['shape'] != [int(want.size), am['in_size']] or 'mx_hex' not in am:
                return f'route {name}: as_matrix has shape {am["shape"]}, expected {[int(want.size), am["in_size"]]}'
            got = np.frombuffer(bytes.fromhex(am['mx_hex']), dtype=np.float64)
            if obs['exact']:
                if not np.array_equal(got, want):
                    return f'route {name}: as_matrix() @ x differs from eager mv(x): {got[:8].tolist()} vs {want[:8].tolist()}{note}'
                continue
            tol = _num(obs.get('tol')) or max(TOL.get(l['dtype'], 1e-6) for l in ref['leaves'])
            scale = max(1.0, float(np.max(np.abs(want)))) if want.size else 1.0
            worst = float(np.max(np.abs(got - want))) if want.size else 0.0
            if not worst <= tol * scale * 32:
                return f'route {name}: |as_matrix() @ x - mv(x)| = {worst:.3g} exceeds {tol * scale * 32:.3g}{note}'
            continue
        if o['treedef'] != ref['treedef']:
            return f'route {name} returned structure {o["treedef"]}, eager {ref["treedef"]}'
        for i, (a, b) in enumerate(zip(ref['leaves'], o['leaves'])):
            if a['shape'] != b['shape'] or a['dtype'] != b['dtype']:
                return f'route {name} leaf {i}: shape/dtype {b["shape"]} {b["dtype"]}, eager {a["shape"]} {a["dtype"]}'
            if 'hex' not in b or a['hex'] == b['hex']:
                continue
            va, vb = leaf_values(a), leaf_values(b)
            if obs['exact'] or is_bitwise(name):
                # same program on the same data (call, eager on an equal object / after a round trip) or
                # exact arithmetic: bit for bit
                return f'route {name} leaf {i}: values differ bit-wise from eager: {vb[:8].tolist()} vs {va[:8].tolist()}{note}'
            tol = _num(obs.get('tol')) or TOL.get(a['dtype'], 1e-6)
            scale = max(1.0, float(np.max(np.abs(va)))) if va.size else 1.0
            worst = float(np.max(np.abs(va - vb))) if va.size else 0.0
            if not worst <= tol * scale * 8:
                return f'route {name} leaf {i}: |difference| {worst:.3g} exceeds {tol * scale * 8:.3g}: {vb[:6].tolist()} vs {va[:6].tolist()}{note}'
    return None


# ------------------------------------------------------------------------------------------------
# worker process (x64 on)


def worker_main():
    out = sys.stdout
    sys.stdout = sys.stderr
    workdir = lib.WORK / 'C18'
    for line in sys.stdin:
        req = json.loads(line)
        try:
            if req['op'] == 'routes':
                res = {'ok': lib.canon(run_routes(req['case'], workdir))}
            elif req['op'] == 'pairs':
                res = {'ok': lib.canon(run_pairs(req['case'], workdir))}
            elif req['op'] == 'reg':
                res = {'ok': lib.canon(run_reg(req['case']))}
            elif req['op'] == 'config':
                res = {'ok': lib.canon(run_config(req['case']))}
            elif req['op'] == 'names':
                res = {'ok': sorted(instances(req['dt'], workdir))}
            else:
                res = {'err': 'unknown op'}
        except Exception as e:
            import traceback

            res = {'err': f'{type(e).__name__}: {e}', 'tb': traceback.format_exc()[-1500:]}
        out.write(json.dumps(res) + '\n')
        out.flush()


_workers: dict = {}
_locks: dict = {}
_lock = threading.Lock()


def worker(slot):
    """slot = (x64, k): k-th worker process of that mode."""
    with _lock:
        if slot not in _workers:
            env = dict(os.environ)
            env['JAX_ENABLE_X64'] = '1' if slot[0] else '0'
            env['PYTHONPATH'] = str(lib.REPO / 'src')
            env['JAX_PLATFORMS'] = 'cpu'
            p = subprocess.Popen([sys.executable, str(Path(__file__).resolve()), '--worker'], stdin=subprocess.PIPE, stdout=subprocess.PIPE, stderr=subprocess.DEVNULL, text=True, env=env)
            _workers[slot] = p
            _locks[slot] = threading.Lock()
            atexit.register(p.kill)
        return _workers[slot], _locks[slot]


def ask(x64: bool, req: dict, k: int = 0):
    p, lock = worker((bool(x64), k))
    with lock:
        p.stdin.write(json.dumps(req) + '\n')
        p.stdin.flush()
        line = p.stdout.readline()
    if not line:
        raise RuntimeError('worker process died')
    res = json.loads(line)
    if 'err' in res:
        raise RuntimeError(res['err'] + '\n' + res.get('tb', ''))
    return res['ok']


def x64_mode() -> bool:
    import jax

    return bool(jax.config.jax_enable_x64)


# ------------------------------------------------------------------------------------------------


class Check(PropertyCheck):
    id = 'C18'
    props = ['C18.v']
    static_targets = ['theories/Lemmas/PytreeRegL.vo']
    shard = 150
    coq_header = (
        'From Coq Require Import ZArith List String.\nFrom Furax Require Import Model.PytreeReg.\n'
        'From FuraxGen Require Import PytreeReg FieldTable.\nImport ListNotations.\n'
        'Open Scope string_scope.\nOpen Scope Z_scope.'
    )
    partial = (
        'that JAX tracing / jax.jit / XLA compilation and equinox\'s generic flattening of modules preserve values, '
        'shapes and dtypes (eager = jit over a closure = filtering jit = unflatten(flatten(op))): runtime behaviour '
        'of third-party systems, tested numerically for every operator class, composite and landscape in both x64 '
        'modes (numerical_tests_not_proof), not proved'
    )
    trusted = [
        'translator tools/translate/pytreereg.py (Python ast + inspect, fail closed): constructor bodies of the '
        'registered classes are translated statement by statement into Model.PytreeReg.stmt; the JAX pytree registry '
        '(jax._src.tree_util._registry) is read for the registration status and cross-checked with the decorators',
        'Python semantics as modelled by the interpreter of Model/PytreeReg.v: call binding (positional, keyword, '
        'defaults, TypeError on unexpected/missing/duplicate), attribute assignment order = __dict__ order, '
        'super().__init__ along a linear MRO, int * and **, len, [::-1] on tuples, `is None`, and/or/not on booleans; '
        'values outside None/int/bool/str/tuple/opaque-object (floats as nside, arrays as shapes...) are outside the '
        'modelled domain (the interpreter answers Unmodelled; theorems have the hypothesis construct = Ok)',
        'jax.tree.flatten/unflatten call tree_flatten / tree_unflatten(aux, children) of a registered class and do '
        'nothing else to aux data (compared on every reg case); equality of opaque field values is object identity',
        'the use classification Model.PytreeReg.model_uses (value-level vs shape-level per field) was written by '
        'reading each mv; it is validated only indirectly (filtering jit traces every instance successfully and '
        'agrees with eager)',
        'equinox.filter_jit = jit that traces exactly the array leaves of non-static fields (may_be_traced), compared '
        'with jax.tree_util.tree_flatten_with_path on every instance (partition cases)',
        'correspondence harness harness/c18.py (case generators, the two printers of one case description, the '
        'worker subprocess protocol)',
        'ambient-configuration sequences and one-field pairs: implementation-side (the model has no notion of tracing or of a '
        'jit cache); reference = eager application of the same operator under the default ambient configuration; that a pair '
        'differs exactly in the declared field is established by the harness-side diff key_diff / same_static (never through the '
        '__eq__ of a furax dataclass); the equality of third-party objects stored in the configuration (lineax solvers: equinox '
        'tree equality) is not scanned, only exercised (pairs inverse/solver-*)',
        'derived-operator sequences (reduce / transposition / wrapping / tree maps / copies under another ambient configuration) and the '
        'scan ambient_rebuild_scan are implementation-side: reference = eager application of the original object under the default ambient '
        'configuration, plus numpy.linalg.solve (float64, on the matrices the instance was built from) for the holders whose captured solver '
        'converges; that reduce() preserves the action for operators holding no configuration is the subject of C01/C05, here it is only used',
        'Part C of the model (rec_eq) is the dataclass-generated __eq__ / an and-chain over the fields; that JAX compares the aux '
        'data of two treedefs with == and that equinox stores the static field values there is tested by the pairs, not proved',
        'route sequences, parameter variants and the static scans (hidden state, Python-level conversions) are '
        'implementation-side checks: the Coq model has no notion of tracing, so their reference is eager application of the '
        'same instance (and NumPy float64 matrix-vector product for as_matrix); the static scans are syntactic (class dicts, '
        'method ASTs reachable from mv through self.<name>; helper functions at module level are not followed) and '
        'complement, not replace, the dynamic sequences',
    ]

    def __init__(self, tier, seed):
        super().__init__(tier, seed)
        self._tr: dict | None = None
        self._obs: dict = {}
        self._prefetched: dict = {}
        self._prefetch_threads = None
        self._assigned: set = set()
        self._cases: list = []
        self.stats = {}

    # ---- translate ---------------------------------------------------------------------------
    def translate(self):
        import pytreereg as tr

        tr.Tie = Tie
        self._tr = tr.generate(self.gen_dir)
        self.stats['generated_sha1'] = __import__('hashlib').sha1(self._tr['text'].encode()).hexdigest()[:12]
        self.stats['registered_classes'] = sorted(self._tr['registered'])
        self.stats['unregistered_pairs'] = self._tr['unregistered']
        self.stats['operator_classes'] = len(self._tr['fields'])
        ids = {k: repr(o) for k, o in self._tr['objects'].items()}
        if ids != {1: repr(named_object('f64'))}:
            raise Tie(f'default objects of the registered constructors changed: {ids} (harness maps id 1 to numpy.float64)')
        self.stats['hidden_state'] = self._tr['hidden_state']
        self.stats['python_level_conversions_of_traced_fields'] = self._tr['conversions']
        self.stats['ambient_state_reads_outside_constructors'] = self._tr['ambient_reads']
        self.stats['methods_rebuilding_a_configuration_capturing_operator'] = self._tr['ambient_rebuilds']
        self.stats['static_fields_not_compared'] = self._tr['static_equality']
        self.stats['records_stored_in_static_fields'] = self._tr['static_records']

    def gen_files(self):
        return ['PytreeReg.v', 'FieldTable.v']

    # ---- cases -------------------------------------------------------------------------------
    def reg_cases(self):
        quick = self.tier == 'quick'
        rng = self.rng
        T = lambda *xs: {'t': list(xs)}  # noqa: E731
        O = lambda n: {'o': n}  # noqa: E731
        ARR = lambda n, k=0: {'a': n, 'id': k}  # noqa: E731
        cases = []

        def add(cls, args, kwargs):
            cases.append({'kind': 'reg', 'cls': cls, 'args': list(args), 'kwargs': [[k, v] for k, v in kwargs], 'x64': False})

        stokes = [None, 'I', 'QU', 'IQU', 'IQUV', 'XY']
        dtypes = [O('f64'), O('f32'), O('jf32'), O('i32'), O('dt64'), 'float32', None]
        nsides = [1, 2, 3, 4, 8, 16, 0, -2, None, 'a', T(2), T()]
        # HealpixLandscape: every nside x calling convention; stokes / dtype vary
        for i, n in enumerate(nsides):
            add('HealpixLandscape', [n], [])
            add('HealpixLandscape', [], [('nside', n)])
            add('HealpixLandscape', [n, stokes[i % 6]], [])
            add('HealpixLandscape', [n], [('dtype', dtypes[i % 7]), ('stokes', stokes[(i + 2) % 6])])
            add('HealpixLandscape', [n, stokes[(i + 1) % 6], dtypes[(i + 3) % 7]], [])
        add('HealpixLandscape', [], [])
        add('HealpixLandscape', [2, 'I', O('f32'), 5], [])
        add('HealpixLandscape', [2], [('shape', T(48))])
        add('HealpixLandscape', [2], [('nside', 2)])
        add('HealpixLandscape', [2, 'I'], [('stokes', 'QU')])
        add('HealpixLandscape', [2], [('pixel_shape', T(48))])
        # FrequencyLandscape
        freqs = [ARR(0), ARR(1), ARR(3), ARR(5), T(1, 2), T(), None, 5, 'ab']
        for i, f in enumerate(freqs):
            for n in (1, 2, 4, None, 'a'):
                add('FrequencyLandscape', [n, f], [])
                add('FrequencyLandscape', [n], [('frequencies', f), ('stokes', stokes[(i + 1) % 6])])
            add('FrequencyLandscape', [], [('frequencies', f), ('nside', 2), ('dtype', dtypes[i % 7])])
            add('FrequencyLandscape', [2, f, stokes[i % 6], dtypes[(i + 1) % 7]], [])
        add('FrequencyLandscape', [2], [])
        add('FrequencyLandscape', [], [('frequencies', ARR(2))])
        add('FrequencyLandscape', [2, ARR(2)], [('shape', T(2, 48))])
        add('FrequencyLandscape', [2, ARR(2), 'I', O('f32'), 1], [])
        add('FrequencyLandscape', [2, ARR(2, 0)], [('frequencies', ARR(2, 1))])
        # StokesLandscape (through a registered concrete subclass)
        shapes = [T(), T(3), T(2, 3), T(2, 3, 4), T(5, 1, 1, 2), T(0, 3), None, 5, T(T(1, 2), 3)]
        for i, s in enumerate(shapes):
            add('StokesLandscape', [s], [])
            add('StokesLandscape', [], [('shape', s)])
            add('StokesLandscape', [], [('pixel_shape', s)])
            add('StokesLandscape', [s, stokes[i % 6], dtypes[i % 7]], [])
            add('StokesLandscape', [], [('pixel_shape', s), ('stokes', stokes[(i + 3) % 6]), ('dtype', dtypes[(i + 2) % 7])])
            add('StokesLandscape', [s], [('pixel_shape', shapes[(i + 1) % len(shapes)])])
            add('StokesLandscape', [s, 'IQU', O('f64'), shapes[(i + 2) % len(shapes)]], [])
        add('StokesLandscape', [], [])
        add('StokesLandscape', [T(2)], [('shape', T(2))])
        add('StokesLandscape', [T(2)], [('nside', 1)])
        add('StokesLandscape', [T(2), 'I', O('f32'), None, 7], [])
        # Landscape (abstract base, registered itself; through a registered concrete subclass)
        for i, s in enumerate(shapes):
            add('Landscape', [s], [])
            add('Landscape', [s, dtypes[i % 7]], [])
            add('Landscape', [], [('dtype', dtypes[(i + 1) % 7]), ('shape', s)])
        add('Landscape', [], [])
        add('Landscape', [T(2), O('f32'), 'I'], [])
        add('Landscape', [T(2)], [('stokes', 'I')])
        # seeded random beyond
        pool = {
            'HealpixLandscape': (['nside', 'stokes', 'dtype'], {'nside': nsides, 'stokes': stokes, 'dtype': dtypes}),
            'FrequencyLandscape': (['nside', 'frequencies', 'stokes', 'dtype'], {'nside': nsides, 'frequencies': freqs, 'stokes': stokes, 'dtype': dtypes}),
            'StokesLandscape': (['shape', 'stokes', 'dtype', 'pixel_shape'], {'shape': shapes, 'stokes': stokes, 'dtype': dtypes, 'pixel_shape': shapes}),
            'Landscape': (['shape', 'dtype'], {'shape': shapes, 'dtype': dtypes}),
        }
        for _ in range(150 if quick else 8000):
            cls = rng.choice(sorted(pool))
            names, dom = pool[cls]
            npos = rng.randrange(0, len(names) + 1)
            args = [rng.choice(dom[n]) for n in names[:npos]]
            rest = names[npos:] if rng.random() < 0.85 else names
            kw = [(n, rng.choice(dom[n])) for n in rest if rng.random() < 0.6]
            rng.shuffle(kw)
            if rng.random() < 0.05:
                kw.append((rng.choice(['shape', 'nside', 'pixel_shape', 'bogus']), rng.choice(shapes)))
                kw = list(dict(kw).items())
            add(cls, args, kw)
        # arrays get fresh ids per occurrence in a case
        for c in cases:
            k = [0]

            def fresh(v):
                if isinstance(v, dict) and 'a' in v:
                    k[0] += 1
                    return {'a': v['a'], 'id': k[0]}
                return v

            c['args'] = [fresh(v) for v in c['args']]
            c['kwargs'] = [[n, fresh(v)] for n, v in c['kwargs']]
        return cases

    def instance_names(self):
        if x64_mode():
            return sorted(instances('f64', self.workdir))
        return sorted(instances('f32', self.workdir))

    def route_cases(self):
        quick = self.tier == 'quick'
        names = self.instance_names()
        cases = []
        # `first`: which route touches a fresh object (and, in the x64-on worker processes, the class in
        # the process) first - eager or a trace; `asm`: as_matrix sequences ('first': on a fresh object
        # before any other use; 'both': also on the first object after all its other routes)
        # `amb`: the single-field variants of the ambient-configuration sequences for the operators that hold a
        # configuration ('full': all of them, both sequences; an integer: two of them, rotating with the instance;
        # 'all-fields': none, and sequence A only)
        for i, n in enumerate(names):
            cases.append({'kind': 'routes', 'inst': n, 'dt': 'f32', 'x64': False, 'first': 'eager', 'asm': 'first' if quick else 'both', 'amb': i if quick else 'full'})
            cases.append({'kind': 'routes', 'inst': n, 'dt': 'f64', 'x64': True, 'first': 'traced', 'asm': False if quick else 'both', 'amb': 'all-fields' if quick else 'full'})
            if not quick or n.startswith((
                'toeplitz-dense', 'toeplitz-fft', 'toeplitz-overlap', 'dense', 'index-int-array', 'index-0d', 'index-1d-and', 'diagonal-l',
                'diagonal-int', 'qu-rotation-generic-IQU', 'qu-rotation-0d', 'qu-rotation-int', 'homothety-int', 'inverse-cg', 'inverse-nested', 'composition',
            )):
                cases.append({'kind': 'routes', 'inst': n, 'dt': 'f32', 'x64': True, 'first': 'eager', 'asm': False if quick else 'first', 'amb': 'all-fields' if quick else 'full'})
        return cases

    def pair_cases(self):
        quick = self.tier == 'quick'
        names = sorted(pairs('f64' if x64_mode() else 'f32'))
        q = {'quick': True} if quick else {}
        cases = [{'kind': 'pairs', 'pair': n, 'dt': 'f32', 'x64': False, **q} for n in names]
        for i, n in enumerate(names):
            # x64 on: in the quick tier the pairs on a stored configuration only
            if not quick or n.startswith('inverse'):
                cases.append({'kind': 'pairs', 'pair': n, 'dt': 'f64', 'x64': True, **q})
            if not quick:
                cases.append({'kind': 'pairs', 'pair': n, 'dt': 'f32', 'x64': True})
        return cases

    def cases(self):
        # the static scans and the coverage requirements first: their replays are the most informative
        cases = [{'kind': 'static', 'x64': x64_mode()}, {'kind': 'coverage', 'x64': x64_mode()}]
        cases += self.reg_cases() + self.route_cases() + self.pair_cases()
        cases += [{'kind': 'config', 'throw': t, 'options': o, 'x64': False} for t in (False, True) for o in (False, True)]
        # landscapes under x64 as well (action: full/normal/world2index in float64)
        for c in [c for c in cases if c['kind'] == 'reg'][:: (9 if self.tier == 'quick' else 2)]:
            if c['cls'] in ('HealpixLandscape', 'FrequencyLandscape'):
                cases.append({**c, 'x64': True})
        self._cases = cases
        self.exhaustive = False
        return cases

    def rule(self):
        return (
            'reg: for each registered class (Landscape and StokesLandscape through registered concrete subclasses, '
            'HealpixLandscape, FrequencyLandscape) constructor calls over nside/shape/pixel_shape/frequencies/stokes/dtype '
            'domains that include invalid values (None, str, tuples, negative), every calling convention (positional, '
            'keyword, mixed, too many, unexpected, duplicated, missing) + seeded random argument lists; each is '
            'constructed, flattened and unflattened by JAX and by the model. routes: one or more instances of EVERY '
            'operator class and composite (the class coverage is checked against the package, fail closed), with the 0-d / '
            '1-element / rank-2 / integer / float / Python-scalar variants of every array-typed field (variant coverage '
            'checked against the regenerated field table, fail closed) x {x64 off/f32, x64 on/f64, x64 on/f32} x {eager, '
            '__call__, jit over a closure, equinox.filter_jit with the operator as argument (not for boolean-mask operators), '
            'unflatten(flatten(op)) eager and jitted, eval_shape, as_matrix} in several orders on the same object and on fresh '
            'equal objects (eager-first; jit-first then eager, second jit, filter_jit, round trip; eval_shape-first; '
            'as_matrix-first; jit-as-argument-first; eager again and a second jit on the first object), traced-first being the '
            'first use in the process for the x64-on/f64 cases. static: scans of the class dicts / method ASTs for state '
            'besides the dataclass fields, for Python-level conversions of traced fields, for reads of ambient state outside '
            'constructors and for fields left out of the equality of the static part. ambient (inside every routes case): the '
            'routes with the active furax configuration different at trace time and at call time (traced inside a Config block / '
            'called outside and vice versa; per ConfigState field and all fields for the operators that hold a configuration). '
            'derived (inside every routes case): operators derived from the instance (reduce, transposition twice, wrapping in a composition / '
            'sum / block then reduce, pytree round trip, tree map, partition/combine, copies) under an ambient configuration other than the '
            'creation one, eagerly and inside jitted functions traced inside / outside a Config block, compared with eager application of the '
            'original (and numpy.linalg.solve for converged captured solvers). '
            'pairs: for every field of the jit cache key of every concrete class (coverage fail closed) two operators differing '
            'exactly there x {filter_jit a,b,a,b (and b,a), jax.jit with static treedef and leaves, jit over closures} x {x64 off/f32, x64 on/f64}. '
            'Distinct by canonical JSON of the case.'
        )

    def distribution(self, cases):
        d = {}
        for c in cases:
            k = c['kind'] + ('/x64' if c.get('x64') else '') + ('/' + c['cls'] if c['kind'] == 'reg' else '/' + c.get('dt', ''))
            if c['kind'] == 'routes' and c['inst'].startswith('inverse'):
                k += '/holds-configuration'
            d[k] = d.get(k, 0) + 1
        return d

    def nontrivial(self, case, obs):
        if case['kind'] == 'reg':
            return isinstance(obs, dict) and obs.get('ctor') == 'ok'
        if case['kind'] in ('config', 'coverage', 'static'):
            return False
        return isinstance(obs, dict) and 'routes' in obs and (case['kind'] != 'pairs' or obs.get('distinct') or obs.get('key_diff'))

    # ---- implementation ----------------------------------------------------------------------
    N_OTHER_MODE = 5  # worker processes for the cases of the other x64 mode
    N_SAME_MODE = 4   # worker processes sharing the cases of this process's mode

    def _start_prefetch(self):
        """The cases of the other x64 mode run in worker subprocesses while this process does (its share
        of) the cases of its own mode.  Every process executes its cases in list order."""
        if self._prefetch_threads is not None:
            return
        mode = x64_mode()
        plan: dict = {}
        other = [c for c in self._cases if bool(c.get('x64', False)) != mode]
        for i, c in enumerate(other):
            plan.setdefault((not mode, i % self.N_OTHER_MODE), []).append(c)
        same = [c for c in self._cases if bool(c.get('x64', False)) == mode and c['kind'] in ('routes', 'pairs')]
        j = 0
        for i, c in enumerate(same):
            # this process also runs the reg / coverage / static cases: it keeps one case in 2 N + 2
            if self.N_SAME_MODE and i % (2 * self.N_SAME_MODE + 2):
                plan.setdefault((mode, 1 + j % self.N_SAME_MODE), []).append(c)
                j += 1
        self._assigned = {lib.case_id(c) for todo in plan.values() for c in todo}

        def go(slot, todo):
            import time

            t0 = time.time()
            for c in todo:
                self.stats.setdefault('worker_wall_s', {})[f'{"x64-on" if slot[0] else "x64-off"}/{slot[1]}'] = [len(todo), round(time.time() - t0, 1)]
                try:
                    self._prefetched[lib.case_id(c)] = ask(slot[0], {'op': c['kind'], 'case': lib.pub(c)}, slot[1])
                except Exception as e:
                    self._prefetched[lib.case_id(c)] = {'harness_error': f'{type(e).__name__}: {e}'}

        self._prefetch_threads = [threading.Thread(target=go, args=(slot, todo), daemon=True) for slot, todo in plan.items()]
        for t in self._prefetch_threads:
            t.start()

    def run_impl(self, case):
        want = bool(case.get('x64', False))
        cid = lib.case_id(case)
        if self._cases:
            self._start_prefetch()
        if cid in self._assigned:
            import time

            while cid not in self._prefetched and any(t.is_alive() for t in self._prefetch_threads):
                time.sleep(0.02)
            obs = self._prefetched.get(cid)
            if obs is None:
                obs = ask(want, {'op': case['kind'], 'case': lib.pub(case)})
        elif want != x64_mode():
            obs = ask(want, {'op': case['kind'], 'case': lib.pub(case)})
        elif case['kind'] == 'reg':
            obs = lib.canon(run_reg(case))
        elif case['kind'] == 'config':
            obs = lib.canon(run_config(case))
        elif case['kind'] == 'coverage':
            obs = lib.canon(run_coverage(case, self.workdir))
        elif case['kind'] == 'static':
            obs = lib.canon(run_static(case))
        elif case['kind'] == 'pairs':
            obs = lib.canon(run_pairs(case, self.workdir))
        else:
            obs = lib.canon(run_routes(case, self.workdir))
        self._obs[cid] = obs
        return obs

    # ---- model -------------------------------------------------------------------------------
    def model_term(self, case):
        if case['kind'] in ('config', 'coverage', 'static', 'pairs'):
            return None
        if case['kind'] == 'reg':
            args = clist(case['args'], coq_val)
            kw = clist(case['kwargs'], lambda kv: f'("{kv[0]}", {coq_val(kv[1])})')
            return f'observe gen_table "{case["cls"]}" {args} {kw}'
        obs = self._obs.get(lib.case_id(case))
        if not isinstance(obs, dict) or 'facts' not in obs:
            return None
        facts = clist(obs['facts'], lambda f: f'("{f[0]}", {"true" if f[1] else "false"})')
        return f'instance_ok gen_fields "{obs["class"]}" {facts}'

    def decode(self, case, v):
        if case['kind'] != 'reg':
            return {'partition': v}
        if v is None:
            return {'ctor': 'unknown-class'}
        name, args = lib.coqparse.ctor(v)
        if name == 'Some':
            name, args = lib.coqparse.ctor(args[0])
        if name == 'RCtorFailed':
            return {'ctor': dec_result(args[0])[0]}
        obj, ch, aux, back = args
        kind, env2 = dec_result(back)
        out = {'ctor': 'ok', 'attrs': dec_env(obj), 'children': [dec_val(c) for c in ch], 'aux': dec_env(aux), 'back': kind}
        if env2 is not None:
            out['attrs2'] = env2
        return out

    def comparable(self, case, obs):
        if not isinstance(obs, dict):
            return obs
        if case['kind'] == 'reg':
            return {k: obs[k] for k in ('ctor', 'attrs', 'children', 'aux', 'back', 'attrs2') if k in obs}
        if 'facts' in obs:
            return {'partition': [True] * (len(obs['facts']) + 1)}
        return obs

    # ---- oracle ------------------------------------------------------------------------------
    def oracle(self, case, obs):
        if case['kind'] == 'routes':
            return judge_routes(case, obs)
        if case['kind'] == 'pairs':
            return judge_pairs(case, obs)
        if case['kind'] == 'coverage':
            if obs.get('missing'):
                return f'operator classes of the package without an instance in harness/c18.py (four-route test does not cover them): {obs["missing"]}'
            if obs.get('variant_gaps'):
                return (
                    'array-typed operator fields without the required parameter variants in harness/c18.py (0-d, 1-element, '
                    f'rank-2, integer/float; Python-level conversions inside mv are only exercised by them): {obs["variant_gaps"]}'
                )
            if obs.get('stale_exemptions'):
                return f'variant exemptions whose constructor call no longer raises (add the variant as an instance): {obs["stale_exemptions"]}'
            if obs.get('pair_gaps'):
                return (
                    'fields of the jit cache key (static fields, fields of records stored in static fields, Python leaves and container '
                    f'structure of dynamic fields) without a pair of operators differing exactly there in harness/c18.py pairs(): {obs["pair_gaps"]}'
                )
            return None
        if case['kind'] == 'static':
            if obs.get('hidden_state'):
                return (
                    'operator classes carry state besides their dataclass fields, so the result of a route may depend on '
                    f'which routes ran before on the same object (a value cached during a trace is a leaked tracer): {obs["hidden_state"]}'
                )
            if obs.get('conversions'):
                return (
                    'array fields that Model.PytreeReg.model_uses classifies value-level are converted at Python level in the code '
                    f'reachable from mv (raises when the operator is a jit ARGUMENT and the field a tracer): {obs["conversions"]}'
                )
            if obs.get('ambient_reads'):
                return (
                    'methods of operator classes read AMBIENT state (the active configuration) outside the constructor: eagerly that is '
                    'the configuration active at call time, under jit the one active at TRACE time, frozen in the compiled function - '
                    f'eager and jitted application disagree as soon as the two differ: {obs["ambient_reads"]}'
                )
            if obs.get('ambient_rebuilds'):
                return (
                    'methods of operator classes whose constructor captures the active configuration rebuild the object through that '
                    'constructor: the derived operator (and a jitted function that derives it at trace time) uses the configuration active '
                    f'then, not the captured one: {obs["ambient_rebuilds"]}'
                )
            if obs.get('static_equality'):
                return (
                    'the static part of an operator is the cache key of a jit that takes the operator as argument, but not every field '
                    f'takes part in its comparison (operators differing only there share one compiled function): {obs["static_equality"]}'
                )
            return None
        if case['kind'] == 'config':
            if not obs.get('registered'):
                return None
            if obs.get('equal') is not True:
                return f'ConfigState is registered as a pytree node but its flatten/unflatten pair is lossy: {obs}'
            return None
        if obs.get('ctor') != 'ok':
            return None  # no object: no clause of the property
        if obs.get('back') != 'ok':
            return f'{case["cls"]}: unflatten(flatten(obj)) raised {obs.get("back")}: {obs.get("message", "")}'
        if obs['attrs2'] != obs['attrs']:
            return f'{case["cls"]}: the round-tripped object has attributes {obs["attrs2"]}, the original {obs["attrs"]}'
        if not obs.get('same_type'):
            return f'{case["cls"]}: the round-tripped object has another type'
        act = obs.get('action', {})
        bad = [k for k, v in act.items() if v is not True]
        if bad:
            return f'{case["cls"]}: the round-tripped landscape differs in {bad}: {act}'
        return None

    def finding_key(self, case, obs):
        if case['kind'] == 'reg' and isinstance(obs, dict) and obs.get('ctor') == 'ok':
            return f'roundtrip-{case["cls"]}-{obs.get("back")}'
        if case['kind'] == 'routes':
            return f'routes-{case["inst"]}'
        if case['kind'] == 'pairs':
            return f'pairs-{case["pair"]}'
        if case['kind'] == 'static':
            return 'static-scan'
        return case.get('key')

    def shrink(self, case, failing):
        """A failing constructor call -> the same class with the fewest arguments that still fails."""
        if case['kind'] != 'reg':
            return case
        best = case
        for args, kwargs in (
            ([2], []), ([1, {'a': 1, 'id': 1}], []), ([{'t': [2]}], []),
            (case['args'][:1], []), (case['args'], []), ([], case['kwargs']),
        ):
            small = {**case, 'args': args, 'kwargs': kwargs, 'x64': False}
            try:
                if self.oracle(small, lib.canon(self.run_impl(small))):
                    return small
            except Exception:
                continue
        return best

    def search_cases(self):
        other = type(self)('thorough', self.seed)
        for c in other.reg_cases():
            yield c

    # ---- numerical tests of the unproved clause (reported separately) --------------------------
    def extra(self):
        failures = []
        # fail closed: every operator class of the package has an instance (alone or nested)
        import inspect

        import pytreereg as tr

        seen: set[str] = set()
        nroutes = nvalues = nexact = 0
        per_mode = {}
        masks = {}
        for c in self._cases:
            if c['kind'] != 'routes':
                continue
            obs = self._obs.get(lib.case_id(c))
            if not isinstance(obs, dict) or 'routes' not in obs:
                continue
            seen.update(obs['classes'])
            nroutes += len(obs['routes'])
            nexact += bool(obs['exact'])
            nvalues += sum(len(l['hex']) // (2 * int(l['dtype'][-2:]) // 8) for r in obs['routes'].values() if 'leaves' in r for l in r['leaves'] if 'hex' in l)
            key = ('x64-on' if c['x64'] else 'x64-off') + '/' + c['dt']
            per_mode[key] = per_mode.get(key, 0) + 1
            if obs['mask']:
                masks[c['inst'] + '/' + key] = obs.get('mask_filter_jit')
        npairs = npair_routes = nambient = nderived = 0
        not_derivable: dict = {}
        for c in self._cases:
            obs = self._obs.get(lib.case_id(c))
            if isinstance(obs, dict) and 'routes' in obs:
                if c['kind'] == 'pairs':
                    npairs += 1
                    npair_routes += len(obs['routes'])
                else:
                    nambient += sum(1 for n in obs['routes'] if n.startswith('ambient['))
                    nderived += sum(1 for n in obs['routes'] if n.startswith('derived['))
                    for d, e in (obs.get('derived') or {}).get('not_derivable', {}).items():
                        not_derivable[f'{c["inst"]}/{d}'] = e
        classes = tr.all_operator_classes()
        concrete_missing = sorted(k.__name__ for k in classes if not inspect.isabstract(k) and k.__name__ not in seen)
        abstract = sorted(k.__name__ for k in classes if inspect.isabstract(k))
        try:
            probe = shape_level_probe(self.workdir) if not x64_mode() else {}
        except Exception as e:
            probe = {'error': f'{type(e).__name__}: {e}'}
        return {
            'what': 'numerical TESTS of the unproved clause (tracing / XLA / equinox flattening); not theorems',
            'route_instances': sum(per_mode.values()),
            'instances_per_mode': per_mode,
            'routes_executed': nroutes,
            'of_which_with_ambient_configuration_differing_between_trace_and_call': nambient,
            'pairs_differing_in_one_cache_key_field': npairs,
            'pair_routes_executed': npair_routes,
            'values_compared': nvalues,
            'instances_compared_bit_for_bit': nexact,
            'operator_classes_covered': sorted(seen),
            'abstract_classes_without_instances': abstract,
            'concrete_classes_without_route_observation': concrete_missing,
            'shape_level_dynamic_fields_when_forced_to_be_traced_informative': probe,
            'boolean_mask_operators_under_filter_jit_informative': masks,
            'derived_operator_routes_executed': nderived,
            'derivations_that_raise_on_the_plain_object_informative': not_derivable,
            'failures': failures,
        }


if __name__ == '__main__':
    if '--worker' in sys.argv:
        worker_main()
