"""C19 - solver configuration is scoped, restored and captured correctly."""
from __future__ import annotations

import contextvars
import itertools
import threading

import lib
from lib import PropertyCheck, clist, cz

SETTINGS = ['solver', 'throw', 'options', 'callback']
COQ_SET = {'solver': 'SSolver', 'throw': 'SThrow', 'options': 'SOptions', 'callback': 'SCallback'}

_impl = {}


def impl():
    """Real objects for the abstract setting identifiers."""
    if _impl:
        return _impl
    import lineax as lx
    from furax._base import config as fc

    default = fc.ConfigState()
    solvers = {0: default.solver}
    callbacks = {0: default.solver_callback}
    for n in (1, 2, 3):
        solvers[n] = lx.CG(rtol=10.0 ** -(6 + n), atol=1e-6, max_steps=500)

        def cb(solution, n=n):
            _impl['cb_log'].append(n)

        callbacks[n] = cb
    _impl.update(fc=fc, solvers=solvers, callbacks=callbacks, cb_log=[], default=default)
    return _impl


def to_kwargs(kw: dict) -> dict:
    im = impl()
    out = {}
    for k, v in kw.items():
        if k == 'solver':
            out['solver'] = im['solvers'][v]
        elif k == 'throw':
            out['solver_throw'] = bool(v)
        elif k == 'options':
            out['solver_options'] = {} if v == 0 else {'tag': v}
        elif k == 'callback':
            out['solver_callback'] = im['callbacks'][v]
    return out


def cfg_ids(state) -> list[int]:
    im = impl()
    solver = next((n for n, s in im['solvers'].items() if s is state.solver), -1)
    if solver == -1:
        solver = next((n for n, s in im['solvers'].items() if s == state.solver), -1)
    callback = next((n for n, c in im['callbacks'].items() if c is state.solver_callback), -1)
    options = state.solver_options.get('tag', 0) if isinstance(state.solver_options, dict) else -1
    return [solver, int(bool(state.solver_throw)), options, callback]


class Boom(Exception):
    pass


_spd = {}


def make_inverse():
    """A genuine InverseOperator (iterative solver) of a tiny SPD operator."""
    import jax
    import jax.numpy as jnp
    from furax._base.core import InverseOperator
    from furax._base.dense import DenseBlockDiagonalOperator

    if 'A' not in _spd:
        _spd['A'] = DenseBlockDiagonalOperator(
            jnp.array([[2.0, 1.0], [1.0, 3.0]], dtype=jnp.float32),
            jax.ShapeDtypeStruct((2,), jnp.float32),
            'ij,j->i',
        )
    return InverseOperator(_spd['A'])


class Runner:
    """Executes one thread's history with genuine `with Config(...)` statements."""

    def __init__(self, events, gate=None, tid=0, log=None, really_apply=False):
        self.events = events
        self.gate = gate
        self.tid = tid
        self.obs = log if log is not None else []
        self.invs = []
        self.really_apply = really_apply

    def record(self, o):
        self.obs.append((self.tid, o))

    def block(self, pos: int) -> int:
        fc = impl()['fc']
        ev = self.events
        while pos < len(ev):
            e = ev[pos]
            if e[0] in ('X', 'XE'):
                return pos
            if self.gate:
                self.gate.wait_turn(self.tid)
            if e[0] == 'E':
                cm = fc.Config(**to_kwargs(e[1]))
                self.record(None)
                if self.gate:
                    # the constructor ran at its turn; entering happens right away (with statement)
                    pass
                try:
                    with cm:
                        if self.gate:
                            self.gate.done()
                        pos = self.block(pos + 1)
                        if pos >= len(ev):
                            raise RuntimeError('history is not well nested')
                        if self.gate:
                            self.gate.wait_turn(self.tid)
                        self.record(None)
                        if ev[pos][0] == 'XE':
                            raise Boom()
                except Boom:
                    pass
                if self.gate:
                    self.gate.done()
                pos += 1
                continue
            if e[0] == 'N':
                self.invs.append(make_inverse())
                self.record(None)
            elif e[0] == 'A':
                inv = self.invs[e[1]] if e[1] < len(self.invs) else None
                if inv is None:
                    self.record([])
                else:
                    ids = cfg_ids(inv.config)
                    if self.really_apply:
                        import jax
                        import jax.numpy as jnp

                        log = impl()['cb_log']
                        del log[:]
                        y = inv(jnp.array([1.0, 2.0], dtype=jnp.float32))
                        jax.block_until_ready(y)
                        jax.effects_barrier()
                        ids = ids + [list(log)]
                    self.record(ids)
            elif e[0] == 'R':
                self.record(cfg_ids(fc.Config.instance()))
            elif e[0] == 'F':  # fork a context copy that runs another history
                self.gate.fork(self, e[1])
                self.record('fork')
            else:
                raise ValueError(e)
            if self.gate:
                self.gate.done()
            pos += 1
        return pos


class Gate:
    """Forces a given global schedule on real threads (one event of the scheduled thread at a time)."""

    def __init__(self, schedule, histories, forks):
        self.schedule = schedule
        self.pos = 0
        self.cv = threading.Condition()
        self.histories = histories
        self.log = []
        self.threads = []
        self.errors = []
        self.forks = forks

    def wait_turn(self, tid):
        with self.cv:
            ok = self.cv.wait_for(
                lambda: self.pos >= len(self.schedule) or self.schedule[self.pos] == tid, timeout=20
            )
            if not ok or self.pos >= len(self.schedule):
                raise RuntimeError(f'schedule exhausted or timed out for thread {tid}')

    def done(self):
        with self.cv:
            self.pos += 1
            self.cv.notify_all()

    def start(self, tid, ctx=None):
        r = Runner(self.histories[tid], gate=self, tid=tid, log=self.log)

        def target():
            try:
                end = r.block(0)
                if end != len(r.events):
                    raise RuntimeError('unbalanced history')
            except Exception as e:  # pragma: no cover
                self.errors.append(f'{type(e).__name__}: {e}')
                with self.cv:
                    self.pos = len(self.schedule)
                    self.cv.notify_all()

        th = threading.Thread(target=(lambda: ctx.run(target)) if ctx is not None else target)
        self.threads.append(th)
        th.start()

    def fork(self, runner, child):
        self.start(child, contextvars.copy_context())


def reference(events, start=None):
    """Stack discipline stated independently of the Coq model: (observations, final configuration)."""
    cur = list(start or [0, 0, 0, 0])
    stack, invs, obs = [], [], []
    for e in events:
        if e[0] == 'E':
            stack.append(list(cur))
            for k, v in e[1].items():
                cur[SETTINGS.index(k)] = v
            obs.append(None)
        elif e[0] in ('X', 'XE'):
            cur = stack.pop()
            obs.append(None)
        elif e[0] == 'N':
            invs.append(list(cur))
            obs.append(None)
        elif e[0] == 'A':
            obs.append(list(invs[e[1]]) if e[1] < len(invs) else [])
        elif e[0] == 'R':
            obs.append(list(cur))
        elif e[0] == 'F':
            obs.append('fork')
    return obs, cur


KWS = [{'throw': 1}, {'options': 2}, {'callback': 1}, {'throw': 1, 'options': 3}, {'solver': 1}, {'options': 0, 'callback': 2}]


def enum_histories(maxlen, kws):
    """All well-nested histories with at most maxlen events."""
    out = []

    def go(h, depth, ninv):
        if depth == 0:
            out.append(list(h))
        if len(h) + depth >= maxlen:
            # only closing moves can still fit
            if depth > 0 and len(h) < maxlen:
                for x in (['X'], ['XE']):
                    h.append(x)
                    go(h, depth - 1, ninv)
                    h.pop()
            return
        for kw in kws:
            h.append(['E', kw])
            go(h, depth + 1, ninv)
            h.pop()
        if depth > 0:
            for x in (['X'], ['XE']):
                h.append(x)
                go(h, depth - 1, ninv)
                h.pop()
        h.append(['R'])
        go(h, depth, ninv)
        h.pop()
        h.append(['N'])
        go(h, depth, ninv + 1)
        h.pop()
        if ninv > 0:
            h.append(['A', ninv - 1])
            go(h, depth, ninv)
            h.pop()

    go([], 0, 0)
    return out


def random_history(rng, length, kws):
    h, depth, ninv = [], 0, 0
    while len(h) + depth < length:
        r = rng.random()
        if r < 0.3:
            h.append(['E', rng.choice(kws)])
            depth += 1
        elif r < 0.5 and depth > 0:
            h.append(rng.choice([['X'], ['XE']]))
            depth -= 1
        elif r < 0.7:
            h.append(['R'])
        elif r < 0.82:
            h.append(['N'])
            ninv += 1
        elif ninv > 0:
            h.append(['A', rng.randrange(ninv)])
        else:
            h.append(['R'])
    while depth > 0:
        h.append(rng.choice([['X'], ['XE']]))
        depth -= 1
        if rng.random() < 0.5:
            h.append(['R'])
    return h


def coq_event(e) -> str:
    if e[0] == 'E':
        kw = clist(e[1].items(), lambda kv: f'({COQ_SET[kv[0]]}, {cz(kv[1])})')
        return f'Enter {kw}'
    return {'X': 'Exit', 'XE': 'ExitExc', 'N': 'NewInverse', 'R': 'Read'}.get(e[0]) or f'ApplyInverse {e[1]}%nat'


class Check(PropertyCheck):
    id = 'C19'
    props = ['C19.v']
    static_targets = ['theories/Lemmas/ConfigL.vo']
    coq_header = 'From Coq Require Import ZArith List.\nFrom Furax Require Import Model.Config.\nImport ListNotations.\nOpen Scope Z_scope.'
    trusted = [
        "CPython contextvars semantics as modelled: one binding per thread/context, ContextVar.set returns a token "
        "holding the previous value, reset(token) restores it, threading.Thread starts from the default, "
        "copy_context() copies",
        'setting values are abstracted to identifiers; the harness maps them to real solver/callback/options objects',
        'correspondence harness (harness/c19.py): genuine `with Config(...)` statements, real InverseOperator objects, '
        'real threads forced through each schedule',
    ]

    def cases(self):
        quick = self.tier == 'quick'
        cases = []
        for h in enum_histories(5 if quick else 6, KWS[:3] if quick else KWS[:4]):
            cases.append({'kind': 'single', 'events': h})
        for _ in range(600 if quick else 6000):
            cases.append({'kind': 'single', 'events': random_history(self.rng, self.rng.randrange(6, 16), KWS)})
        # threads: all interleavings of two short histories, plus random schedules with forks
        pool = [h for h in enum_histories(4, KWS[:2]) if any(e[0] == 'E' for e in h) and any(e[0] == 'R' for e in h)]
        self.rng.shuffle(pool)
        npairs = 6 if quick else 40
        for a, b in zip(pool[:npairs], pool[npairs : 2 * npairs]):
            # every event of a `with` history takes one turn, so a thread with n events has n turns
            for sched in set(itertools.permutations([0] * len(a) + [1] * len(b))):
                cases.append({'kind': 'threads', 'histories': {'0': a, '1': b}, 'schedule': list(sched), 'forks': {}})
        for _ in range(40 if quick else 400):
            ha = random_history(self.rng, 6, KWS)
            hb = random_history(self.rng, 5, KWS)
            hc = random_history(self.rng, 4, KWS)
            # thread 0 forks context 2 at a random point
            k = self.rng.randrange(len(ha) + 1)
            ha2 = ha[:k] + [['F', 2]] + ha[k:]
            sched = [0] * len(ha2) + [1] * len(hb)
            self.rng.shuffle(sched)
            # context 2's turns may only come after the fork
            first_fork = [i for i, t in enumerate(sched) if t == 0][k]
            rest = sched[first_fork + 1 :] + [2] * len(hc)
            self.rng.shuffle(rest)
            sched = sched[: first_fork + 1] + rest
            cases.append({'kind': 'threads', 'histories': {'0': ha2, '1': hb, '2': hc}, 'schedule': sched, 'forks': {'2': 0}})
        self.exhaustive = False
        return cases

    def rule(self):
        return (
            'single: every well-nested history of <=5 (quick) / <=6 (thorough) events over enter(3-4 keyword sets)/'
            'exit/exit-by-exception/new-inverse/apply-inverse/read, plus seeded random histories of 6-15 events; '
            'threads: all interleavings of pairs of histories of <=4 events on real threads, plus random schedules '
            'with a forked context. Non-trivial: contains at least one enter and one read/apply.'
        )

    def nontrivial(self, case, obs):
        evs = case['events'] if case['kind'] == 'single' else sum(case['histories'].values(), [])
        return any(e[0] == 'E' for e in evs) and any(e[0] in ('R', 'A') for e in evs)

    def run_impl(self, case):
        fc = impl()['fc']
        if case['kind'] == 'single':
            r = Runner(case['events'], really_apply=case.get('apply', False))

            def go():
                end = r.block(0)
                assert end == len(case['events']), 'unbalanced'
                return cfg_ids(fc.Config.instance())

            final = contextvars.Context().run(go)
            return {'obs': [o for _, o in r.obs], 'final': final}
        hist = {int(k): v for k, v in case['histories'].items()}
        gate = Gate(case['schedule'], hist, case.get('forks', {}))
        forked = {int(k) for k in case.get('forks', {})}
        for tid in hist:
            if tid not in forked:
                gate.start(tid)
        for th in list(gate.threads):
            th.join(30)
        for th in list(gate.threads):
            th.join(30)
        if gate.errors:
            return {'error': gate.errors}
        return {'obs': [[t, o] for t, o in gate.log]}

    def model_term(self, case):
        if case.get('apply'):
            return None
        if case['kind'] == 'single':
            return 'run_single ' + clist(case['events'], coq_event)
        # global: interleave per the schedule
        pos = {int(k): 0 for k in case['histories']}
        evs = []
        for t in case['schedule']:
            e = case['histories'][str(t)][pos[t]]
            pos[t] += 1
            if e[0] == 'F':
                evs.append(f'Fork {t}%nat {e[1]}%nat')
            else:
                evs.append(f'Ev {t}%nat ({coq_event(e)})')
        return 'run_global ' + clist(evs)

    def decode(self, case, v):
        if case['kind'] == 'single':
            obs, final = v
            return {'obs': [o if o != [] else None for o in obs], 'final': final}
        return {'obs': [[t, (o if o != [] else None)] for t, o in v]}

    def comparable(self, case, obs):
        if not isinstance(obs, dict) or 'obs' not in obs:
            return obs
        if case['kind'] == 'single':
            # the model prints None for events without observation and [] for an unknown inverse
            return {'obs': [None if o in (None, []) else o for o in obs['obs']], 'final': obs['final']}
        out = []
        for t, o in obs['obs']:
            if o == 'fork':
                continue
            out.append([t, None if o in (None, []) else o])
        return {'obs': out}

    def oracle(self, case, obs):
        if 'error' in obs:
            return f'threads failed: {obs["error"]}'
        if case['kind'] == 'single':
            exp, final = reference(case['events'])
            got = obs['obs']
            if case.get('apply'):
                for e, o in zip(case['events'], got):
                    if e[0] == 'A' and o and o[:4] != [] and o[4] != ([o[3]] if o[3] != 0 else []):
                        return f'applying the inverse invoked callbacks {o[4]} but it captured callback {o[3]}'
                got = [o[:4] if isinstance(o, list) and len(o) == 5 else o for o in got]
            if got != exp:
                i = next(i for i, (a, b) in enumerate(zip(got, exp)) if a != b)
                return f'event {i} {case["events"][i]} observed {got[i]} expected {exp[i]}'
            if obs['final'] != [0, 0, 0, 0]:
                return f'configuration after the history is {obs["final"]}, not the defaults'
            return None
        # threads: each thread's observations equal those of its history alone
        starts = {}
        per = {}
        for t, o in obs['obs']:
            per.setdefault(t, []).append(o)
        # a forked context starts from the parent's configuration at the fork
        for child, parent in case.get('forks', {}).items():
            h = case['histories'][str(parent)]
            k = next(i for i, e in enumerate(h) if e[0] == 'F' and e[1] == int(child))
            # configuration of the parent just before the fork: replay the prefix (it may be unbalanced)
            cur, stack = [0, 0, 0, 0], []
            for e in h[:k]:
                if e[0] == 'E':
                    stack.append(list(cur))
                    for kk, v in e[1].items():
                        cur[SETTINGS.index(kk)] = v
                elif e[0] in ('X', 'XE'):
                    cur = stack.pop()
            starts[int(child)] = cur
        for t, h in case['histories'].items():
            exp, _ = reference(h, starts.get(int(t)))
            if per.get(int(t), []) != exp:
                return f'thread {t} observed {per.get(int(t))} but alone it observes {exp}'
        return None

    def extra(self):
        """The effect of the captured settings on a genuine solve (callback actually invoked)."""
        hs = [
            [['E', {'callback': 1}], ['N'], ['X'], ['E', {'callback': 2}], ['A', 0], ['N'], ['A', 1], ['XE'], ['A', 1], ['A', 0]],
            [['N'], ['E', {'callback': 3, 'throw': 1}], ['A', 0], ['N'], ['X'], ['A', 1]],
        ]
        fails = []
        for h in hs:
            case = {'kind': 'single', 'events': h, 'apply': True}
            obs = lib.canon(self.run_impl(case))
            msg = self.oracle(case, obs)
            if msg:
                fails.append({'case': case, 'observation': obs, 'oracle': msg, 'key': None})
        return {'genuine_solves_with_recording_callback': sum(sum(e[0] == 'A' for e in h) for h in hs), 'failures': fails}
